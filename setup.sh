#!/bin/bash
# setup_cmd: offline install of what the checks need beside the repository's own packages.
set -u
HERE="$(cd "$(dirname "$0")" && pwd)"
export PIP_NO_INDEX=1
/venv/bin/python -c "import hypothesis" 2>/dev/null || \
  /venv/bin/pip install --no-index --find-links /opt/veriftools/wheels hypothesis || exit 1
mkdir -p "$HERE/.deps"
if ! PYTHONPATH="$HERE/.deps" /venv/bin/python -c "import atheris" 2>/dev/null; then
  /venv/bin/pip install --no-index --find-links /opt/veriftools/wheels --target "$HERE/.deps" atheris \
    || echo "setup: atheris not installable; the C01 thorough tier will skip coverage-guided fuzzing" >&2
fi
/venv/bin/python -c "import hypothesis, sharepoint2text; print('setup ok', hypothesis.__version__)"
