#!/usr/bin/env python3
"""tools/survey_grid.py <fmt> [n]: failing classes of the spreadsheet leg of C13 with greedy feature attribution (development aid)."""
import sys, os, collections
sys.path.insert(0, os.path.dirname(os.path.dirname(os.path.abspath(__file__))))
import hypothesis, warnings, logging
from hypothesis import given, settings, HealthCheck
from vf.gen import sheets
from vf.props import c13
warnings.filterwarnings("ignore"); logging.getLogger("sharepoint2text").addHandler(logging.NullHandler())
fmt = sys.argv[1]; n = int(sys.argv[2]) if len(sys.argv) > 2 else 300
classes = collections.Counter(); ex = {}
@hypothesis.seed(5)
@settings(max_examples=n, database=None, deadline=None, suppress_health_check=list(HealthCheck))
@given(sheets.grids(fmt, headers="any"))
def t(g):
    fails = c13.judge_grid(g, fmt)
    if not fails: return
    feats = sorted(sheets.grid_features(g))
    cur, used = g, []
    for f in feats:
        cur = c13._neutralise_grid(cur, f); used.append(f)
        if not c13.judge_grid(cur, fmt): break
    else: used = None
    need = []
    if used:
        need = list(used)
        for f in list(used):
            trial = g
            for h in need:
                if h != f: trial = c13._neutralise_grid(trial, h)
            if not c13.judge_grid(trial, fmt): need.remove(f)
    key = (tuple(sorted({c for c, _ in fails})), tuple(need) or ("?",) + tuple(feats))
    classes[key] += 1; ex.setdefault(key, fails[0][1][:200])
t()
for k, v in classes.most_common(): print(v, k, "|", ex[k])
