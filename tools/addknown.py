#!/usr/bin/env python3
"""tools/addknown.py <replay/new/file.json> <finding-id> <feature> <clause[,clause]> <what...>
Moves a reproducer into replay/known/ and appends an open record to known_findings.jsonl (never done at check run time)."""
import json, os, shutil, sys
src, fid, feature, clauses = sys.argv[1:5]
what = " ".join(sys.argv[5:])
HERE = os.path.dirname(os.path.dirname(os.path.abspath(__file__)))
payload = json.load(open(os.path.join(HERE, src) if not os.path.isabs(src) else src))
dst = f"replay/known/{fid}.json"
json.dump(payload, open(os.path.join(HERE, dst), "w"), indent=1, sort_keys=True)
rec = {"status": "open", "id": fid, "property": payload["property"], "format": payload.get("format") or payload.get("wrapper") or payload.get("extractor"),
       "feature": feature, "clauses": clauses.split(","), "signature": payload.get("signature"), "what": what, "replay": dst}
with open(os.path.join(HERE, "known_findings.jsonl"), "a") as fh:
    fh.write(json.dumps(rec) + "\n")
print("added", rec)
