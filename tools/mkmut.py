#!/usr/bin/env python3
"""tools/mkmut.py <name> <relpath> <old> <new> [count]: writes mutants/<name>.patch replacing old->new in /repo/<relpath> (working tree untouched)."""
import difflib, sys
name, rel, old, new = sys.argv[1:5]
count = int(sys.argv[5]) if len(sys.argv) > 5 else 1
src = open(f"/repo/{rel}").read()
assert src.count(old) >= 1, f"old text not found ({src.count(old)})"
dst = src.replace(old, new, count)
diff = "".join(difflib.unified_diff(src.splitlines(True), dst.splitlines(True), f"a/{rel}", f"b/{rel}"))
open(f"/verif/mutants/{name}.patch", "w").write(diff)
print("wrote", name, len(diff.splitlines()), "lines")
