#!/usr/bin/env python3
"""tools/survey.py <Cxx-module> <fmt> [n]: generate n documents, never stop at failures, print failing classes with single-feature attribution.
Development aid only (not a registered check)."""
import sys, os, collections
sys.path.insert(0, os.path.dirname(os.path.dirname(os.path.abspath(__file__))))
import hypothesis
from hypothesis import given, settings, HealthCheck
from vf.gen import model, neutral
from vf.gen.profiles import PROFILES
import importlib
mod = importlib.import_module("vf.props." + sys.argv[1].lower())
fmt = sys.argv[2]; n = int(sys.argv[3]) if len(sys.argv) > 3 else 300
import logging; logging.getLogger("sharepoint2text").addHandler(logging.NullHandler())
classes = collections.Counter(); examples = {}
@hypothesis.seed(7)
@settings(max_examples=n, database=None, deadline=None, suppress_health_check=list(HealthCheck))
@given(model.documents(PROFILES[fmt]))
def t(doc):
    fails = mod.judge(doc, fmt)
    if not fails:
        return
    feats = sorted(model.features(doc))
    # greedy: neutralise cumulatively until the document passes, then drop the features that were not needed
    cur, used = doc, []
    for f in feats:
        cur = neutral.neutralise(cur, f)
        used.append(f)
        if not mod.judge(cur, fmt):
            break
    else:
        used = None
    culprits = []
    if used:
        need = list(used)
        for f in list(used):
            trial = doc
            for g in need:
                if g != f:
                    trial = neutral.neutralise(trial, g)
            if not mod.judge(trial, fmt):
                need.remove(f)
        culprits = need
    key = (tuple(sorted({c for c, _ in fails})), tuple(culprits) or ("?",) + tuple(feats))
    classes[key] += 1
    examples.setdefault(key, fails[0][1][:160])
t()
for k, v in classes.most_common():
    print(v, k, "|", examples[k])
