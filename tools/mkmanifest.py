#!/usr/bin/env python3
"""Regenerates MANIFEST.json from the table below (kept in one place so it is always schema-valid)."""
import json, os
HERE = os.path.dirname(os.path.dirname(os.path.abspath(__file__)))
BASELINE = "cd /repo && /venv/bin/python -m pytest -ra -q -p no:cacheprovider --timeout=900 --continue-on-collection-errors"

# id -> (category, technique, level text, level note, design ref)
CHECKS = {
 "C01": ("exploration", "Hypothesis-drawn mutation recipes (byte-level, container-aware ZIP/OLE2, per-format token dictionaries, cross-routing, degenerate inputs) over fixture and generated seeds, each case in a forked worker under rlimits; atheris coverage-guided fuzzing per extractor in the thorough tier",
         "Every seed of every format through all entry points (extractor, read_file, ZIP member, e-mail attachment, CLI x 4 modes) plus one cross-routing each (enumerated); thousands of drawn mutants per run through the "
         "extractor and a third of them through all entry points. Oracle: results or ExtractionError only, worker not killed within 60 s CPU / 3 GiB, CLI exit/stdout/stderr contract with a strict UTF-8 stdout. "
         "Thorough: 50x the cases and one atheris campaign per extractor (seeded and empty corpus) whose artifacts are re-judged by the same forked oracle.",
         "Sampling: absence of a wrong exception type or an unbounded loop is not proved; termination is a CPU budget. Coverage guidance only in the thorough tier (a mutant that narrows the mbox wrapper is killed there, "
         "not in the quick tier).", "DESIGN.md §4 C01"),
 "C20": ("exploration", "exhaustive table enumeration + Hypothesis differential testing against an independent reference AES",
         "All byte tables, ShiftRows positions and a GF(2) basis of MixColumns are enumerated completely; FIPS-197/SP 800-38A known answers; "
         "thousands of Hypothesis-drawn operation sequences (shared key pool, so the round-key cache is exercised) are compared with an independently "
         "written reference; the pypdf stream wrapper is checked for every length 0..64 x 3 key sizes; wrong lengths must raise ValueError only. After patch_pypdf_fallback_aes() every AES name in the three patched pypdf namespaces is compared with the reference, and AlgV5 /Perms values round-trip.",
         "Trusts vf/gen/refaes.py (self-checked against the standard's vectors on every run). Random part is sampling: absence of a key/block-specific fault is not proved, "
         "but AES being table-driven and linear in MixColumns, the exhaustive parts cover every table entry the cipher can touch.", "DESIGN.md §4 C20"),
 "C19": ("exploration", "exhaustive enumeration of small OMML trees + Hypothesis random trees against an independent reference renderer",
         "Every structural element with every optional child/attribute present or absent is enumerated alone, between runs and nested one level into every operand slot; "
         "random trees to depth 6 (property elements interleaved, all mapped symbols, brackets, malformed radicals, oMathPara). Oracle: totality, determinism, every run token "
         "exactly once in source order, brace balance, and full match against an independently written reference renderer (regex, whitespace-insensitive). Call sites: 1-4 generated DOCX files with up to 12 formulas (and a batch of 6 x 40) extracted one after another in a fresh process must report what the converter gives for the same element.",
         "Reference renderer and symbol table (derived from Unicode names) are trusted; trees follow schema child order; trees with malformed radicals are judged by clauses 1-4 only; "
         "sampling beyond the enumerated sizes.", "DESIGN.md §4 C19"),
 "C07": ("exploration", "Hypothesis path-string generation + exhaustive extension/case/stem product against an independent routing table, 3 MIME configurations",
         "Every documented extension x 5 case masks x 14 stems x 3 MIME configurations is enumerated; thousands of generated paths (directory/stem grammar, every extension known to the "
         "README, the router and the platform mimetypes database, junk) per configuration check is_supported_file <=> get_extractor, exact error type, documented extractor, alias==base, "
         "case/stem/directory/MIME invariance; read_file dispatch is checked with spies on real temp files. Paths with query/fragment/separator tails, symbolic links, and histories of MIME-configuration switches inside one process are included.",
         "The reference table is hand-transcribed from the README; MIME fallback outcomes for undocumented extensions are only checked for equivalence of the two entry points.", "DESIGN.md §4 C07"),
 "C08": ("exploration", "Hypothesis model generation of plain/encrypted pairs per container mechanism with the harness' own writers; fresh-process differential for empty-password PDFs",
         "Thousands of generated JSON models per run are rendered to OLE2-wrapped OOXML, ODF manifests (3 namespace spellings, any member subset), BIFF8 (FILEPASS at every globals position), DOC FIB flags, "
         "PPT header token with/without EncryptedSummary, forged ZIP flag bits/methods, 7z AES coders (file folders, encoded header, both coder orders), EPUB encryption.xml/rights.xml, and PDFs of all five "
         "standard-security-handler algorithms with empty/non-empty passwords (written and read in fresh forks). Encrypted => ExtractionFileEncryptedError with zero results via extractor, read_file and CLI; "
         "plain (with look-alike names/bytes) => never; empty-password PDF == original. All 81 fixtures and 19 cross-routed fixtures enumerated.",
         "Marker documents: payload behind the marker is pseudo-random or clear, so only detection is tested, not real decryption failure modes; real ciphertext only for PDFs (pypdf writer + reference AES) "
         "and the 11 fixtures. Undefined cases (\\x06DataSpaces only, font-obfuscation-only EPUB) are not judged.", "DESIGN.md §4 C08"),
 "C12": ("exploration", "amplifier families on a magnitude grid + Hypothesis-drawn magnitudes, each case measured in a forked worker under rlimits; Hypothesis boundary search for the explicit limits with read/decompress spies",
         "25 amplifier families (repeat attributes, declared dimensions, part reuse, entity constructs, nesting, span attributes, OLE counts/vector lengths, compressor ratios in 7z/tar/zip, 7z header counts, "
         "PDF loops, mail separators/nesting) x variants x magnitudes up to 10^9 at (near-)constant file size; CPU and peak-RSS growth of extractor+get_full_text+iterate_units against 5 s + 100 us x U and "
         "64 MiB + 512 x U. Limits: read_file max_file_size at L-1/L/L+1 and 0 (incl. sparse 100 MB + 1), 7z archives of exactly 100 MB -1/0/+1, members at limit -1/0/+1 in zip/tar/tar.gz/7z for "
         "generated limits and the default 10 MiB, with spies proving oversize members are neither read nor written.",
         "Cost bounds are thresholds chosen in DESIGN.md, not derived from the code; amplification is sampled by family (unknown amplifiers are left to C01's fuzzers); nine design-level amplifiers "
         "(dense ODS/XLSX grids, ODT space counts, part reuse in XLSX/EPUB, solid 7z folders) are listed as known findings and excluded above their listed magnitude.", "DESIGN.md §4 C12"),
 "C15": ("exploration", "harness-owned thread schedules over the real patch section (exhaustive DFS for 2 threads, Hypothesis-drawn for 3-4), Hypothesis histories with a global-state snapshot, preemptive stress",
         "pypdf._page's module class is swapped so that every read/write of build_char_map by a controlled thread is a scheduling point; all choice sequences for 2 threads and drawn ones for 3-4 threads run the "
         "real _extract_text_with_spacing on CID-font pages whose digits depend on the patch; oracle: per-thread text equals the single-thread baseline and the function object is restored. Histories: drawn sequences "
         "(exhaust/abandon/close) over 50 fixtures and generated documents incl. failing and state-sharing pairs; after each step digest == fresh-process baseline and snapshot (pypdf function identity, archive config, "
         "mimetypes, private temp root, fds, threads, recursion limit, cwd, environ, warnings filters) == snapshot before the first extraction; all ordered pairs of state-sharing PDFs in cold processes. "
         "Stress: 8 threads at 1 us switch interval over drawn workloads.",
         "Scheduling points are the accesses of the patched attribute only; interleavings inside third-party C code and at bytecode level are only sampled by the stress part, which is schedule-dependent (reports need "
         "two reproductions). k>=3 is sampled, not exhaustive. One-way initialisations that do not change results are allowed.", "DESIGN.md §4 C15"),
 "C11": ("exploration", "exhaustive boundary lattice + Hypothesis vectors against an exact-rational reference predicate; forged real ZIP packages with an open/validate event monitor",
         "validate_zipfile is compared with an independently written reference on the complete single-clause boundary lattice and on tens of thousands of generated (entries, limits) vectors built "
         "around the thresholds; 12 real package kinds get extra members with forged central-directory sizes on either side of each DEFAULT limit (incl. 50 000/50 001 entries) and must be rejected "
         "exactly when the reference rejects, with no member opened before validation or after rejection; tell() preservation of validate_zip_bytesio. One BytesIO opened several times under changing limits and refilled with other packages is judged open by open.",
         "Base packages are repository fixtures re-packed by zipfile; the 'no extractor opens ZipFile directly' clause is observed at run time on the driven paths only; the entry-count clause is not "
         "judged where counting directories would change the verdict.", "DESIGN.md §4 C11"),
 "C18": ("fault_enumeration", "Hypothesis-generated Graph libraries and operations against a reference walk; exhaustive enumeration of (request index x fault kind) per run with fault-free retry",
         "For each generated library and operation the healthy result is compared (multiset, every field, parent path) with an independent reference walk and filter predicate; then every request "
         "index k of that run x 11 fault kinds is injected on a cold and on a warm client: the error must be of the client's family with the injected status and failing URL, every response handed "
         "out must be closed, and a retry on the same client must return the complete listing.",
         "The transport is a simulation of Graph (paging via @odata.nextLink, path and id addressing); 404 on the folder lookup is treated as a legitimate answer; fault kinds are those listed in the property "
         "(timeouts/partial reads are not modelled).", "DESIGN.md §4 C18"),
 "C17": ("exploration", "grammar-based Hypothesis generation of HTML with class-tagged tokens, extracted through 6 wrappers; token-sequence oracle",
         "Thousands of documents from a grammar of visible blocks interleaved with removable elements (all 7 kinds + comments) holding hostile content (void/self-closing/unclosed children, "
         "stray end tags, nested removable elements, CDATA, JS/CSS text with markup, mixed case) are extracted as .html, .mhtml (3 transfer encodings), EPUB chapter and MSG body; every hidden token "
         "must be absent and every visible token present exactly once in order.",
         "Token-level oracle (non-token characters are not judged); EPUB gets only the well-formed-XML subset; unterminated comments inside removed elements are outside the grammar.", "DESIGN.md §4 C17"),
 "C02": ("exploration", "model-based Hypothesis generation: abstract documents with unique class-tagged tokens rendered by independent writers to 17 formats; token-sequence oracle with known-finding attribution by neutralisation",
         "Documents over paragraphs/runs/tabs/breaks/links/tracked changes/comments/notes/fields/content controls/headings/nested lists/tables (multi-paragraph, nested, empty cells)/text boxes/groups/"
         "headers/footers/speaker notes are rendered to docx, pptx, odt, odp, odg, rtf, html, mhtml, epub, txt, md, csv, tsv, json, pdf, eml, mbox and extracted; every body token must occur exactly once, in order, "
         "separated across boundaries, no excluded token, no alphanumeric residue. A failure is tolerated only if neutralising the feature of a listed known finding makes the document pass and the failing clause is the listed one. Spreadsheet grids are checked cell by cell in the sheet text; a character leg puts non-ASCII letters (Latin-1 ... supplementary planes) behind every token in the 11 formats with a declared encoding and requires them unchanged.",
         "Writers are the harness's own (self-checked for well-formedness) and part of the trusted base; only tokens are judged; xlsx/ods/xls/ppt legs are covered by C13/C03; visual reading order beyond the documented rule is not judged.", "DESIGN.md §4 C02"),
 "C03": ("exploration", "model-based Hypothesis generation of multi-unit documents (empty units, permuted part order, absolute targets, heading structures) + all fixtures; unit count/number/partition/join oracle",
         "Generated documents with up to 8 (thorough 30) pages/slides/chapters/messages incl. empty ones are rendered to 17 formats; each unit must carry its 1-based source position, hold exactly the tokens of its "
         "source unit (text, unit tables or heading path), and get_full_text() must equal the trimmed newline-join of the unit texts for the formats documented so. Every repository fixture is checked for numbering and the join clause.",
         "For heading-sectioned flow formats the number of units is not prescribed (only numbering, partition and order); heading text is not required to be covered when its section has no body; fixtures have no ground truth for count/partition.", "DESIGN.md §4 C03"),
 "C13": ("exploration", "model-based Hypothesis generation of tables (documents) and typed grids (spreadsheets) rendered by independent writers; cell-by-cell oracle with known-finding attribution",
         "Document tables (multi-paragraph/empty/nested cells, header rows, several tables) in docx, pptx, odt, odp, html, mhtml, epub, rtf must come back one grid per source table, in order, each cell holding exactly "
         "its tokens; spreadsheet grids with typed values, empty cells, typed/empty headers, offsets, >100-cell gaps and header rows in xlsx (two independent writers), ods and xls must come back value-equal from A1 with "
         "matching get_dim() and one unit per sheet. Header-row conventions of xlsx/xls are listed known findings and attributed by neutralisation.",
         "Writers (own OOXML/ODF/BIFF8, openpyxl) are trusted; duration/error cell forms are not judged; ragged rows only where the format allows them.", "DESIGN.md §4 C13"),
 "C14": ("exploration", "Hypothesis generation of image-bearing documents (own PNG/JPEG/GIF/BMP encoders, all package reference forms) in 10 formats + all fixtures; byte/type/size/number/unit oracle",
         "0..5 generated images of random pixel sizes are placed on 1..3 units of docx, pptx, xlsx, odt, odp, ods, odg, epub, pdf, rtf using relative/parent-relative/absolute/dot reference forms, display size equal to or "
         "different from the pixel size, permuted part numbering, wrapped RTF hex; iterate_images() must return exactly those images bit-exact, typed, sized, numbered 1..n, on the right unit, and unit views must be "
         "consistent with the document view (also checked on every fixture).",
         "External (http) images are not generated; shared media (odp) and frames whose picture part is missing (odt, odp, odg; xlsx dangling relationship) are; per-slide/page numbering (pptx, pdf) and ODF frame-size reporting are listed known findings (pinned by the suite).", "DESIGN.md §4 C14"),
 "C05": ("exploration", "Hypothesis: extractor results of generated documents/spreadsheets/image documents + type-directed instances of every registered dataclass (marker vocabulary); JSON round-trip / binary-null / CLI-equality oracle",
         "Results and units from generated documents of all formats, typed spreadsheets (incl. duration/error cells and marker-word cells), image-bearing documents and every fixture, plus thousands of instances built from "
         "the type hints of each registered dataclass, must be json.dumps-able, restore to the same type with identical to_json / text / units / tables / image bytes, turn exactly the binary leaves into null without binary, "
         "and the CLI's four JSON modes must print that same JSON.",
         "Floats are finite, dict keys are strings; the absence of escaping for marker keys in plain dicts is a listed design-level known finding.", "DESIGN.md §4 C05"),
 "C06": ("exploration", "differential testing of extraction across repetitions, fresh interpreters and hash seeds + Hypothesis-drawn observer histories with an idempotence/invariance oracle",
         "Every fixture and a seeded sample of generated documents of all formats is extracted twice in-process and in fresh interpreters under four PYTHONHASHSEED values; the to_json digests must agree and the input "
         "buffer must be unchanged. For every input, random sequences of observers (text, units, images incl. partial reads, tables, metadata, JSON forms) must return the same value each time and never change to_json(). Observers with flipped boolean options are included and every observation is compared with a never-observed result; a serialised result must not change when the same or sibling documents are extracted later under other paths.",
         "Hash seeds and histories are sampled; failures of extraction are compared by exception type only.", "DESIGN.md §4 C06"),
 "C04": ("exploration", "Hypothesis: generated documents of every format with Unicode document properties, container-aware mutants that are still accepted, all fixtures x path-argument forms; interface battery oracle",
         "For results of 21 extractors over generated documents/spreadsheets/image documents (document properties from a Unicode strategy, OLE code pages 1252/65001/1200), fixtures and accepted mutants, with nine path-argument "
         "forms, a battery checks every accessor of the result and of each reachable unit/image/table (types, UTF-8 well-formedness, positive numbers, stream position/length, dims, file metadata vs an independent derivation, "
         "stored document properties reported unchanged, nothing raises, well-formed generated documents are not rejected).",
         "Property strings have no leading/trailing whitespace or control characters; .msg and real .doc piece tables are covered by fixtures and mutants only.", "DESIGN.md §4 C04"),
 "C10": ("exploration", "Hypothesis-generated member sets packed by reference writers (zipfile, tarfile, an independent 7z writer) with one member corrupted at a time; differential oracle against direct extraction of each member",
         "Archives in 7 kinds (zip stored/deflated, tar, tar.gz/bz2/xz, 7z with Copy/LZMA/LZMA2 x solid/per-file/mixed x plain/encoded header x attributes x CRCs) over generated member documents of 14 formats, directories, empty files, "
         "hidden/__MACOSX/nested-archive/unsupported entries and unicode (incl. astral) names: read_archive must yield exactly the supported visible members in order, each with a to_json identical to extracting the member's bytes "
         "alone under the path 'archive!/member'; a corrupt member removes only itself.",
         "zipfile/tarfile and the harness's 7z writer are trusted packers; an empty plain tar (undetectable) is outside the domain.", "DESIGN.md §4 C10"),
 "C09": ("exploration", "Hypothesis-generated hostile archives x consumer behaviours executed in a monitored worker process (private TMPDIR, sys.addaudithook file-system monitor, canary files)",
         "ZIP/TAR(.gz/.bz2/.xz)/7z archives over a hostile member-name grammar (absolute, ../ chains, back-slashes, drive letters, empty, very long, unicode, names of existing canary files), TAR links/devices/fifos aimed at the "
         "canaries, 7z entries with and without streams and skipped member classes are consumed by exhaust / take-k-then-close / abandon / throw consumers; every Python-level file-system event must stay inside the private temp root "
         "(reads also allowed in interpreter/package files), canaries stay intact and never show up in results, the temp root is empty afterwards, skipped classes yield nothing, and results do not change with host directory content.",
         "Audit hooks observe Python-level I/O only; the worker is warmed up before monitoring; names are drawn from a fixed hostile vocabulary plus shrinker variations.", "DESIGN.md §4 C09"),
 "C16": ("exploration", "model-based Hypothesis generation of MIME messages serialised by the stdlib email package (hand-written address headers), as .eml and inside mboxes; field-by-field oracle + eml/mbox differential",
         "Messages over non-ASCII subjects and display names (RFC 2047), quoted commas, folded headers, seven charsets x four transfer encodings, single/alternative/html-only/related structures and 0..3 attachments (generated "
         "documents and blobs, RFC 2231 names) are extracted as .eml and as members of LF/CRLF mboxes with '>From ' escapes and near-separator lines; subject, addresses, instant, message id, bodies and attachment bytes must equal "
         "the model, mbox results must be one per message in order and equal the .eml results, and supported attachments must extract like the attached bytes alone.",
         "The stdlib serialiser is the reference writer (its address-list refolding bug is avoided by writing those headers by hand); '>From ' un-escaping and inline related images are unspecified.", "DESIGN.md §4 C16"),
}
NOT_YET = {}

def main():
    props = [json.loads(l)["id"] for l in open(os.path.join(HERE, "properties.jsonl"))]
    checks = []
    for pid in props:
        if pid not in CHECKS:
            continue
        cat, tech, text, note, ref = CHECKS[pid]
        checks.append({
            "property_id": pid,
            "quick_cmd": f"./check {pid} --tier quick",
            "thorough_cmd": f"./check {pid} --tier thorough",
            "evidence_file": f"evidence/{pid}.json",
            "replay_cmd_template": f"./check {pid} --replay {{path}}",
            "engine": "vf",
            "level_claimed": {"category": cat, "text": text, "design_ref": ref},
            "level_note": note,
            "technique": tech,
        })
    man = {
        "version": 1,
        "setup_cmd": "./setup.sh",
        "hooks": {
            "guard": "SHAREPOINT2TEXT_VERIF",
            "enable": "no source hooks exist: all instrumentation (audit hooks, module-class swap on pypdf._page, zipfile spies, fake transport) is installed from the harness side; ./check exports SHAREPOINT2TEXT_VERIF=1 for uniformity",
            "baseline_off_cmd": BASELINE,
            "source_commits": [],
            "add_only": True,
        },
        "engines": [{"name": "vf", "path": "vf/", "serves_properties": [c["property_id"] for c in checks],
                     "kind_free_text": "Hypothesis property-based testing (plain + stateful), exhaustive enumeration of small finite sub-domains, fault injection, atheris fuzzing; model-based generators with ground truth by construction"}],
        "checks": checks,
        "notes": "All checks: cwd=/verif, ./check <id> [--tier quick|thorough] [--replay file]; exit 0 held / 1 VIOLATION / 2 harness error. Known findings: known_findings.jsonl.",
        "not_applicable": [{"property_id": p, "reason": NOT_YET.get(p, "check not built yet in this revision (see DESIGN.md §7 order of construction)")}
                           for p in props if p not in CHECKS],
    }
    with open(os.path.join(HERE, "MANIFEST.json"), "w") as fh:
        json.dump(man, fh, indent=1)
    try:
        import jsonschema
        jsonschema.validate(man, json.load(open("/root/.vp/MANIFEST.schema.json")))
        print("MANIFEST valid;", len(checks), "checks")
    except ImportError:
        print("jsonschema not available; wrote MANIFEST with", len(checks), "checks")

if __name__ == "__main__":
    main()
