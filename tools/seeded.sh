#!/bin/bash
# tools/seeded.sh <seeded-id e.g. C08-A> [check-id ...]: confirm a seeded change (demonstration flips HOLDS -> VIOLATED) and run the property's quick check on it.
ID="$1"; shift
PROP="${ID%%-*}"
CHECKS="${*:-$PROP}"
DIR="/verif/seeded/$ID"
SCR="$(mktemp -d /var/tmp/vf-seed-XXXXXX)"
trap 'rm -rf "$SCR"' EXIT
rsync -a --exclude .git /repo/ "$SCR/"
BEFORE="$(cd "$SCR" && PYTHONPATH="$SCR" timeout 300 /venv/bin/python "$DIR/demonstration.py" 2>&1 | grep -E '^(HOLDS|VIOLATED)' | head -1 | cut -c1-80)"
( cd "$SCR" && patch -p1 -s < "$DIR/patch.diff" ) || { echo "$ID PATCH-FAILED"; exit 2; }
AFTER="$(cd "$SCR" && PYTHONPATH="$SCR" timeout 300 /venv/bin/python "$DIR/demonstration.py" 2>&1 | grep -E '^(HOLDS|VIOLATED)' | head -1 | cut -c1-160)"
echo "$ID demo: unchanged=[${BEFORE:-none}] changed=[${AFTER:-none}]"
for C in $CHECKS; do
  START=$(date +%s)
  OUT="$(VF_REPO="$SCR" /verif/check "$C" --no-evidence 2>&1)"; RC=$?
  END=$(date +%s)
  if [ $RC -eq 1 ] && echo "$OUT" | grep -q "^VIOLATION property=$C"; then
    echo "$ID CAUGHT by $C in $((END-START))s: $(echo "$OUT" | grep -A2 '^VIOLATION' | head -3 | tr '\n' ' ' | cut -c1-420)"
  else
    echo "$ID MISSED by $C rc=$RC in $((END-START))s: $(echo "$OUT" | tail -2 | tr '\n' ' ' | cut -c1-300)"
  fi
done
rm -rf /verif/replay/new/* 2>/dev/null
