#!/bin/bash
# tools/sweep.sh <outdir> [seeded|mutants|all]: run every seeded change (seeded/<id>/) and every own mutant (mutants/*.patch) through the quick tier of its
# property's check on a scratch copy of /repo; one log per item under <outdir>/seeded and <outdir>/mutants (input of tools/report.py sensitivity).
# A seeded change whose meta.json has "also": ["Cxx", ...] is run through those checks too (changes that fall under another property's statement).
OUT="${1:?outdir}"; WHAT="${2:-all}"
mkdir -p "$OUT/seeded" "$OUT/mutants"
cd /verif
if [ "$WHAT" = all ] || [ "$WHAT" = seeded ]; then
  for d in seeded/C*; do
    id=$(basename "$d"); prop="${id%%-*}"
    also=$(python3 -c "import json,sys; print(' '.join(json.load(open('$d/meta.json')).get('also', [])))" 2>/dev/null)
    tools/seeded.sh "$id" $prop $also > "$OUT/seeded/$id.log" 2>&1
  done
fi
if [ "$WHAT" = all ] || [ "$WHAT" = mutants ]; then
  for p in mutants/*.patch; do
    name=$(basename "$p" .patch); prop=$(echo "${name%%-*}" | tr c C)
    tools/mutant.sh "$p" "$prop" > "$OUT/mutants/$name.log" 2>&1
  done
fi
echo SWEEP-DONE > "$OUT/done"
