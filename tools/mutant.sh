#!/bin/bash
# tools/mutant.sh <patch-file> <Cxx> [--suite] : sensitivity protocol (DESIGN §2.8)
# Copies /repo to a scratch dir outside /repo and /verif, applies the patch, optionally runs the repo suite,
# runs the quick check with VF_REPO pointing at the copy, prints CAUGHT / MISSED, removes the copy.
PATCH="$(realpath "$1")"; PROP="$2"; SUITE="${3:-}"
SCR="$(mktemp -d /var/tmp/vf-mut-XXXXXX)"
trap 'rm -rf "$SCR"' EXIT
rsync -a --exclude .git /repo/ "$SCR/"
( cd "$SCR" && patch -p1 -s < "$PATCH" ) || { echo "PATCH-FAILED $PATCH"; exit 2; }
if [ "$SUITE" = "--suite" ]; then
  ( cd "$SCR" && PYTHONPATH="$SCR" /venv/bin/python -m pytest -q -p no:cacheprovider -x --timeout=900 2>&1 | tail -3 )
fi
START=$(date +%s)
OUT="$(VF_REPO="$SCR" /verif/check "$PROP" --no-evidence 2>&1)"; RC=$?
END=$(date +%s)
if [ $RC -eq 1 ] && echo "$OUT" | grep -q "^VIOLATION property=$PROP"; then
  echo "CAUGHT $(basename "$PATCH") by $PROP in $((END-START))s: $(echo "$OUT" | grep -A1 '^VIOLATION' | head -2 | tr '\n' ' ' | cut -c1-300)"
else
  echo "MISSED $(basename "$PATCH") by $PROP rc=$RC in $((END-START))s"; echo "$OUT" | tail -5
fi
rm -rf /verif/replay/new/* 2>/dev/null
