"""Subprocess used by C06: extracts every file listed in the manifest given on argv[1] and prints {name: sha256(to_json)} as JSON.
Run with a chosen PYTHONHASHSEED in a fresh interpreter."""
import hashlib
import io
import json
import logging
import sys
import warnings

warnings.filterwarnings("ignore")
logging.getLogger("sharepoint2text").addHandler(logging.NullHandler())
logging.getLogger("pypdf").addHandler(logging.NullHandler())


def digest_results(results):
    return hashlib.sha256(json.dumps([r.to_json() for r in results], sort_keys=True, default=repr).encode()).hexdigest()


def main():
    from sharepoint2text.parsing.router import get_extractor
    man = json.load(open(sys.argv[1]))
    order = sys.argv[2] if len(sys.argv) > 2 else "fwd"
    if order == "rev":          # a different order in every worker: a result that depends on what was extracted before shows up as a digest mismatch
        man = man[::-1]
    elif order == "rot":
        man = man[len(man) // 2:] + man[:len(man) // 2]
    out = {}
    for item in man:
        try:
            data = open(item["file"], "rb").read()
            results = list(get_extractor("x." + item["ext"])(io.BytesIO(data), "x." + item["ext"]))
            out[item["name"]] = digest_results(results)
        except Exception as e:  # noqa
            out[item["name"]] = f"EXC:{type(e).__name__}"
    json.dump(out, sys.stdout)


if __name__ == "__main__":
    main()
