"""C07 — Routing: is_supported_file == get_extractor succeeds; extension decides."""
from __future__ import annotations

import io
import os
import tempfile

from hypothesis import strategies as st

from vf.runner import Ctx, Partial, Violation, digest, hyp_search, shard_map

RULE = ("path strings = directory grammar x stem grammar x extension (every extension of the README tables, of the router tables, of the platform "
        "mimetypes database, junk) x case variant (ASCII letters flipped), under three MIME configurations (default / emptied / hostile overrides), each in "
        "its own process. Exhaustive: every documented extension x 5 case variants x 14 stems x 3 configurations. Oracle: is_supported_file <=> get_extractor "
        "returns (else exactly ExtractionFileFormatNotSupportedError); documented extension -> documented extractor (independent hand-transcribed table); alias "
        "== base; case / stem / directory / MIME-configuration invariance for table extensions; read_file reaches the same function (spies, also through symbolic links). Paths may carry a tail "
        "(?query, #fragment, '/', blank, '.', '%20'): whatever the router makes of it, both entry points agree. Histories of MIME-configuration switches and queries inside one process (fresh fork each): every "
        "query is judged under the configuration in force. Non-trivial = "
        "extension in the tables but not in bare lower-case form, or compound, or multi-dot/space/unicode stem, or non-default MIME configuration; distinct by path+config.")
ASSUMPTIONS = ["the reference table is transcribed by hand from README 'Supported Formats'", "os.sep is '/' (Linux)"]

# README "Supported Formats" -> extractor function (module suffix, function name)
_DOC = {
    "doc": "read_doc", "dot": "read_doc", "xls": "read_xls", "xlt": "read_xls", "ppt": "read_ppt", "pot": "read_ppt", "pps": "read_ppt", "rtf": "read_rtf",
    "docx": "read_docx", "docm": "read_docx", "dotx": "read_docx", "dotm": "read_docx",
    "xlsx": "read_xlsx", "xlsm": "read_xlsx", "xltx": "read_xlsx", "xltm": "read_xlsx",
    "pptx": "read_pptx", "pptm": "read_pptx", "potx": "read_pptx", "potm": "read_pptx", "ppsx": "read_pptx", "ppsm": "read_pptx",
    "odt": "read_odt", "ott": "read_odt", "odp": "read_odp", "otp": "read_odp", "ods": "read_ods", "ots": "read_ods", "odg": "read_odg", "odf": "read_odf",
    "eml": "read_eml_format_mail", "msg": "read_msg_format_mail", "mbox": "read_mbox_format_mail",
    "txt": "read_plain_text", "md": "read_plain_text", "csv": "read_plain_text", "tsv": "read_plain_text", "json": "read_plain_text",
    "pdf": "read_pdf", "html": "read_html", "htm": "read_html", "mhtml": "read_mhtml", "mht": "read_mhtml", "epub": "read_epub",
    "zip": "read_archive", "7z": "read_archive", "tar": "read_archive", "tgz": "read_archive", "gz": "read_archive",
    "tbz2": "read_archive", "bz2": "read_archive", "txz": "read_archive", "xz": "read_archive",
}
_ALIAS = {"dot": "doc", "xlt": "xls", "pot": "ppt", "pps": "ppt", "docm": "docx", "dotx": "docx", "dotm": "docx", "xlsm": "xlsx", "xltx": "xlsx",
          "xltm": "xlsx", "pptm": "pptx", "potx": "pptx", "potm": "pptx", "ppsx": "pptx", "ppsm": "pptx", "ott": "odt", "otp": "odp", "ots": "ods",
          "htm": "html", "mht": "mhtml", "gz": "tgz", "bz2": "tbz2", "xz": "txz", "md": "txt", "csv": "txt", "tsv": "txt", "json": "txt"}
_COMPOUND = {".tar.gz": "read_archive", ".tar.bz2": "read_archive", ".tar.xz": "read_archive"}
_MODULE_OF = {
    "read_doc": "ms_legacy.doc_extractor", "read_xls": "ms_legacy.xls_extractor", "read_ppt": "ms_legacy.ppt_extractor", "read_rtf": "ms_legacy.rtf_extractor",
    "read_docx": "ms_modern.docx_extractor", "read_xlsx": "ms_modern.xlsx_extractor", "read_pptx": "ms_modern.pptx_extractor",
    "read_odt": "open_office.odt_extractor", "read_odp": "open_office.odp_extractor", "read_ods": "open_office.ods_extractor",
    "read_odg": "open_office.odg_extractor", "read_odf": "open_office.odf_extractor",
    "read_eml_format_mail": "mail.eml_email_extractor", "read_msg_format_mail": "mail.msg_email_extractor", "read_mbox_format_mail": "mail.mbox_email_extractor",
    "read_plain_text": "plain_extractor", "read_pdf": "pdf.pdf_extractor", "read_html": "html_extractor", "read_mhtml": "mhtml_extractor",
    "read_epub": "epub_extractor", "read_archive": "archive_extractor",
}

STEMS = ["a", "report", "my report", "v1.2.final", ".hidden", "Ünïcödé-文書", "a b.c d", "x.tar", "x.docx", "archive.tar.gz", "dir.with.dots/file",
         "/abs/path/to/file", "https://host/sites/x/Shared%20Documents/file", "C:\\Users\\me\\file"]


def ref_route(path: str):
    """Independent reference: name of the documented extractor, or None when the extension is not documented."""
    low = path.lower()
    for c, fn in _COMPOUND.items():
        if low.endswith(c):
            return fn
    base = low.rsplit("/", 1)[-1]
    stripped = base.lstrip(".")
    if "." not in stripped:
        return None
    ext = stripped.rsplit(".", 1)[1]
    return _DOC.get(ext)


def flip_case(path: str, mask: int) -> str:
    out = []
    i = 0
    for ch in path:
        if ch.isascii() and ch.isalpha():
            out.append(ch.upper() if (mask >> (i % 30)) & 1 else ch.lower())
            i += 1
        else:
            out.append(ch)
    return "".join(out)


def outcome(path):
    """('ok', module, name) | ('unsupported',) | ('raised', type) ; plus is_supported_file verdict."""
    from sharepoint2text.parsing.exceptions import ExtractionFileFormatNotSupportedError
    from sharepoint2text.parsing.router import get_extractor, is_supported_file
    try:
        sup = is_supported_file(path)
    except Exception as e:  # noqa
        sup = ("raised", type(e).__name__)
    try:
        f = get_extractor(path)
        got = ("ok", f.__module__, f.__name__)
    except ExtractionFileFormatNotSupportedError as e:
        got = ("unsupported",) if type(e) is ExtractionFileFormatNotSupportedError else ("raised", type(e).__name__)
    except Exception as e:  # noqa
        got = ("raised", type(e).__name__)
    return sup, got


def set_mime_config(cfg: str):
    import mimetypes
    mimetypes.init()
    if cfg == "empty":
        mimetypes.init(files=[])
        db = mimetypes._db
        for m in db.types_map + db.types_map_inv:
            m.clear()
        mimetypes.types_map.clear()
        mimetypes.common_types.clear()
    elif cfg == "hostile":
        supported = ["application/pdf", "text/plain", "application/zip", "application/msword", "message/rfc822", "text/html"]
        known = sorted(set(_DOC) | {"xhtml", "log", "markdown", "text", "bak", "exe"})
        for i, ext in enumerate(known):
            mimetypes.add_type(supported[i % len(supported)] if i % 2 == 0 else "application/x-vf-unsupported", "." + ext, strict=True)
            mimetypes.add_type(supported[(i + 1) % len(supported)], "." + ext, strict=False)


def judge(path: str, cfg: str, default_outcomes: dict | None = None):
    sup, got = outcome(path)
    fails = []
    if sup not in (True, False):
        fails.append(("no-other-error", f"is_supported_file({path!r}) raised {sup[1]}"))
    if got[0] == "raised":
        fails.append(("no-other-error", f"get_extractor({path!r}) raised {got[1]}"))
    if sup in (True, False) and got[0] != "raised" and sup != (got[0] == "ok"):
        fails.append(("equivalence", f"is_supported_file({path!r})={sup} but get_extractor -> {got}"))
    want = ref_route(path)
    if want is not None:
        if got[0] != "ok" or got[2] != want or not got[1].endswith(_MODULE_OF[want]):
            fails.append(("documented-extractor", f"{path!r} [{cfg}] -> {got}, documented {want}"))
        if sup is not True:
            fails.append(("documented-extractor", f"is_supported_file({path!r}) [{cfg}] = {sup} for a documented extension"))
    return fails, sup, got


def _ext_pool():
    import mimetypes
    mimetypes.init()
    pool = set(_DOC) | {"tar.gz", "tar.bz2", "tar.xz"}
    pool |= {k.lstrip(".") for k in list(mimetypes.types_map) + list(mimetypes.common_types)}
    pool |= {"", "c", "bak", "docx2", "xdocx", "doc x", "tar.gz.bak", "docx.gz", "tar.zip", "gz.docx", "DOCX", "pdf ", "pdf.", "p\u212af", "tar.gzz", "d\u00f6cx"}
    return sorted(pool)


_DIRS = ["", "dir/", "/abs/dir/", "./", "../up/", "dir.with.dots/", "dir with spaces/", "sp\u00e9cial/\u6587/", "https://h/sites/s/", "C:\\d\\", "a.docx/", "b.tar.gz/"]


def path_strategy(pool):
    stem = st.one_of(st.sampled_from([s.rsplit("/", 1)[-1] for s in STEMS]),
                     st.text(alphabet=st.sampled_from("ab.Z _-\u00e9\u6587%#&!()"), min_size=0, max_size=8))
    # what callers paste after a file name: URL queries and fragments, a trailing separator, blank or dot; whatever the router makes of it, both entry points must agree
    tail = st.sampled_from(["", "", "", "", "?download=1", "?web=1", "#page=2", "?v=3.docx", "?a=b.pdf&c=d", "/", " ", ".", "?", "%20", ";type=a", "?x=.tar.gz"])
    return st.tuples(st.sampled_from(_DIRS), stem, st.sampled_from(pool), st.integers(0, 2**30 - 1), st.booleans(), tail)


def _mk(d, stem, ext, mask, dot=True, tail=""):
    p = f"{d}{stem}{'.' if dot else ''}{ext}{tail}"
    return flip_case(p, mask)


def shard(ctx: Ctx, cfg: str):
    """One process per MIME configuration (mimetypes state is process-global)."""
    part = Partial()
    set_mime_config(cfg)
    pool = _ext_pool()

    def record(path, fails, got, generated_lower_bare):
        want = ref_route(path)
        nontrivial = (want is not None and not generated_lower_bare) or cfg != "default" and want is not None
        part.case(digest([path, cfg]), nontrivial, sample={"path": path, "cfg": cfg, "got": list(got)},
                  cfg=cfg, documented=want is not None, supported=got[0] == "ok")
        return [Violation(c, f"C07:{c}", d, {"kind": "paths", "path": path, "cfg": cfg}) for c, d in fails[:1]]

    # ---- exhaustive: documented extensions x case variants x stems
    n = 0
    for ext in sorted(_DOC) + ["tar.gz", "tar.bz2", "tar.xz"]:
        base_out = None
        for stem in STEMS:
            for mask in (0, 2**30 - 1, 0b0101010101010101, 1, 0b1110):
                path = flip_case(f"{stem}.{ext}", mask)
                fails, sup, got = judge(path, cfg)
                n += 1
                v = record(path, fails, got, stem == "a" and mask == 0)
                if base_out is None:
                    base_out = got
                elif got != base_out and not v:
                    v = [Violation("invariance", "C07:invariance", f"{path!r} [{cfg}] -> {got} but other stems/cases of .{ext} -> {base_out}",
                                   {"kind": "paths", "path": path, "cfg": cfg})]
                if v and len(part.violations) < 3:
                    part.violations.extend(v)
        # alias == base
        if ext in _ALIAS and _DOC[ext] != "read_plain_text":
            a, b = outcome(f"x.{ext}")[1], outcome(f"x.{_ALIAS[ext]}")[1]
            if a != b:
                part.violations.append(Violation("alias", "C07:alias", f".{ext} -> {a} but base .{_ALIAS[ext]} -> {b} [{cfg}]",
                                                 {"kind": "paths", "path": f"x.{ext}", "cfg": cfg}))
    part.exhaustive[f"documented extensions x 5 case masks x {len(STEMS)} stems [{cfg}]"] = n
    # ---- exhaustive: names whose MIME guess carries a content encoding (x.txt.br, x.csv.gz, backup.taz): whatever the router decides, both entry points decide the same
    import mimetypes as _mt
    encs = sorted(set(_mt.encodings_map) | {".gz", ".Z", ".bz2", ".xz", ".br"})
    sufs = sorted(set(_mt.suffix_map) | {".tgz", ".taz", ".tz", ".tbz2", ".txz", ".svgz"})
    m = 0
    for stem in ("notes", "dir.x/Backup"):
        for name in [f"{stem}.{e}{enc}" for e in ("txt", "csv", "json", "md", "html", "pdf", "docx", "xlsx", "eml", "xyz") for enc in encs] + [f"{stem}{sfx}" for sfx in sufs]:
            for mask in (0, 2**30 - 1):
                path = flip_case(name, mask)
                fails, sup, got = judge(path, cfg)
                m += 1
                v = record(path, fails, got, False)
                if v and len(part.violations) < 3:
                    part.violations.extend(v)
    part.exhaustive[f"names with a content-encoding suffix [{cfg}]"] = m

    # ---- random paths
    def ev(t):
        d, stem, ext, mask, dot, tail = t
        path = _mk(d, stem, ext, mask, dot, tail)
        fails, sup, got = judge(path, cfg)
        v = record(path, fails, got, False)
        if not v and ref_route(path) is not None:
            # metamorphic: another directory / stem / case with the same trailing extension gives the same function
            other = flip_case("zz/" + "q." + ext + tail, mask >> 3) if dot else None
            if other and ref_route(other) is not None and outcome(other)[1] != got:
                v = [Violation("invariance", "C07:invariance", f"{path!r} -> {got} but {other!r} -> {outcome(other)[1]} [{cfg}]",
                               {"kind": "paths", "path": path, "cfg": cfg})]
        return v

    hyp_search(ctx, f"paths-{cfg}", path_strategy(pool), ev, ctx.n(6000, 150000), part, model_shrink=False)
    # ---- outcomes for cross-configuration comparison
    table = {}
    for ext in pool:
        for stem in ("a", "dir/x.y"):
            p = f"{stem}.{ext}"
            table[p] = outcome(p)
    part.notes.append({"cfg": cfg, "table": {k: [v[0], list(v[1])] for k, v in table.items()}})
    return part


def read_file_dispatch(ctx: Ctx, part: Partial):
    """read_file must hand the file to the same function get_extractor names (spies on the extractor module attributes)."""
    import importlib
    import sharepoint2text
    from sharepoint2text.parsing.router import get_extractor
    calls = []
    originals = []
    for fn, mod in _MODULE_OF.items():
        m = importlib.import_module("sharepoint2text.parsing.extractors." + mod)
        orig = getattr(m, fn)

        def make(name, modname):
            def spy(file_like, path=None):
                calls.append((modname, name, file_like.read()))
                return iter(())
            spy.__name__ = name
            spy.__module__ = modname
            return spy
        originals.append((m, fn, orig))
        setattr(m, fn, make(fn, m.__name__))
    try:
        with tempfile.TemporaryDirectory(prefix="vf-c07-") as td:
            exts = sorted(_DOC) + ["tar.gz", "tar.bz2", "tar.xz"]
            os.makedirs(os.path.join(td, "blobs"), exist_ok=True)
            for i, ext in enumerate(exts):
                other = exts[(i + 7) % len(exts)]
                for name in (f"f{i}.{ext}", f"Mixed Name.v2.{ext.upper()}", f"link-to-blob{i}.{ext}", f"link-to-other{i}.{ext}"):
                    p = os.path.join(td, name)
                    payload = f"payload-{i}-{name}".encode()
                    if name.startswith("link-"):
                        # the path is a symbolic link whose target has no extension / another supported extension: routing is by the path given
                        target = os.path.join(td, "blobs", f"{i:04x}c2" if "blob" in name else f"stored{i}.{other}")
                        with open(target, "wb") as fh:
                            fh.write(payload)
                        os.symlink(target, p)
                    else:
                        with open(p, "wb") as fh:
                            fh.write(payload)
                    calls.clear()
                    try:
                        list(sharepoint2text.read_file(p))
                    except Exception as e:  # noqa
                        part.violations.append(Violation("read_file", "C07:read_file", f"read_file({name!r}) raised {type(e).__name__}: {e}",
                                                         {"kind": "paths", "path": name, "cfg": "default"}))
                        continue
                    want = ref_route(p)
                    g = get_extractor(p)
                    part.case(digest(["rf", name]), True, read_file=True)
                    if len(calls) != 1 or calls[0][1] != want or calls[0][1] != g.__name__ or calls[0][0] != g.__module__ or calls[0][2] != payload:
                        part.violations.append(Violation("read_file", "C07:read_file",
                                                         f"read_file({name!r}) reached {[(c[0], c[1]) for c in calls]} with payload ok="
                                                         f"{bool(calls) and calls[0][2] == payload}; documented {want}; get_extractor -> {g.__module__}.{g.__name__}",
                                                         {"kind": "paths", "path": name, "cfg": "default"}))
    finally:
        for m, fn, orig in originals:
            setattr(m, fn, orig)


def judge_switches(steps):
    """steps: [{"cfg": name} | {"path": str}] - configuration changes and queries in one process; every query is judged under the configuration in force."""
    cfg = "default"
    set_mime_config(cfg)
    for i, s in enumerate(steps):
        if "cfg" in s:
            cfg = s["cfg"]
            set_mime_config(cfg)
            continue
        fails, sup, got = judge(s["path"], cfg)
        if fails:
            c, d = fails[0]
            return [(c, f"step {i} after {[x.get('cfg') or x['path'] for x in steps[:i]]}: {d}")]
    return []


def _fallback_exts(pool):
    import mimetypes
    return sorted({e for e in pool if e and ref_route("x." + e) is None and mimetypes.guess_type("x." + e)[0] and outcome("notes." + e)[1][0] == "ok"} | {"log", "bak", "exe", "text", "markdown", "xhtml"})


def switch_shard(ctx: Ctx):
    """The MIME configuration changes while the process runs (mimetypes.add_type / init are public API): the answers must follow it."""
    part = Partial()
    set_mime_config("default")
    pool = _ext_pool()
    import mimetypes
    # extensions that only the MIME fallback can decide: supported under the default database without being documented, or re-typed by the hostile configuration
    from vf.props.c08 import in_fresh_fork
    fallback = in_fresh_fork(_fallback_exts, pool)
    paths = st.one_of(st.sampled_from(fallback).map(lambda e: "notes." + e), st.sampled_from(pool).map(lambda e: "dir/x." + e))
    step = st.one_of(st.fixed_dictionaries({"cfg": st.sampled_from(["default", "empty", "hostile"])}), st.fixed_dictionaries({"path": paths}), st.fixed_dictionaries({"path": paths}))

    def ev(steps):
        fails = in_fresh_fork(judge_switches, steps)      # every history starts from this process's untouched state, so a reported history replays as it stands
        asked = [s["path"] for s in steps if "path" in s]
        switches = sum(1 for s in steps if "cfg" in s)
        part.case(digest(["switch", steps]), switches >= 1 and len(asked) > len(set(asked)), sample={"steps": [s.get("cfg") or s["path"] for s in steps]} if part.evaluations % 97 == 0 else None, leg="switch")
        return [Violation(c, f"C07:{c}", d, {"kind": "switches", "steps": steps}) for c, d in fails]
    try:
        hyp_search(ctx, "switches", st.lists(step, min_size=2, max_size=14), ev, ctx.n(400, 8000), part)
    finally:
        set_mime_config("default")
    return part


def run(ctx: Ctx) -> Partial:
    part = Partial()
    part.merge(shard_map(ctx, "vf.props.c07", "switch_shard", 1))
    cfgs = ["default", "empty", "hostile"]
    sub = shard_map(ctx, "vf.props.c07", "shard", 3, extra_per_shard=[[c] for c in cfgs])
    tables = {n["cfg"]: n["table"] for n in sub.notes if isinstance(n, dict)}
    sub.notes = [n for n in sub.notes if not isinstance(n, dict)]
    part.merge(sub)
    # MIME-configuration invariance for documented extensions; equivalence already judged per configuration
    for p, base in tables.get("default", {}).items():
        if ref_route(p) is None:
            continue
        for c in ("empty", "hostile"):
            if tables[c].get(p) != base:
                part.violations.append(Violation("mime-invariance", "C07:mime-invariance", f"{p!r}: default -> {base}, {c} -> {tables[c].get(p)}",
                                                 {"kind": "paths", "path": p, "cfg": c}))
    read_file_dispatch(ctx, part)
    return part


def replay(ctx: Ctx, payload: dict):
    if payload.get("kind") == "switches":
        try:
            from vf.props.c08 import in_fresh_fork
            return [Violation(c, f"C07:{c}", d, payload) for c, d in in_fresh_fork(judge_switches, payload["steps"])]
        finally:
            set_mime_config("default")
    set_mime_config(payload.get("cfg", "default"))
    fails, sup, got = judge(payload["path"], payload.get("cfg", "default"))
    return [Violation(c, f"C07:{c}", d, {"kind": "paths", "path": payload["path"], "cfg": payload.get("cfg", "default")}) for c, d in fails]
