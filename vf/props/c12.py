"""C12 — Extraction cost is bounded by input size; explicit limits hold."""
from __future__ import annotations

import io
import math
import os
import shutil
import tarfile
import tempfile
import zipfile

from hypothesis import strategies as st

from vf.gen import amplify
from vf.measure import extract_all, measured
from vf.runner import Ctx, Partial, Violation, digest, hyp_search, shard_map

RULE = ("(A) Amplifier families (vf/gen/amplify.py): ODS column/row repeats on values and on gaps, ODT text:s counts and column repeats, XLSX declared dimensions and far cells/rows, one "
        "sheet/chapter/picture/page/content stream referenced m times (XLSX, EPUB spine, DOCX and ODT pictures, PDF /Kids and /Contents), XML entity constructs, nesting depth in "
        "DOCX/HTML/RTF/ODT/EPUB/JSON/EML, HTML col/rowspan, OLE property counts and vector lengths in doc/xls/ppt, LZMA/LZMA2/gzip/xz/bz2/deflate members of m MiB of zeros in 7z/tar/zip, "
        "7z header counts, PDF page-tree loops, mbox separators. The magnitude m is on a fixed grid per family plus Hypothesis-drawn values (log-uniform); the file stays small. Each case runs in "
        "a forked worker under RLIMIT_AS/RLIMIT_CPU: extractor + get_full_text + iterate_units. Oracle: CPU <= 5 s + 100 us x U and peak-RSS growth <= 64 MiB + 512 x U (U = uncompressed input "
        "size, for archives the archive itself plus admitted members), and the worker is not killed. (B) Limits: read_file(max_file_size=L) on files of L-1, L, L+1 bytes and L=0, incl. a sparse "
        "file just above the 100 MB default; 7z archives of exactly 100 MB - 1 / 100 MB / 100 MB + 1; members of L-1, L, L+1 bytes in ZIP/TAR/TAR.GZ/7z for configured limits L and for the "
        "default 10 MiB (entries may share a name, tar links may point at oversize members), with spies on ZipFile.read (delivered size), TarFile.extractfile and SevenZipReader._decompress_folder and a listing of the temp directory. "
        "Non-trivial = m >= 1000 with U <= 1 MiB, or a size within 1 byte of a limit; distinct by case digest.")
ASSUMPTIONS = ["thresholds are the ones fixed in DESIGN.md (64 MiB + 512 x U; CPU 5 s + 100 us x U, relaxed from the 20 us of the design so that linear-cost inputs with a large constant pass): observed legitimate cost is 10-40 MiB and < 1 s for these inputs, violations are 10x-1000x above",
               "the per-member limit is ArchiveConfig.max_memory_size (default 10 MiB), the value the size filters of all three archive readers compare with",
               "a 7z member that shares a solid folder with a wanted member has to be decompressed with it; only folders without any wanted member must stay untouched"]

MIB = 1024 * 1024


def bounds(u: int) -> tuple[float, float]:
    return 5.0 + 100e-6 * u, 64 * MIB + 512 * u


def admitted_u(name: str, m: int, variant, raw: bytes, u: int) -> int:
    if name in ("7z-ratio", "tar-ratio", "zip-member-size"):
        big = m * MIB
        return len(raw) + (big if big <= 10 * MIB else 0) + 64
    return u


def judge_amp(name: str, m: int, variant):
    raw, ext, u = amplify.build(name, m, variant)
    u = admitted_u(name, m, variant, raw, u)
    cpu_b, rss_b = bounds(u)
    res = measured(extract_all, raw, ext, cpu_limit_s=max(7, int(cpu_b * 1.3)))
    fails = []
    if res.get("killed"):
        fails.append(("killed", f"worker killed by {res['killed']} (CPU limit {max(7, int(cpu_b * 1.3))} s, address space 3 GiB)"))
    else:
        if res["cpu"] > cpu_b:
            fails.append(("cpu", f"CPU {res['cpu']:.1f} s > bound {cpu_b:.1f} s"))
        if res["rss_kib"] * 1024 > rss_b:
            fails.append(("memory", f"peak RSS grew {res['rss_kib'] / 1024:.0f} MiB > bound {rss_b / MIB:.0f} MiB"))
        out = res["out"]
        if out[0] == "raised" and out[1] != "MemoryError":
            fails.append(("raised", f"{out[1]}: {out[2]}"))
        elif out[0] == "raised" and not any(c == "memory" for c, _ in fails):
            fails.append(("memory", "MemoryError under the 3 GiB address-space limit"))
    info = {"family": name, "variant": str(variant), "m": m, "file_bytes": len(raw), "U": u, "cpu_s": round(res["cpu"], 2), "rss_mib": round(res["rss_kib"] / 1024, 1),
            "outcome": str(res.get("killed") or res["out"])[:120]}
    return fails, info, u


def eval_amp(ctx: Ctx, case, part: Partial | None):
    name, variant, m = case["family"], case["variant"], case["m"]
    f = amplify.FAMILIES[name]
    assert variant in f["variants"] and isinstance(m, int) and 1 <= m <= max(f["ms"])
    out = []
    open_sigs = ctx.open_signatures()
    sig0 = f"C12:{name}:{variant}:cost"
    if sig0 in open_sigs and part is not None and m > _known_m(open_sigs[sig0]):
        # excluded by construction: beyond the magnitude at which the listed finding already fails, every case costs the full CPU/memory cap
        part.hist["excluded: above the magnitude of a known finding"] += 1
        return out
    fails, info, u = judge_amp(name, m, variant)
    if part is not None:
        part.case(digest(case), m >= 1000 and u <= MIB, sample=info if (part.evaluations % 9 == 0 or fails) else None, family=name, outcome="over" if fails else "within")
    for c, d in fails[:1]:
        sig = f"C12:{name}:{variant}:cost"
        if sig in open_sigs:
            if part is not None:
                part.known_hits[open_sigs[sig]["id"]] += 1
            continue
        out.append(Violation(c, sig, f"{name}/{variant} m={m}: file {info['file_bytes']} B, U={u} B: {d}; {info['outcome']}", {"kind": "amp", "case": case}))
    return out


_KM: dict = {}


def _known_m(rec) -> int:
    import json
    if rec["id"] not in _KM:
        with open(os.path.join(os.path.dirname(os.path.dirname(os.path.dirname(os.path.abspath(__file__)))), rec["replay"])) as fh:
            _KM[rec["id"]] = json.load(fh)["case"]["m"]
    return _KM[rec["id"]]


def grid_cases():
    cases = []
    for name, f in amplify.FAMILIES.items():
        for v in f["variants"]:
            for m in f["ms"]:
                cases.append({"family": name, "variant": v, "m": m})
    return cases


def amp_grid_shard(ctx: Ctx):
    part = Partial()
    cases = grid_cases()
    for i, c in enumerate(cases):
        if i % ctx.nshards != ctx.shard:
            continue
        part.violations += eval_amp(ctx, c, part)
    return part


def amp_random_shard(ctx: Ctx):
    part = Partial()
    fams = sorted(amplify.FAMILIES)

    @st.composite
    def case(draw):
        name = draw(st.sampled_from(fams))
        f = amplify.FAMILIES[name]
        v = draw(st.sampled_from(list(f["variants"])))
        hi = max(f["ms"])
        e = draw(st.floats(0, math.log10(hi)))
        m = max(1, min(hi, int(round(10 ** e))))
        return {"family": name, "variant": v, "m": m}

    n = ctx.n(160, 4000) // ctx.nshards + 1
    hyp_search(ctx, "amp", case(), lambda c: eval_amp(ctx, c, part), n, part, model_shrink=False, shrink_budget_s=30)
    return part


# ---------------------------------------------------------------------------------------------------------------
# (B) explicit limits
# ---------------------------------------------------------------------------------------------------------------
def _outcome(gen_fn):
    from sharepoint2text.parsing.exceptions import ExtractionError, ExtractionFileTooLargeError
    try:
        res = list(gen_fn())
        return "ok", res
    except ExtractionFileTooLargeError as e:
        return "too-large", e
    except ExtractionError as e:
        return "extraction-error:" + type(e).__name__, e
    except Exception as e:  # noqa
        return "other:" + type(e).__name__, e


def judge_read_file(limit: int, size: int, ext: str, sparse: bool = False):
    import sharepoint2text
    d = tempfile.mkdtemp(prefix="vf-c12-")
    try:
        p = os.path.join(d, "case." + ext)
        with open(p, "wb") as f:
            if sparse:
                f.truncate(size)
            else:
                f.write((b"line of text\n" * (size // 13 + 1))[:size])
        got, val = _outcome(lambda: sharepoint2text.read_file(p, max_file_size=limit)) if limit is not None else _outcome(lambda: sharepoint2text.read_file(p))
        eff = 100 * MIB if limit is None else limit
        want_refuse = eff > 0 and size > eff
        fails = []
        if want_refuse and got != "too-large":
            fails.append(("limit-not-enforced", f"read_file(max_file_size={limit}) on a {size}-byte .{ext} file: outcome {got}, expected ExtractionFileTooLargeError"))
        if not want_refuse and got == "too-large":
            fails.append(("limit-too-strict", f"read_file(max_file_size={limit}) on a {size}-byte .{ext} file raised ExtractionFileTooLargeError"))
        if want_refuse and got == "too-large" and (getattr(val, "max_size", None) != eff or getattr(val, "actual_size", None) != size):
            fails.append(("limit-report", f"ExtractionFileTooLargeError reports max_size={getattr(val, 'max_size', None)} actual_size={getattr(val, 'actual_size', None)} for limit {eff} size {size}"))
        return fails
    finally:
        shutil.rmtree(d, ignore_errors=True)


class Spy:
    """Records which members are read/decompressed and what lands in the temp dir."""

    def __init__(self):
        self.events: list[tuple] = []

    def __enter__(self):
        from sharepoint2text.parsing.extractors.util import sevenzip
        self._zr, self._zo, self._tx = zipfile.ZipFile.read, zipfile.ZipFile.open, tarfile.TarFile.extractfile
        self._sd, self._sw = sevenzip.SevenZipReader._decompress_folder, sevenzip.SevenZipReader._extract_files_from_folder
        spy = self

        def zread(zs, name, *a, **k):
            data = spy._zr(zs, name, *a, **k)
            spy.events.append(("zip-read", getattr(name, "filename", name), len(data)))       # the entry a name resolves to need not be the entry that was size-checked
            return data

        def textract(ts, member):
            size = getattr(member, "size", 0)
            try:
                if hasattr(member, "islnk") and (member.islnk() or member.issym()):
                    size = ts._find_link_target(member).size          # what reading through the link will deliver
            except Exception:  # noqa
                pass
            spy.events.append(("tar-extractfile", getattr(member, "name", member), size))
            return spy._tx(ts, member)

        def sdecomp(rs, folder, *a, **k):
            data = spy._sd(rs, folder, *a, **k)
            spy.events.append(("7z-decompress", len(data)))
            return data

        zipfile.ZipFile.read = zread
        tarfile.TarFile.extractfile = textract
        sevenzip.SevenZipReader._decompress_folder = sdecomp
        self._mk = tempfile.mkdtemp
        self._orig_cleanup = tempfile.TemporaryDirectory.cleanup

        def cleanup(tds, *a, **k):
            try:
                for root, _, files in os.walk(tds.name):
                    for fn in files:
                        fp = os.path.join(root, fn)
                        spy.events.append(("temp-file", os.path.relpath(fp, tds.name), os.path.getsize(fp)))
            except Exception:  # noqa
                pass
            return spy._orig_cleanup(tds, *a, **k)

        tempfile.TemporaryDirectory.cleanup = cleanup
        return self

    def __exit__(self, *exc):
        from sharepoint2text.parsing.extractors.util import sevenzip
        zipfile.ZipFile.read, tarfile.TarFile.extractfile = self._zr, self._tx
        sevenzip.SevenZipReader._decompress_folder = self._sd
        tempfile.TemporaryDirectory.cleanup = self._orig_cleanup
        return False


def build_archive(fmt: str, sizes: list[int], names: list[str] | None = None, layout: str = "per-file", links: list | None = None) -> bytes:
    names = names or [f"m{i}.txt" for i in range(len(sizes))]
    datas = [(b"line %d of text\n" % i * (s // 10 + 2))[:s] for i, s in enumerate(sizes)]
    buf = io.BytesIO()
    if fmt == "zip":
        with zipfile.ZipFile(buf, "w", zipfile.ZIP_DEFLATED) as z:
            for n, d in zip(names, datas):
                z.writestr(n, d)
    elif fmt in ("tar", "tar.gz"):
        with tarfile.open(fileobj=buf, mode="w:gz" if fmt == "tar.gz" else "w") as tf:
            for n, d in zip(names, datas):
                ti = tarfile.TarInfo(n)
                ti.size = len(d)
                tf.addfile(ti, io.BytesIO(d))
            for li, (target, hard) in enumerate(links or []):
                # a link entry with a visible, supported name pointing at member `target` (its own header size is 0)
                ti = tarfile.TarInfo(f"link{li}.txt")
                ti.type = tarfile.LNKTYPE if hard else tarfile.SYMTYPE
                ti.linkname = names[target % len(names)]
                tf.addfile(ti)
    else:
        from vf.gen import sevenz
        return sevenz.write_7z([sevenz.Member(n, d) for n, d in zip(names, datas)], method="lzma2" if max(sizes) > 4096 else "copy", layout=layout)
    return buf.getvalue()


def judge_member_limit(fmt: str, limit: int | None, sizes: list[int], layout: str = "per-file", links: list | None = None, same_name: list | None = None):
    """limit None = default (10 MiB). Members are text files m<i>.txt of the given sizes; same_name[i] = j gives entry i the name of entry j (zip/tar: an updated archive)."""
    from sharepoint2text.parsing.extractors import archive_extractor as ax
    from sharepoint2text.parsing.extractors.archive_extractor import read_archive
    mnames = [f"m{i}.txt" for i in range(len(sizes))]
    if same_name and fmt != "7z":
        mnames = [mnames[same_name[i] % len(sizes)] if i < len(same_name) and same_name[i] is not None else n for i, n in enumerate(mnames)]
    dup = len(set(mnames)) < len(mnames)
    raw = build_archive(fmt, sizes, names=mnames, layout=layout, links=links if fmt.startswith("tar") else None)
    eff = 10 * MIB if limit is None else limit
    saved = ax._config
    fails = []
    try:
        if limit is not None:
            ax.configure_archive_extraction(max_memory_size=limit)
        with Spy() as spy:
            got, val = _outcome(lambda: read_archive(io.BytesIO(raw), "case." + fmt))
    finally:
        ax._config = saved
    if got != "ok":
        return [("archive-failed", f"{fmt} sizes={sizes} limit={eff}: outcome {got} ({val})")]
    names = {}
    for r in val:
        md = r.get_metadata()
        fn = getattr(md, "filename", "") or ""
        names[os.path.basename(fn.split("!/")[-1])] = len(r.get_full_text())
    big_zip = [e for e in spy.events if e[0] == "zip-read" and len(e) > 2 and e[2] > eff]
    if big_zip:
        fails.append(("oversize-read", f"{fmt}: reading {big_zip[0][1]!r} delivered {big_zip[0][2]} bytes (limit {eff}); names={mnames} sizes={sizes}"))
    if dup:
        ok_n = sum(1 for s in sizes if s <= eff)
        if len(val) > ok_n:
            fails.append(("limit-not-enforced", f"{fmt}: {len(val)} results for {ok_n} members within the limit {eff}; names={mnames} sizes={sizes}"))
    for i, s in enumerate(sizes if not dup else []):
        n = mnames[i]
        over = s > eff
        if over and n in names:
            fails.append(("limit-not-enforced", f"{fmt}: member {n} of {s} bytes (limit {eff}) produced a result"))
        if not over and n not in names:
            fails.append(("limit-too-strict", f"{fmt}: member {n} of {s} bytes (limit {eff}) produced no result; results={sorted(names)}"))
        if over:
            if any(e[0] == "zip-read" and e[1] == n for e in spy.events) or any(e[0] == "tar-extractfile" and e[1] == n for e in spy.events):
                fails.append(("oversize-read", f"{fmt}: oversize member {n} ({s} > {eff}) was read: {spy.events[:6]}"))
            if any(e[0] == "temp-file" and e[1] == n for e in spy.events):
                fails.append(("oversize-written", f"{fmt}: oversize member {n} ({s} > {eff}) was written to the temp directory"))
    big_reads = [e for e in spy.events if e[0] == "tar-extractfile" and len(e) > 2 and e[2] > eff]
    if big_reads:
        fails.append(("oversize-read", f"{fmt}: {big_reads[0][1]!r} was read although it delivers {big_reads[0][2]} bytes (limit {eff}); links={links}"))
    if fmt == "7z" and layout == "per-file":
        wanted = sum(1 for s in sizes if 0 < s <= eff)
        dec = [e for e in spy.events if e[0] == "7z-decompress"]
        if len(dec) > wanted:
            fails.append(("oversize-read", f"7z: {len(dec)} folders decompressed ({[e[1] for e in dec]}) but only {wanted} members are within the limit {eff}; sizes={sizes}"))
    return fails


def sevenz_of_size(total: int) -> bytes:
    """A valid 7z archive (one small text member, one stored filler) of exactly `total` bytes."""
    from vf.gen import sevenz
    x = total - 200
    for _ in range(6):
        raw = sevenz.write_7z([sevenz.Member("small.txt", b"text ZB00001 in a big archive"), sevenz.Member("filler.bin", bytes(x))], method="copy", layout="per-file")
        if len(raw) == total:
            return raw
        x += total - len(raw)
    raise RuntimeError("could not hit the archive size")


LIMIT_7Z = 100 * 1024 * 1024        # "a 7z archive above 100 MB is refused": the number of the property (and of the README), not whatever the module constant says today


def _judge_7z_size(delta: int):
    from sharepoint2text.parsing.extractors.archive_extractor import read_archive
    MAX_7Z_FILE_SIZE = LIMIT_7Z
    raw = sevenz_of_size(MAX_7Z_FILE_SIZE + delta)
    with Spy() as spy:
        got, val = _outcome(lambda: read_archive(io.BytesIO(raw), "case.7z"))
    if delta > 0:
        ok = got == "too-large" and not spy.events
        return [] if ok else [("limit-not-enforced", f"7z of {len(raw)} bytes (limit {MAX_7Z_FILE_SIZE}): outcome {got}, events {spy.events[:4]}")]
    if got != "ok" or len(val) != 1:
        return [("limit-too-strict", f"7z of {len(raw)} bytes (limit {MAX_7Z_FILE_SIZE}): outcome {got} {str(val)[:200]}")]
    return []


def limits_fixed(ctx: Ctx):
    """Deterministic limit cases, each in a measured fork (big buffers stay out of the harness process)."""
    part = Partial()

    def record(label, fails, payload, nontrivial=True):
        part.case(digest(payload), nontrivial, sample={"case": label, "violations": len(fails)}, limit=payload["kind"])
        for c, d in fails[:1]:
            part.violations.append(Violation(c, f"C12:{payload['kind']}:{c}", d, payload))

    tasks = []
    for delta in (-1, 0, 1):
        tasks.append((f"7z archive of 100 MB {delta:+d}", _judge_7z_size, (delta,), {"kind": "7z-size", "delta": delta}))
    for fmt in ("zip", "tar", "tar.gz", "7z"):
        for delta in (-1, 0, 1):
            tasks.append((f"{fmt} member of 10 MiB {delta:+d}", judge_member_limit, (fmt, None, [100, 10 * MIB + delta, 50]), {"kind": "member-limit", "fmt": fmt, "limit": None, "sizes": [100, 10 * MIB + delta, 50], "layout": "per-file"}))
    for fmt in ("zip", "tar"):
        tasks.append((f"{fmt}: small member, then an oversize member of the same name", judge_member_limit, (fmt, None, [11, 10 * MIB + 1, 50], "per-file", None, [None, 0, None]),
                      {"kind": "member-limit", "fmt": fmt, "limit": None, "sizes": [11, 10 * MIB + 1, 50], "layout": "per-file", "same_name": [None, 0, None]}))
    tasks.append(("read_file default limit, sparse file of 100 MB + 1", judge_read_file, (None, 100 * MIB + 1, "txt", True), {"kind": "read-file", "limit": None, "size": 100 * MIB + 1, "ext": "txt", "sparse": True}))
    tasks.append(("read_file limit 0 (disabled), sparse file of 100 MB + 1", judge_read_file, (0, 100 * MIB + 1, "txt", True), {"kind": "read-file", "limit": 0, "size": 100 * MIB + 1, "ext": "txt", "sparse": True}))
    mine = [t for i, t in enumerate(tasks) if i % ctx.nshards == ctx.shard]
    for label, fn, args, payload in mine:
        res = measured(fn, *args, cpu_limit_s=120)
        if res.get("killed") or res["out"][0] != "ok":
            fails = [("killed", f"{label}: worker {res.get('killed') or res['out']}")]
        else:
            fails = res["out"][1]
            if payload["kind"] == "read-file" and payload["limit"] is None and res["rss_kib"] > 32 * 1024:
                fails = fails + [("refused-after-read", f"{label}: refused, but peak RSS grew {res['rss_kib'] // 1024} MiB (the file was read before the size check)")]
        record(label, fails, payload)
    return part


def limits_grid_shard(ctx: Ctx):
    """Deterministic: every arrangement of three members with sizes from {0, L-1, L, L+1} (L = 64) in every archive kind and 7z layout, judged like the drawn cases.
    (An oversize member first and an empty one behind it, two oversize members around a small one, ... - arrangements the random part meets only now and then.)"""
    import itertools
    part = Partial()
    L = 64
    kinds = [("zip", "per-file"), ("tar", "per-file"), ("tar.gz", "per-file"), ("7z", "per-file"), ("7z", "solid"), ("7z", "mixed")]
    combos = [(f, lay, sizes) for f, lay in kinds for sizes in itertools.product([0, L - 1, L, L + 1], repeat=3)]
    mine = [c for i, c in enumerate(combos) if i % ctx.nshards == ctx.shard]
    for f, lay, sizes in mine:
        c = {"kind": "member-limit", "fmt": f, "limit": L, "sizes": list(sizes), "layout": lay, "links": [], "same_name": None}
        fails = judge_member_limit(f, L, list(sizes), lay, [], None)
        part.case(digest(c), True, sample=c if part.evaluations % 97 == 0 else None, limit="member-limit-grid", fmt=f)
        for cl, d in fails[:1]:
            if len(part.violations) < 3:
                part.violations.append(Violation(cl, f"C12:member-limit:{cl}", d, dict(c)))
    part.exhaustive["member sizes {0, L-1, L, L+1}^3 x archive kind x 7z layout"] = len(combos)
    return part


def limits_random_shard(ctx: Ctx):
    part = Partial()

    @st.composite
    def case(draw):
        kind = draw(st.sampled_from(["read-file", "member-limit", "member-limit"]))
        L = draw(st.one_of(st.integers(1, 40), st.integers(41, 5000), st.sampled_from([1, 2, 255, 256, 4096, 65536])))
        around = lambda: max(0, L + draw(st.sampled_from([-1, 0, 1, -1, 0, 1, -7, 9, 1000])))  # noqa
        if kind == "read-file":
            return {"kind": kind, "limit": draw(st.sampled_from([L, L, L, 0])), "size": around(), "ext": draw(st.sampled_from(["txt", "md", "csv", "json", "html"])), "sparse": False}
        n = draw(st.integers(1, 4))
        return {"kind": kind, "fmt": draw(st.sampled_from(["zip", "tar", "tar.gz", "7z"])), "limit": L, "sizes": [around() for _ in range(n)],
                "layout": draw(st.sampled_from(["per-file", "per-file", "solid", "mixed"])), "links": draw(st.lists(st.tuples(st.integers(0, 3), st.booleans()).map(list), max_size=2)),
                "same_name": draw(st.one_of(st.none(), st.none(), st.lists(st.one_of(st.none(), st.integers(0, 3)), min_size=n, max_size=n)))}

    def ev(c):
        out = []
        if c["kind"] == "read-file":
            fails = judge_read_file(c["limit"], c["size"], c["ext"], c.get("sparse", False))
            near = c["limit"] > 0 and abs(c["size"] - c["limit"]) <= 1
        else:
            fails = judge_member_limit(c["fmt"], c["limit"], c["sizes"], c.get("layout", "per-file"), c.get("links"), c.get("same_name"))
            near = any(abs(s - c["limit"]) <= 1 for s in c["sizes"])
        part.case(digest(c), near, sample=c if part.evaluations % 61 == 0 else None, limit=c["kind"], fmt=c.get("fmt", c.get("ext")))
        for cl, d in fails[:1]:
            out.append(Violation(cl, f"C12:{c['kind']}:{cl}", d, dict(c)))
        return out

    n = ctx.n(1600, 60000) // ctx.nshards + 1
    hyp_search(ctx, "limits", case(), ev, n, part)
    return part


def run(ctx: Ctx) -> Partial:
    part = Partial()
    part.merge(shard_map(ctx, "vf.props.c12", "limits_fixed", 14))
    part.merge(shard_map(ctx, "vf.props.c12", "limits_random_shard", 8))
    part.merge(shard_map(ctx, "vf.props.c12", "limits_grid_shard", 8))
    part.merge(shard_map(ctx, "vf.props.c12", "amp_grid_shard", 75))
    part.merge(shard_map(ctx, "vf.props.c12", "amp_random_shard", 32))
    part.exhaustive["amplifier grid (family x variant x magnitude)"] = len(grid_cases())
    return part


def replay(ctx: Ctx, payload: dict):
    k = payload.get("kind")
    if k == "amp":
        return eval_amp(ctx, payload["case"], None)
    if k == "read-file":
        fails = judge_read_file(payload["limit"], payload["size"], payload["ext"], payload.get("sparse", False))
    elif k == "member-limit":
        fails = judge_member_limit(payload["fmt"], payload["limit"], payload["sizes"], payload.get("layout", "per-file"), payload.get("links"), payload.get("same_name"))
    elif k == "7z-size":
        res = measured(_judge_7z_size, payload["delta"], cpu_limit_s=120)
        fails = res["out"][1] if res["out"][0] == "ok" else [("killed", str(res))]
    else:
        raise ValueError(k)
    return [Violation(c, f"C12:{k}:{c}", d, payload) for c, d in fails[:1]]
