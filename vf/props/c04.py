"""C04 — Every result honours the common interface, for any input."""
from __future__ import annotations

import base64
import io
import json
import os
import tempfile

from hypothesis import strategies as st

from vf.gen import mutate
from vf.runner import Ctx, Partial, Violation, digest, hyp_search, shard_map

RULE = ("results of every extractor over (i) generated documents / spreadsheets / image documents of all formats with document properties drawn from a Unicode text strategy (BMP, "
        "astral, XML-special characters), (ii) every repository fixture, (iii) mutated-but-accepted inputs (byte and container-aware mutations after which extraction still succeeds), "
        "each with a drawn path argument (None, relative, absolute existing, absolute non-existent, unicode, multi-dot, hidden, archive!/member). A battery runs on the result and on every "
        "unit, image and table reachable from it: text accessors return UTF-8-encodable str, unit and image numbers are ints >= 1, get_bytes() is a binary stream at position 0 whose "
        "length equals the reported size, get_dim() equals the shape of get_table(), caption/description/content type are str, file metadata equals an independent derivation from "
        "the path (all None for None, whatever was extracted before), no accessor raises (RTF / PPT / XLS / DOC text fields holding arbitrary UTF-16 code units, zero or non-length picture sizes included), and every stored document property the metadata type has a field for is reported unchanged. Non-trivial = result with >=1 "
        "unit and (an image or table or a non-ASCII property or a non-None path), or an accepted mutant; distinct by digest.")
ASSUMPTIONS = ["property values have no leading/trailing whitespace, control characters or newlines", "path arguments contain no '..' segments or trailing separators"]

META_FIELDS = {
    "docx": {"title": "title", "author": "author", "subject": "subject", "keywords": "keywords", "description": "comments"},
    "pptx": {"title": "title", "author": "author", "subject": "subject", "keywords": "keywords", "description": "comments"},
    "xlsx": {"title": "title", "author": "creator", "keywords": "keywords", "description": "description"},
    "odt": {"title": "title", "author": "creator", "subject": "subject", "keywords": "keywords", "description": "description"},
    "odp": {"title": "title", "author": "creator", "subject": "subject", "keywords": "keywords", "description": "description"},
    "ods": {"title": "title", "author": "creator", "subject": "subject", "keywords": "keywords", "description": "description"},
    "odg": {"title": "title", "author": "creator", "subject": "subject", "keywords": "keywords", "description": "description"},
    "epub": {"title": "title", "author": "creator", "subject": "subject", "description": "description"},
    "html": {"title": "title", "author": "author", "keywords": "keywords", "description": "description"},
    "mhtml": {"title": "title", "author": "author", "keywords": "keywords", "description": "description"},
    "rtf": {"title": "title", "author": "author", "subject": "subject", "keywords": "keywords", "description": "doc_comment"},
    "xls": {"title": "title", "author": "author", "subject": "subject"},
    "ppt": {"title": "title", "author": "author", "subject": "subject", "keywords": "keywords", "description": "comments"},
    "doc": {"title": "title", "author": "author", "subject": "subject", "keywords": "keywords"},
}

_PROP_ALPHABET = st.sampled_from(list("abcXYZ 019-_.,;:!?()[]'\"<>&%#@/\\+=*") + ["é", "ü", "ß", "Ω", "ж", "中", "日", "€", "™", "—", "😀", "𝔘", " "[0:0] or "ñ"])
_PROP_BODY = st.text(alphabet=_PROP_ALPHABET, min_size=1, max_size=24).map(lambda s: s.strip()).filter(lambda s: len(s) > 0)
# values that begin or end with characters a tidy-up step might strip (timestamp 'Z', digits, dots, quotes, brackets)
# values that look like markup escapes: a reader that decodes once more than the file encodes changes them
_PROP_ESC = st.sampled_from(["R&amp;D team", "a &lt; b &gt; c", "&nbsp;x", "&#65;&#x42;", "100&percnt;", "\\u0041 \\'e9", "%41%20b", "=?utf-8?q?x?=", "&amp;amp;"])
PROP_TEXT = st.one_of(_PROP_BODY, _PROP_BODY, _PROP_ESC, st.tuples(st.sampled_from(["", "Z", "T", "0", "(", "'", ".", "-"]), _PROP_BODY, st.sampled_from(["Z", "z", "0", ".", ")", "'", ":", "T00:00:00Z", "-"])).map(lambda t: "".join(t)))


# render options only this check adds to the profile options: a first table row merged into one cell (ragged stored rows; get_dim() must still equal the shape of get_table())
EXTRA_OPTS = {"odt": {"span_first_cell": [False, True]}, "odp": {"span_first_cell": [False, True]}}

def props_strategy():
    return st.fixed_dictionaries({}, optional={k: PROP_TEXT for k in ("title", "author", "subject", "keywords", "description")})


PATH_FORMS = ["none", "relative", "abs-missing", "existing", "unicode", "multi-dot", "hidden", "archive-member", "spaces", "missing-in-existing-dir", "relative-existing-dir", "symlink"]


def make_path(form: str, ext: str, tmpdir: str, data: bytes):
    if form == "none":
        return None
    if form == "relative":
        return f"some/dir/file.{ext}"
    if form == "abs-missing":
        return f"/nonexistent-vf/dir/file.{ext}"
    if form == "existing":
        p = os.path.join(tmpdir, f"real file.{ext}")
        with open(p, "wb") as fh:
            fh.write(data[:64])
        return p
    if form == "missing-in-existing-dir":       # the folder exists (and is resolved), the file does not
        return os.path.join(tmpdir, f"no such file.{ext}")
    if form == "relative-existing-dir":         # relative to the working directory of the check (the harness directory)
        return f"vf/gen/no_such_file.{ext}"
    if form == "symlink":                       # the path names a link in one folder to a file in another
        os.makedirs(os.path.join(tmpdir, "store"), exist_ok=True)
        os.makedirs(os.path.join(tmpdir, "inbox"), exist_ok=True)
        target = os.path.join(tmpdir, "store", f"stored.{ext}")
        with open(target, "wb") as fh:
            fh.write(data[:64])
        link = os.path.join(tmpdir, "inbox", f"link.{ext}")
        if not os.path.lexists(link):
            os.symlink(target, link)
        return link
    if form == "unicode":
        return f"Ünï/文書/résumé ≈.{ext}"
    if form == "multi-dot":
        return f"rel/v1.2.final.tar.{ext}"
    if form == "hidden":
        return f"/nonexistent-vf/.hidden.{ext}"
    if form == "archive-member":
        return f"/data/archive.zip!/inner/member.{ext}"
    if form == "spaces":
        return f"a b/c d .{ext}"
    raise ValueError(form)


def expected_file_meta(path):
    if path is None:
        return {"filename": None, "file_extension": None, "file_path": None, "folder_path": None}
    base = os.path.basename(path)
    stem = base.lstrip(".")
    ext = "." + stem.rsplit(".", 1)[1] if "." in stem else ""
    d = os.path.dirname(path)
    fp = os.path.realpath(path) if os.path.exists(path) else path
    folder = os.path.realpath(d or ".") if os.path.exists(d or ".") else d
    return {"filename": base, "file_extension": ext, "file_path": os.path.normpath(fp), "folder_path": os.path.normpath(folder) if folder else "."}


def _utf8(s, what, fails):
    if not isinstance(s, str):
        fails.append(("text-type", f"{what} returned {type(s).__name__}, not str"))
        return
    try:
        s.encode("utf-8")
    except UnicodeEncodeError as e:
        fails.append(("utf8", f"{what} is not well-formed Unicode: {e.reason} at {e.start} ({s[max(0, e.start - 5):e.start + 5]!r})"))


def battery(r, path, props, fmt):
    fails = []

    def guard(what, fn):
        try:
            return fn()
        except Exception as e:  # noqa
            fails.append(("accessor-raises", f"{what}: {type(e).__name__}: {e}"))
            return None
    text = guard("get_full_text()", r.get_full_text)
    if text is not None:
        _utf8(text, "get_full_text()", fails)
    units = guard("iterate_units()", lambda: list(r.iterate_units())) or []
    for ui, u in enumerate(units):
        t = guard(f"unit[{ui}].get_text()", u.get_text)
        if t is not None:
            _utf8(t, f"unit[{ui}].get_text()", fails)
        m = guard(f"unit[{ui}].get_metadata()", u.get_metadata)
        n = getattr(m, "unit_number", None) if m is not None else None
        if m is not None and (not isinstance(n, int) or isinstance(n, bool) or n < 1):
            fails.append(("unit-number", f"unit[{ui}] has unit_number {n!r}"))
        guard(f"unit[{ui}].to_json()", lambda u=u: json.dumps(u.to_json(), default=repr))
        for img in guard(f"unit[{ui}].get_images()", u.get_images) or []:
            _image_battery(img, f"unit[{ui}] image", fails, guard)
        for tb in guard(f"unit[{ui}].get_tables()", u.get_tables) or []:
            _table_battery(tb, f"unit[{ui}] table", fails, guard)
    for ii, img in enumerate(guard("iterate_images()", lambda: list(r.iterate_images())) or []):
        _image_battery(img, f"image[{ii}]", fails, guard)
    for ti, tb in enumerate(guard("iterate_tables()", lambda: list(r.iterate_tables())) or []):
        _table_battery(tb, f"table[{ti}]", fails, guard)
    meta = guard("get_metadata()", r.get_metadata)
    if meta is not None:
        want = expected_file_meta(path)
        got = {k: getattr(meta, k, "<missing>") for k in want}
        norm = lambda v: os.path.normpath(v) if isinstance(v, str) and v else v  # noqa
        for k in want:
            g, w = got[k], want[k]
            if k in ("file_path", "folder_path"):
                g, w = norm(g), norm(w)
            if g != w:
                fails.append(("file-metadata", f"metadata.{k} = {got[k]!r}, expected {want[k]!r} for path {path!r}"))
        for pk, field in META_FIELDS.get(fmt, {}).items():
            if props and props.get(pk) is not None:
                val = getattr(meta, field, "<missing>")
                if val != props[pk]:
                    fails.append(("document-property", f"{pk} stored as {props[pk]!r} but metadata.{field} = {val!r}"))
                else:
                    _utf8(val, f"metadata.{field}", fails)
    return fails, len(units)


def _image_battery(img, what, fails, guard):
    b = guard(f"{what}.get_bytes()", img.get_bytes)
    if b is not None:
        if not hasattr(b, "read") or not hasattr(b, "tell"):
            fails.append(("image-stream", f"{what}.get_bytes() returned {type(b).__name__}"))
        else:
            pos = b.tell()
            raw = b.read()
            if pos != 0:
                fails.append(("image-stream", f"{what}.get_bytes() is positioned at {pos}"))
            if not isinstance(raw, bytes):
                fails.append(("image-stream", f"{what}.get_bytes().read() returned {type(raw).__name__}"))
            size = getattr(img, "size_bytes", None)
            if isinstance(size, int) and isinstance(raw, bytes) and size != len(raw):
                fails.append(("image-size", f"{what} reports size_bytes={size} but the stream holds {len(raw)} bytes"))
    for name in ("get_content_type", "get_caption", "get_description"):
        v = guard(f"{what}.{name}()", getattr(img, name))
        if v is not None and not isinstance(v, str):
            fails.append(("text-type", f"{what}.{name}() returned {type(v).__name__}"))
        elif isinstance(v, str):
            _utf8(v, f"{what}.{name}()", fails)
    m = guard(f"{what}.get_metadata()", img.get_metadata)
    if m is not None:
        n = m.image_number
        if not isinstance(n, int) or isinstance(n, bool) or n < 1:
            fails.append(("image-number", f"{what} has image_number {n!r}"))
        un = m.unit_number
        if un is not None and (not isinstance(un, int) or isinstance(un, bool) or un < 1):
            fails.append(("unit-number", f"{what} has unit_number {un!r}"))


def _table_battery(tb, what, fails, guard):
    g = guard(f"{what}.get_table()", tb.get_table)
    d = guard(f"{what}.get_dim()", tb.get_dim)
    if g is not None and d is not None:
        shape = (len(g), max((len(r) for r in g), default=0))
        if (d.rows, d.columns) != shape:
            fails.append(("table-dim", f"{what}.get_dim() = {(d.rows, d.columns)} but get_table() has shape {shape}"))


# ---- cases ---------------------------------------------------------------------------------------------------------------------
def _render(case):
    from vf.gen import sheets
    from vf.gen.profiles import PROFILES
    from vf.props import c14
    kind = case["kind"]
    if kind == "doc":
        fmt = case["format"]
        doc = dict(case["doc"], props=case.get("props") or {})
        kw = {"opts": case["opts"]} if case.get("opts") else {}
        if (case.get("opts") or {}).get("no_meta") or (case.get("opts") or {}).get("no_core"):
            doc["props"] = {}         # a package without meta.xml / docProps/core.xml has no document properties
        return fmt, PROFILES[fmt]["ext"], PROFILES[fmt]["render"](doc, **kw)
    if kind == "grid":
        fmt = case["format"]
        grid = dict(case["grid"], props=case.get("props") or {})
        fn = {"xlsx": sheets.render_xlsx, "ods": sheets.render_ods, "xls": sheets.render_xls}[fmt]
        return fmt, fmt, fn(grid, opts=case.get("opts") or None)
    if kind == "images":
        fmt = case["case"]["format"]
        return fmt, (PROFILES[fmt]["ext"] if fmt in PROFILES else fmt), c14.build(case["case"])[0]
    if kind == "bytes":
        return case["format"], case["ext"], base64.b64decode(case["bytes_b64"])
    raise ValueError(kind)


def judge(case):
    from sharepoint2text.parsing.exceptions import ExtractionError
    from sharepoint2text.parsing.router import get_extractor
    fmt, ext, data = _render(case)
    if case.get("mutation"):
        data = mutate.apply(data, case["mutation"])
    with tempfile.TemporaryDirectory(prefix="vf-c04-") as td:
        path = make_path(case.get("path", "none"), ext, td, data)
        try:
            results = list(get_extractor("x." + ext)(io.BytesIO(data), path))
        except ExtractionError as e:
            if not case.get("mutation") and not case.get("may_reject"):
                cause = getattr(e, "__cause__", None)
                return [("valid-document-rejected", f"a well-formed generated document was rejected: {type(e).__name__}: {e} (cause: {type(cause).__name__}: {cause})")], "rejected", 0
            return [], "rejected", 0
        except Exception as e:  # noqa
            return [], f"other:{type(e).__name__}", 0  # C01's business
        fails, nunits = [], 0
        for r in results:
            props = {} if ((case.get("opts") or {}).get("no_meta") or (case.get("opts") or {}).get("no_core")) else case.get("props")
            f, n = battery(r, path, None if case.get("mutation") else props, fmt)
            fails += f
            nunits += n
    return fails, "ok", nunits


def features(case):
    f = set()
    if case.get("mutation"):
        f.add("mutant")
    p = case.get("props") or {}
    if any(ord(c) > 0xFFFF for v in p.values() for c in v):
        f.add("props.astral")
    if any(ord(c) > 127 for v in p.values() for c in v):
        f.add("props.non-ascii")
    if any(c in "<>&\"'" for v in p.values() for c in v):
        f.add("props.xml-special")
    if any(c in "\\{}" for v in p.values() for c in v):
        f.add("props.rtf-special")
    if p:
        f.add("props")
    f.add("path." + case.get("path", "none"))
    for k, v in (case.get("opts") or {}).items():
        if v not in (False, None):
            f.add(f"opt.{k}={v}")
    return f


def evaluate(ctx: Ctx, case, part: Partial | None = None):
    fmt = case.get("format") or case.get("case", {}).get("format")
    fails, outcome, nunits = judge(case)
    feats = features(case)
    if part is not None:
        nt = outcome == "ok" and nunits >= 1 and (bool(feats & {"mutant", "props.non-ascii"}) or case.get("path", "none") != "none" or case["kind"] in ("images", "grid"))
        part.case(digest(case), nt, sample={"kind": case["kind"], "format": fmt, "path": case.get("path"), "props": case.get("props"), "mutation": case.get("mutation")} if part.evaluations % 97 == 0 else None,
                  fmt=fmt, outcome=outcome.split(":")[0], mutant="mutant" in feats, path=case.get("path", "none"))
    if not fails:
        return []
    clauses = {c for c, _ in fails}
    known = [k for k in ctx.known if k.get("status") == "open" and k.get("format") in (fmt, None) and k.get("feature") in feats]
    if known and clauses <= set().union(*[set(k.get("clauses", [])) for k in known]):
        # attribution: the same case without the feature must pass
        ncase = dict(case)
        for k in known:
            if k["feature"].startswith("props"):
                bad = lambda c: (ord(c) > 0xFFFF if k["feature"] == "props.astral" else ord(c) > 127 if k["feature"] == "props.non-ascii" else c in "<>&\"'" if k["feature"] == "props.xml-special" else c in "\\{}")  # noqa
                ncase["props"] = {a: "".join(ch for ch in v if not bad(ch)) or "x" for a, v in (ncase.get("props") or {}).items()}
            elif k["feature"].startswith("path."):
                ncase["path"] = "none"
            elif k["feature"].startswith("opt."):
                key = k["feature"][4:].split("=")[0]
                ncase["opts"] = {a: b for a, b in (ncase.get("opts") or {}).items() if a != key}
        if not judge(ncase)[0]:
            if part is not None:
                for k in known:
                    part.known_hits[k["id"]] += 1
            return []
    c, d = fails[0]
    return [Violation(c, f"C04:{fmt}:{c}", f"[{fmt}] {d}; all failing clauses {sorted(clauses)}; features {sorted(feats)}", {"kind": "case", "format": fmt, "model": case})]


def _case_strategy(fmt_kind):
    from vf.gen import model, sheets
    from vf.gen.profiles import PROFILES
    from vf.props import c14
    kind, fmt = fmt_kind
    path = st.sampled_from(PATH_FORMS)
    if kind == "doc":
        container = "zip" if PROFILES[fmt]["ext"] in ("docx", "pptx", "odt", "odp", "odg", "epub") else None
        optst = st.fixed_dictionaries({k: st.sampled_from(v) for k, v in {**PROFILES[fmt].get("opts", {}), **EXTRA_OPTS.get(fmt, {})}.items()})
        container = "ole" if fmt in ("ppt", "doc") else container
        base = st.fixed_dictionaries({"kind": st.just("doc"), "format": st.just(fmt), "doc": model.documents(PROFILES[fmt], max_blocks=3), "props": props_strategy(), "path": path, "opts": optst})
    elif kind == "grid":
        container = "zip" if fmt in ("xlsx", "ods") else "ole"
        optst = st.fixed_dictionaries({"codepage": st.sampled_from([65001, 65001, 1252, 1200])}) if fmt == "xls" else st.just({})
        base = st.fixed_dictionaries({"kind": st.just("grid"), "format": st.just(fmt), "grid": sheets.grids(fmt, headers="any", max_sheets=2, max_r=4, max_c=3), "props": props_strategy(), "path": path, "opts": optst})
    else:
        container = "zip" if fmt not in ("pdf", "rtf") else None
        def degenerate(t):
            case, which = t
            if which and which.startswith("size:"):
                for u in case["units"]:
                    for it in u:
                        if it["k"] == "img":
                            it["odd_size"] = which[5:]
                            return case
            elif which:
                for u in case["units"]:
                    for it in u:
                        if it["k"] == "img" and it["type"] == "png":
                            it["zero"] = which
                            return case
            return case
        odd = ["size:auto", "size:cm", "size:.", "size: ", "size:50%", "size:-2cm", "size:1e3cm"] if fmt in ("odt", "odp", "ods", "odg") else []
        base = st.fixed_dictionaries({"kind": st.just("images"), "case": st.tuples(c14.cases(fmt), st.sampled_from([None, None, "h", "w", "both"] + odd)).map(degenerate), "path": path})
    mutated = st.tuples(base, mutate.recipes(container, fmt)).map(lambda t: dict(t[0], mutation=t[1], props={}))
    return base, mutated


def fixed_cases(kind: str, fmt: str) -> list:
    """Deterministic part: every combination of the renderer's options (all of them when there are at most 64, otherwise one option at a time) on one small document with
    non-ASCII properties and a path; every degenerate picture header / frame size once per format.  What the random search finds only with luck is here by construction."""
    import itertools
    from vf.gen.profiles import PROFILES
    from vf.gen.tokens import make
    from vf.props import c14
    out = []
    if kind == "doc":
        opts = {k: list(dict.fromkeys(map(lambda v: v, vs))) for k, vs in {**PROFILES[fmt].get("opts", {}), **EXTRA_OPTS.get(fmt, {})}.items()}
        keys = sorted(opts)
        combos = list(itertools.product(*[opts[k] for k in keys])) if keys else [()]
        if len(combos) > 64:
            default = tuple(opts[k][0] for k in keys)
            combos = [default] + [default[:i] + (v,) + default[i + 1:] for i, k in enumerate(keys) for v in opts[k][1:]]
        blocks = [{"k": "p", "inl": [{"k": "t", "tok": make("B", 5100), "sty": 0}], "h": None}, {"k": "p", "inl": [{"k": "t", "tok": make("B", 5101), "sty": 0}], "h": None}]
        doc = {"units": [{"name": None, "blocks": blocks, "notes": None}], "header": None, "footer": None, "comments": []}
        props = {"title": "Caf\u00e9 \u00dcbersicht \u2013 Pr\u00e9cis \u20ac", "author": "Zo\u00eb \u00dcnal", "subject": "\u00df and \u00f1", "keywords": "\u00e9t\u00e9; \u00fcber", "description": "na\u00efve r\u00e9sum\u00e9"}
        for i, combo in enumerate(combos):
            out.append({"kind": "doc", "format": fmt, "doc": doc, "props": props, "path": PATH_FORMS[1 + i % (len(PATH_FORMS) - 1)], "opts": dict(zip(keys, combo))})
    elif kind == "images":
        odd = ["auto", "cm", ".", " ", "50%", "-2cm", "1e3cm"] if fmt in ("odt", "odp", "ods", "odg") else []
        types = c14.FORMATS_IMG[fmt]["types"]
        variants = ([{"zero": z} for z in ("h", "w", "both")] if "png" in types else []) + [{"odd_size": o} for o in odd]
        for v in variants:
            img = dict({"k": "img", "type": "png" if "png" in types else types[0], "w": 9, "h": 7, "seed": 3}, **v)
            out.append({"kind": "images", "path": "relative", "case": {"format": fmt, "opts": {}, "units": [[{"k": "p", "tok": make("B", 5110)}, img, {"k": "p", "tok": make("B", 5111)}]]}})
    return out


def shard(ctx: Ctx, kind: str, fmt: str):
    part = Partial()
    fixed = fixed_cases(kind, fmt)
    for c in fixed:
        part.violations += evaluate(ctx, c, part)
    if fixed:
        part.exhaustive[f"{kind}/{fmt}: renderer option combinations and degenerate picture sizes"] = len(fixed)
    base, mutated = _case_strategy((kind, fmt))
    n = ctx.n(60, 1200)
    hyp_search(ctx, f"c04-{kind}-{fmt}", base, lambda c: evaluate(ctx, c, part), n, part, model_shrink=False)
    hyp_search(ctx, f"c04-mut-{kind}-{fmt}", mutated, lambda c: evaluate(ctx, c, part), n, part, model_shrink=False)
    return part


def fixtures(ctx: Ctx, part: Partial):
    import glob
    from vf.runner import REPO
    from sharepoint2text.parsing.exceptions import ExtractionError
    from sharepoint2text.parsing.router import get_extractor
    root = os.path.join(REPO, "sharepoint2text/tests/resources")
    for path in sorted(glob.glob(root + "/**/*", recursive=True)):
        if not os.path.isfile(path) or os.path.getsize(path) == 0 or "password_protected" in path or "/archives/" in path:
            continue  # archive members carry member paths: judged by C10
        rel = os.path.relpath(path, root)
        try:
            data = open(path, "rb").read()
            for parg in (path, None):
                results = list(get_extractor(path)(io.BytesIO(data), parg))
                for r in results:
                    fails, n = battery(r, parg, None, "fixture")
                    part.case(digest(["fixture", rel, parg is None]), True, fixture=True)
                    for c, d in fails[:1]:
                        sig = f"C04:fixture:{rel}:{c}"
                        known = [k for k in ctx.known if k.get("status") == "open" and k.get("signature") == sig]
                        if known:
                            part.known_hits[known[0]["id"]] += 1
                        elif not any(v.signature == sig for v in part.violations):
                            part.violations.append(Violation(c, sig, f"[fixture {rel}] {d}", {"kind": "fixture", "path": rel}))
        except ExtractionError:
            continue


def _targets():
    from vf.gen.profiles import PROFILES
    from vf.props import c14
    t = [("doc", f) for f in sorted(PROFILES)] + [("grid", f) for f in ("xlsx", "ods", "xls")] + [("images", f) for f in sorted(c14.FORMATS_IMG)]
    sel = os.environ.get("VF_FORMATS")
    return [x for x in t if not sel or x[1] in sel.split(",")]


UNITS = [0x41, 0x20, 0xE9, 0x4E2D, 0x20AC, 0xD83D, 0xDE00, 0xDC3C, 0xD800, 0xDBFF, 0xDFFF, 0xFFFF, 0xFFFE, 0x7F, 0x80, 0xA0]


def _rtf_units(parts: dict) -> bytes:
    def esc(units):
        return "".join(chr(u) if 0x20 <= u < 0x7F and chr(u) not in "\\{}" else f"\\u{u - 65536 if u > 32767 else u}?" for u in units)
    return ("{\\rtf1\\ansi\\ansicpg1252\\uc1\\deff0{\\fonttbl{\\f0 Arial;}}{\\info{\\title T" + esc(parts["title"]) + "}{\\author A" + esc(parts["author"]) + "}}\n"
            "\\pard body " + esc(parts["body"]) + " end\\par\n\\trowd\\cellx2000\\cellx4000 c" + esc(parts["cell"]) + "\\cell d\\cell\\row\\pard after\\par}").encode("ascii")


def rtf_units_shard(ctx: Ctx):
    """RTF \\uN escapes are UTF-16 code units: any sequence of them (pairs, lone halves, reversed pairs, non-characters) in body, table cell and \\info must come out as encodable text."""
    part = Partial()
    seq = st.lists(st.sampled_from(UNITS), max_size=5)
    strat = st.fixed_dictionaries({"title": seq, "author": seq, "body": seq, "cell": seq})

    def ev(parts):
        case = {"kind": "bytes", "format": "rtf", "ext": "rtf", "bytes_b64": base64.b64encode(_rtf_units(parts)).decode(), "path": "none"}
        return evaluate(ctx, case, part)

    hyp_search(ctx, "c04-rtf-units", strat, ev, ctx.n(600, 20000), part, model_shrink=False)
    return part


def _legacy_units(fmt: str, parts: dict) -> bytes:
    """Legacy binary documents whose UTF-16 text fields hold arbitrary code units (lone halves, reversed pairs, non-characters)."""
    from vf.gen import biff8, docbin, pptbin
    t = {k: "".join(chr(u) for u in v) for k, v in parts.items()}
    if fmt == "ppt":
        return pptbin.write_ppt([{"title": "T" + t["title"], "body": ["body " + t["body"] + " end"], "other": ["o" + t["cell"]], "notes": ["n" + t["author"]]}, {"title": None, "body": ["second"], "other": [], "notes": []}])
    if fmt == "xls":
        return biff8.write_xls([{"name": "S1", "rows": [["colA", "colB"], ["c" + t["cell"], "b" + t["body"]], ["t" + t["title"], 4]]}])
    from vf.gen.legacy import FILLER
    return docbin.write_doc([FILLER, "body " + t["body"] + " end", "T" + t["title"], "c" + t["cell"], FILLER])


def legacy_units_shard(ctx: Ctx):
    """The text fields of .ppt / .xls / .doc are UTF-16 code units too: whatever they hold, every accessor returns encodable text and nothing raises."""
    part = Partial()
    seq = st.lists(st.sampled_from(UNITS), max_size=5)
    strat = st.tuples(st.sampled_from(["ppt", "xls", "doc"]), st.fixed_dictionaries({"title": seq, "author": seq, "body": seq, "cell": seq}))

    def ev(t):
        fmt, parts = t
        # ill-formed UTF-16 may be refused as a whole (an ExtractionError); what is returned must honour the interface
        case = {"kind": "bytes", "format": fmt, "ext": fmt, "bytes_b64": base64.b64encode(_legacy_units(fmt, parts)).decode(), "path": "none", "may_reject": True}
        return evaluate(ctx, case, part)

    hyp_search(ctx, "c04-legacy-units", strat, ev, ctx.n(300, 10000), part, model_shrink=False)
    return part


def run(ctx: Ctx) -> Partial:
    part = Partial()
    fixtures(ctx, part)
    part.merge(shard_map(ctx, "vf.props.c04", "rtf_units_shard", 1))
    part.merge(shard_map(ctx, "vf.props.c04", "legacy_units_shard", 2))
    t = _targets()
    part.merge(shard_map(ctx, "vf.props.c04", "shard", len(t), extra_per_shard=[list(x) for x in t]))
    return part


def replay(ctx: Ctx, payload: dict):
    if payload.get("kind") == "fixture":
        p = Partial()
        fixtures(ctx, p)
        return [v for v in p.violations if v.replay.get("path") == payload["path"]]
    return evaluate(ctx, payload["model"])
