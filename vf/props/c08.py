"""C08 — Encrypted input is rejected as encrypted, plain input never is."""
from __future__ import annotations

import contextlib
import hashlib
import io
import os
import pickle
import shutil
import struct
import tempfile
import zipfile

from hypothesis import strategies as st

from vf.gen import tokens as tk
from vf.runner import REPO, Ctx, Partial, Violation, digest, hyp_search, shard_map

RULE = ("Pairs of plain and encrypted/flagged inputs per mechanism, built by the harness' own writers from JSON models: OOXML packages wrapped in OLE2 with "
        "EncryptionInfo/EncryptedPackage (+\\x06DataSpaces) vs OLE2 files with look-alike stream names and legacy files routed to the OOXML extractors; ODF packages whose "
        "manifest marks members with encryption-data (three namespace spellings, any subset of members) vs manifests that only contain the trigger words in file names, "
        "media types and comments; PDFs written by pdfw and encrypted with RC4-40/RC4-128/AES-128/AES-256-R5/AES-256 with empty and non-empty user passwords (written and "
        "read in fresh forked processes); BIFF8 workbooks with FILEPASS at every record position of the globals substream vs workbooks full of 0x2F bytes; DOC with the FIB "
        "fEncrypted bit vs every other FIB flag bit; PPT with the encrypted header token/CryptSession10 with and without EncryptedSummary; ZIP archives with general-purpose "
        "bit 0 forged on one member (any position) vs other flag bits / unsupported compression methods / comments; 7z with a 7zAES coder on file folders and/or on the encoded "
        "header (both coder orders) vs plain copy/LZMA/LZMA2; EPUB with encryption.xml EncryptedData and/or rights.xml vs look-alike files elsewhere; all 81 fixtures "
        "(11 protected). Oracle: encrypted => ExtractionFileEncryptedError with zero results before it, via the registered extractor, read_file and the CLI (exit 1, empty "
        "stdout); plain => never ExtractionFileEncryptedError; PDF with empty user password => serialised result equals that of the unencrypted original. "
        "Non-trivial = plain side carries a trigger look-alike, or the marker is not at its conventional place/spelling, or a PDF with the empty password; distinct by model digest.")
ASSUMPTIONS = ["an EPUB whose encryption.xml only lists font obfuscation is not judged (the property does not say whether obfuscated fonts count as encryption)",
               "OLE2 files that have only a \\x06DataSpaces storage, or a PPT that has an EncryptedSummary stream without the encrypted header token, are not generated: "
               "whether they are 'encrypted' is undefined",
               "an encrypted document inside a plain archive is a per-member failure (C01/C10), not judged here",
               "marker documents: the payload behind an encryption marker is pseudo-random or left in clear; detection must not depend on it"]

FIX = os.path.join(REPO, "sharepoint2text", "tests", "resources")
T = tk.make  # token factory


def _rand(n: int, seed) -> bytes:
    out = b""
    i = 0
    while len(out) < n:
        out += hashlib.sha256(f"vf-c08-{seed}-{i}".encode()).digest()
        i += 1
    return out[:n]


# ---------------------------------------------------------------------------------------------------------------
# fresh process helper
# ---------------------------------------------------------------------------------------------------------------
def in_fresh_fork(fn, *args):
    """Run fn(*args) in a forked child (so process-global state of pypdf starts as in this process) and return its result."""
    r, w = os.pipe()
    pid = os.fork()
    if pid == 0:
        code = 0
        try:
            os.close(r)
            try:
                res = ("ok", fn(*args))
            except BaseException as e:  # noqa
                import traceback
                res = ("err", f"{type(e).__name__}: {e}\n{traceback.format_exc()}")
            with os.fdopen(w, "wb") as f:
                pickle.dump(res, f)
        except BaseException:  # noqa
            code = 3
        finally:
            os._exit(code)
    os.close(w)
    with os.fdopen(r, "rb") as f:
        data = f.read()
    os.waitpid(pid, 0)
    if not data:
        raise RuntimeError("forked worker died without a result")
    status, payload = pickle.loads(data)
    if status == "err":
        raise RuntimeError("forked worker failed: " + payload)
    return payload


# ---------------------------------------------------------------------------------------------------------------
# observation through the three entry points
# ---------------------------------------------------------------------------------------------------------------
def _consume(gen):
    from sharepoint2text.parsing.exceptions import ExtractionFileEncryptedError
    n = 0
    try:
        for r in gen:
            n += 1
        return ("ok", n, "")
    except ExtractionFileEncryptedError as e:
        return ("encrypted", n, str(e))
    except Exception as e:  # noqa
        return ("other:" + type(e).__name__, n, str(e)[:200])


def observe_direct(raw: bytes, ext: str):
    from sharepoint2text.parsing.router import get_extractor
    path = "case." + ext
    try:
        gen = get_extractor(path)(io.BytesIO(raw), path)
    except Exception as e:  # noqa
        return ("other:" + type(e).__name__, 0, str(e)[:200])
    return _consume(gen)


def observe_read_file(raw: bytes, ext: str, scratch: str):
    import sharepoint2text
    p = os.path.join(scratch, "case." + ext)
    with open(p, "wb") as f:
        f.write(raw)
    try:
        gen = sharepoint2text.read_file(p)
    except Exception as e:  # noqa
        from sharepoint2text.parsing.exceptions import ExtractionFileEncryptedError
        return ("encrypted" if isinstance(e, ExtractionFileEncryptedError) else "other:" + type(e).__name__, 0, str(e)[:200])
    return _consume(gen)


def observe_cli(raw: bytes, ext: str, scratch: str):
    from sharepoint2text import cli
    p = os.path.join(scratch, "case." + ext)
    with open(p, "wb") as f:
        f.write(raw)
    out, err = io.StringIO(), io.StringIO()
    with contextlib.redirect_stdout(out), contextlib.redirect_stderr(err):
        try:
            code = cli.main([p])
        except SystemExit as e:
            code = e.code
    return code, out.getvalue(), err.getvalue()


def judge_bytes(raw: bytes, ext: str, truth: str, entries=("direct", "read_file", "cli")):
    """truth: 'encrypted' | 'plain'. -> list of (clause, detail)"""
    fails = []
    scratch = None
    try:
        for entry in entries:
            if entry == "direct":
                got, n, msg = observe_direct(raw, ext)
            elif entry == "read_file":
                scratch = scratch or tempfile.mkdtemp(prefix="vf-c08-")
                got, n, msg = observe_read_file(raw, ext, scratch)
            else:
                if truth != "encrypted":
                    continue
                scratch = scratch or tempfile.mkdtemp(prefix="vf-c08-")
                code, out, err = observe_cli(raw, ext, scratch)
                if code != 1 or out != "":
                    fails.append(("encrypted-not-rejected", f"[cli .{ext}] exit={code} stdout={out[:80]!r} stderr={err[:120]!r}"))
                continue
            if truth == "encrypted":
                if got != "encrypted":
                    fails.append(("encrypted-not-rejected", f"[{entry} .{ext}] outcome {got} ({msg}) after {n} result(s); expected ExtractionFileEncryptedError"))
                elif n:
                    fails.append(("yield-before-error", f"[{entry} .{ext}] {n} result(s) were yielded before ExtractionFileEncryptedError"))
            else:
                if got == "encrypted":
                    fails.append(("plain-rejected", f"[{entry} .{ext}] unencrypted input rejected with ExtractionFileEncryptedError ({msg}) after {n} result(s)"))
            if fails:
                break
    finally:
        if scratch:
            shutil.rmtree(scratch, ignore_errors=True)
    return fails


# ---------------------------------------------------------------------------------------------------------------
# builders: model -> (bytes, ext, truth, nontrivial)
# ---------------------------------------------------------------------------------------------------------------
def _fixture(rel: str) -> bytes:
    with open(os.path.join(FIX, rel), "rb") as f:
        return f.read()


OOXML_BASES = {"docx": ["modern_ms/headings.docx", "modern_ms/sample_with_comment_and_table.docx"], "docm": ["modern_ms/sample.docm"],
               "pptx": ["modern_ms/pptx_table.pptx"], "pptm": ["modern_ms/sample.pptm"],
               "xlsx": ["modern_ms/mwe.xlsx", "modern_ms/empty_row_columns.xlsx"], "xlsm": ["modern_ms/sample.xlsm"]}
LEGACY_FOR = {"docx": "legacy_ms/headings.doc", "docm": "legacy_ms/headings.doc", "pptx": "legacy_ms/slide_with_notes.ppt", "pptm": "legacy_ms/slide_with_notes.ppt",
              "xlsx": "legacy_ms/mwe.xls", "xlsm": "legacy_ms/mwe.xls"}
ENC_STREAMS = ["EncryptionInfo", "EncryptedPackage"]
OLE_DECOYS = ["EncryptionInfoX", "XEncryptedPackage", "Encryption Info", "Encrypted", "DataSpaces2", "Package", "\x05SummaryInformation", "EncryptedPackageInfo"]


def build_ooxml(m):
    from vf.gen import ole2
    ext = m["ext"]
    base = _fixture(OOXML_BASES[ext][m["base"] % len(OOXML_BASES[ext])])
    enc = [s for s in m["streams"] if s in ENC_STREAMS]
    decoys = [s for s in m["streams"] if s in OLE_DECOYS]
    if m["container"] == "zip":
        return base, ext, "plain", False
    if m["container"] == "legacy":          # a real legacy file handed to the OOXML extractor
        return _fixture(LEGACY_FOR[ext]), ext, "plain", True
    streams: dict[str, bytes] = {}
    for s in decoys:
        streams[s] = base if s == "Package" else _rand(96 + 7 * len(s), s)
    for s in enc:
        if s == "EncryptedPackage":
            streams[s] = struct.pack("<Q", len(base)) + _rand(len(base) + (-len(base) % 16), m.get("seed", 0))[: 4096 + len(base) % 4096]
        else:
            # [MS-OFFCRYPTO] agile EncryptionInfo: version 4.4, flags 0x40, XML descriptor
            streams[s] = struct.pack("<HHI", 4, 4, 0x40) + b'<?xml version="1.0" encoding="UTF-8" standalone="yes"?><encryption xmlns="http://schemas.microsoft.com/office/2006/encryption"><keyData saltSize="16" blockSize="16" keyBits="256" hashSize="64" cipherAlgorithm="AES" cipherChaining="ChainingModeCBC" hashAlgorithm="SHA512"/></encryption>'
    if enc and m.get("dataspaces"):
        streams["\x06DataSpaces/Version"] = _rand(76, "v")
        streams["\x06DataSpaces/DataSpaceMap"] = _rand(112, "m")
        streams["\x06DataSpaces/DataSpaceInfo/StrongEncryptionDataSpace"] = _rand(64, "i")
        streams["\x06DataSpaces/TransformInfo/StrongEncryptionTransform/\x06Primary"] = _rand(200, "p")
    if not streams:
        streams["Contents"] = _rand(300, "c")
    raw = ole2.write_cfb(streams)
    truth = "encrypted" if enc else "plain"
    nontrivial = (truth == "plain") or len(enc) == 1 or not m.get("dataspaces")
    return raw, ext, truth, nontrivial


ODF_BASES = {"odt": ["open_office/headings.odt", "open_office/apache_oo/aoo_document.odt"], "ods": ["open_office/sample_spreadsheet.ods", "open_office/apache_oo/aoo_spreadsheet.ods"],
             "odp": ["open_office/slide_with_notes.odp", "open_office/apache_oo/aoo_presentation.odp"], "odg": ["open_office/drawing.odg", "open_office/apache_oo/aoo_drawing.odg"],
             "odf": ["open_office/formular.odf", "open_office/apache_oo/aoo_formular.odf"]}
ODF_MIME = {"odt": "application/vnd.oasis.opendocument.text", "ods": "application/vnd.oasis.opendocument.spreadsheet", "odp": "application/vnd.oasis.opendocument.presentation",
            "odg": "application/vnd.oasis.opendocument.graphics", "odf": "application/vnd.oasis.opendocument.formula"}
MNS = "urn:oasis:names:tc:opendocument:xmlns:manifest:1.0"
ODF_DECOYS = ["picture-name", "dir-entry", "comment-encrypted", "comment-algorithm", "media-type", "benign-picture", "config-name"]


def build_odf(m):
    ext = m["ext"]
    base = _fixture(ODF_BASES[ext][m["base"] % len(ODF_BASES[ext])])
    zin = zipfile.ZipFile(io.BytesIO(base))
    names = [n for n in zin.namelist() if n not in ("mimetype", "META-INF/manifest.xml") and not n.endswith("/")]
    xml_members = [n for n in names if n.endswith(".xml")]
    marked = sorted({xml_members[i % len(xml_members)] for i in m["enc"]}) if xml_members else []
    if m["enc"] and m.get("content_always", True) and "content.xml" in names and "content.xml" not in marked:
        marked.append("content.xml")
    pfx = m["prefix"]          # "manifest" | "m" | ""
    ep = (pfx + ":") if pfx else ""
    ap = pfx if pfx else "manifest"
    root_attrs = (f'xmlns:{pfx}="{MNS}"' if pfx else f'xmlns="{MNS}" xmlns:manifest="{MNS}"')
    parts = [f'<?xml version="1.0" encoding="UTF-8"?>\n<{ep}manifest {root_attrs} {ap}:version="1.2">',
             f'<{ep}file-entry {ap}:full-path="/" {ap}:version="1.2" {ap}:media-type="{ODF_MIME[ext]}"/>']
    extra_files: dict[str, bytes] = {}
    for d in m["decoys"]:
        if d == "picture-name":
            extra_files["Pictures/encryption-data.png"] = _png()
        elif d == "benign-picture":
            extra_files["Pictures/img0001.png"] = _png()
        elif d == "config-name":
            extra_files["Configurations2/manifest:algorithm.xml"] = b"<x/>"
    for n in names + list(extra_files):
        mt = "text/xml" if n.endswith(".xml") else ("image/png" if n.endswith(".png") else "")
        if n in marked:
            iv = _rand(16, n).hex()
            parts.append(f'<{ep}file-entry {ap}:full-path="{n}" {ap}:media-type="{mt}" {ap}:size="{zin.getinfo(n).file_size}">'
                         f'<{ep}encryption-data {ap}:checksum-type="urn:oasis:names:tc:opendocument:xmlns:manifest:1.0#sha256-1k" {ap}:checksum="{_rand(32, n + "c").hex()}">'
                         f'<{ep}algorithm {ap}:algorithm-name="http://www.w3.org/2001/04/xmlenc#aes256-cbc" {ap}:initialisation-vector="{iv}"/>'
                         f'<{ep}key-derivation {ap}:key-derivation-name="PBKDF2" {ap}:key-size="32" {ap}:iteration-count="100000" {ap}:salt="{_rand(16, n + "s").hex()}"/>'
                         f'<{ep}start-key-generation {ap}:start-key-generation-name="http://www.w3.org/2000/09/xmldsig#sha256" {ap}:key-size="32"/>'
                         f'</{ep}encryption-data></{ep}file-entry>')
        else:
            parts.append(f'<{ep}file-entry {ap}:full-path="{n}" {ap}:media-type="{mt}"/>')
    for d in m["decoys"]:
        if d == "dir-entry":
            parts.append(f'<{ep}file-entry {ap}:full-path="encryption-data/" {ap}:media-type=""/>')
        elif d == "comment-encrypted":
            parts.append('<!-- manifest:encrypted="false" -->')
        elif d == "comment-algorithm":
            parts.append('<!-- no manifest:algorithm in this package -->')
        elif d == "media-type":
            parts.append(f'<{ep}file-entry {ap}:full-path="extra/notes.bin" {ap}:media-type="application/x-encryption-data"/>')
            extra_files["extra/notes.bin"] = b"notes"
    parts.append(f"</{ep}manifest>")
    buf = io.BytesIO()
    with zipfile.ZipFile(buf, "w") as z:
        z.writestr(zipfile.ZipInfo("mimetype"), ODF_MIME[ext], compress_type=zipfile.ZIP_STORED)
        for n in names:
            data = zin.read(n)
            if n in marked:
                data = _rand(min(len(data), 2048) + 16, n)       # ciphertext
                z.writestr(zipfile.ZipInfo(n), data, compress_type=zipfile.ZIP_STORED)
            else:
                z.writestr(zipfile.ZipInfo(n), data, compress_type=zipfile.ZIP_DEFLATED)
        for n, data in extra_files.items():
            z.writestr(zipfile.ZipInfo(n), data, compress_type=zipfile.ZIP_STORED)
        enc = m.get("encoding", "utf-8")      # any encoding an XML parser must accept: UTF-8 (with or without BOM) or UTF-16 with BOM
        mtext = "".join(parts).replace('encoding="UTF-8"', f'encoding="{"UTF-16" if enc == "utf-16" else "UTF-8"}"', 1)
        z.writestr(zipfile.ZipInfo("META-INF/manifest.xml"), mtext.encode(enc), compress_type=zipfile.ZIP_DEFLATED)
    truth = "encrypted" if marked else "plain"
    trig = any(d not in ("benign-picture",) for d in m["decoys"])
    nontrivial = (truth == "plain" and trig) or (truth == "encrypted" and (pfx != "manifest" or "content.xml" not in marked or m.get("encoding", "utf-8") != "utf-8"))
    return buf.getvalue(), ext, truth, nontrivial


def _png() -> bytes:
    from vf.gen import imgenc
    return imgenc.png(2, 2) if hasattr(imgenc, "png") else b"\x89PNG\r\n\x1a\n"


def build_xls(m):
    from vf.gen import biff8, ole2
    sheets = [{"name": s["name"], "rows": s["rows"]} for s in m["sheets"]]
    wb = biff8.workbook_stream(sheets, filepass_at=m["filepass_at"])
    streams = {m["stream"]: wb}
    for d in m["decoys"]:
        streams[d] = biff8.filepass_record() * 3 if d == "Workbook2" else _rand(80, d)
    raw = ole2.write_cfb(streams, root_clsid=biff8.CLSID_XLS)
    truth = "encrypted" if m["filepass_at"] is not None else "plain"
    has_2f = any(isinstance(v, str) and "/" in v or v == 47 for s in sheets for r in s["rows"] for v in r)
    nontrivial = (truth == "encrypted" and m["filepass_at"] > 0) or (truth == "plain" and (has_2f or bool(m["decoys"])))
    return raw, "xls", truth, nontrivial


DOC_BASES = ["legacy_ms/headings.doc", "legacy_ms/Speech_Prime_Minister_of_The_Netherlands_EN.doc"]


def build_doc(m):
    from vf.gen import docbin, ole2
    if m["base"] == "gen":
        word, table = docbin.word_streams(m["paragraphs"], encrypted=m["encrypted"])
        streams = {"WordDocument": word, "1Table": table}
        clsid = docbin.CLSID_DOC
    else:
        raw0 = _fixture(DOC_BASES[m["base"] % len(DOC_BASES)])
        streams = dict(ole2.read_cfb(raw0))
        clsid = getattr(docbin, "CLSID_DOC")
    w = bytearray(streams["WordDocument"])
    flags = struct.unpack_from("<H", w, 0x0A)[0]
    flags = (flags | m["extra_flags"]) & ~0x8100
    if m["encrypted"]:
        flags |= 0x0100 | (0x8000 if m.get("obfuscated") else 0)
        if struct.unpack_from("<I", w, 0x0E)[0] == 0:
            struct.pack_into("<I", w, 0x0E, 52 if not m.get("obfuscated") else 0x1234ABCD)
    struct.pack_into("<H", w, 0x0A, flags)
    if m.get("magic6"):
        struct.pack_into("<H", w, 0, 0xA5DC)        # the Word 6/95 FIB identifier, which the reader accepts as well
    streams["WordDocument"] = bytes(w)
    raw = ole2.write_cfb(streams, root_clsid=clsid)
    truth = "encrypted" if m["encrypted"] else "plain"
    nontrivial = bool(m["extra_flags"]) or bool(m.get("obfuscated")) or m["base"] != "gen" or bool(m.get("magic6"))
    return raw, "doc", truth, nontrivial


def build_ppt(m):
    from vf.gen import pptbin
    slides = [{"title": s[0], "body": [s[1]]} for s in m["slides"]]
    extra = {d: _rand(64, d) for d in m["decoys"]}
    raw = pptbin.write_ppt(slides, encrypted_marker=m["marker"], encrypted_summary=m["summary"], extra_streams=extra or None,
                           props={2: "VF deck"} if m.get("props") else None)
    truth = "encrypted" if m["marker"] else "plain"
    nontrivial = (truth == "encrypted" and not m["summary"]) or (truth == "plain" and bool(m["decoys"]))
    return raw, "ppt", truth, nontrivial


def _patch_zip(raw: bytes, patches: list[tuple[int, int, int | None]]) -> bytes:
    """patches: (member index, flag bits to OR in, compression method or None) applied to local and central headers."""
    b = bytearray(raw)
    infos = zipfile.ZipFile(io.BytesIO(raw)).infolist()
    # central directory records in order
    pos = []
    p = bytes(b).find(b"PK\x01\x02", infos[-1].header_offset if infos else 0)
    eocd = bytes(b).rfind(b"PK\x05\x06")
    cd_off = struct.unpack_from("<I", b, eocd + 16)[0]
    p = cd_off
    for _ in infos:
        assert b[p:p + 4] == b"PK\x01\x02"
        pos.append(p)
        n, e, c = struct.unpack_from("<HHH", b, p + 28)
        p += 46 + n + e + c
    for idx, flag, method in patches:
        lo = infos[idx].header_offset
        assert b[lo:lo + 4] == b"PK\x03\x04"
        f = struct.unpack_from("<H", b, lo + 6)[0] | flag
        struct.pack_into("<H", b, lo + 6, f)
        f = struct.unpack_from("<H", b, pos[idx] + 8)[0] | flag
        struct.pack_into("<H", b, pos[idx] + 8, f)
        if method is not None:
            struct.pack_into("<H", b, lo + 8, method)
            struct.pack_into("<H", b, pos[idx] + 10, method)
    return bytes(b)


def build_zip(m):
    buf = io.BytesIO()
    with zipfile.ZipFile(buf, "w") as z:
        for mem in m["members"]:
            zi = zipfile.ZipInfo(mem["name"])
            data = b"" if mem["name"].endswith("/") else (mem["text"].encode() if not mem.get("enc") else _rand(12, mem["name"]) + mem["text"].encode())
            z.writestr(zi, data, compress_type=zipfile.ZIP_DEFLATED if mem.get("deflate") and not mem["name"].endswith("/") else zipfile.ZIP_STORED)
        if m.get("comment"):
            z.comment = m["comment"].encode()
    patches = []
    for i, mem in enumerate(m["members"]):
        flag = (0x1 if mem.get("enc") else 0) | mem.get("flags", 0)
        if flag or mem.get("method") is not None:
            patches.append((i, flag, mem.get("method")))
    raw = _patch_zip(buf.getvalue(), patches) if patches else buf.getvalue()
    enc = [i for i, mem in enumerate(m["members"]) if mem.get("enc") and not mem["name"].endswith("/")]
    truth = "encrypted" if enc else "plain"
    decoy = any(mem.get("flags") or mem.get("method") is not None or "ncrypt" in mem["name"] for mem in m["members"]) or bool(m.get("comment"))
    nontrivial = (truth == "encrypted" and enc[0] > 0) or (truth == "plain" and decoy)
    return raw, "zip", truth, nontrivial


def build_7z(m):
    from vf.gen import sevenz
    members = [sevenz.Member(mem["name"], mem["text"].encode() if mem["text"] is not None else None, mem.get("dir", False)) for mem in m["members"]]
    raw = sevenz.write_7z(members, method=m["method"], layout=m["layout"], encode_header=m["encode_header"] or bool(m["aes_header"]),
                          aes_marker=m["aes_marker"], aes_header=m["aes_header"])
    has_stream = any(mem["text"] for mem in m["members"] if not mem.get("dir"))
    enc = (m["aes_marker"] and has_stream) or bool(m["aes_header"])
    truth = "encrypted" if enc else "plain"
    nontrivial = bool(m["aes_header"]) or (truth == "plain" and (m["encode_header"] or any("AES" in mem["name"] for mem in m["members"])))
    return raw, "7z", truth, nontrivial


XENC = "http://www.w3.org/2001/04/xmlenc#"
EPUB_DECOYS = ["empty-encryption-xml", "oebps-encryption-xml", "oebps-rights-xml", "rights-txt", "chapter-mentions"]


def build_epub(m):
    from vf.gen import wrappers
    chapters = [(f"ch{i}.xhtml", f'<?xml version="1.0" encoding="utf-8"?><html xmlns="http://www.w3.org/1999/xhtml"><head><title>c{i}</title></head><body><p>{t}'
                 + (" EncryptedData rights.xml encryption.xml" if "chapter-mentions" in m["decoys"] else "") + "</p></body></html>") for i, t in enumerate(m["chapters"])]
    extra: dict[str, str] = {}
    enc = m["enc"]        # None | "encdata" | "rights" | "both"

    def enc_xml(n_entries: int, prefixed: bool) -> str:
        e = "enc:" if prefixed else ""
        ns = f'xmlns:enc="{XENC}"' if prefixed else ""
        items = "".join(f'<{e}EncryptedData{"" if prefixed else f" xmlns=" + chr(34) + XENC + chr(34)}><{e}EncryptionMethod Algorithm="http://www.w3.org/2001/04/xmlenc#aes128-cbc"/>'
                        f'<{e}CipherData><{e}CipherReference URI="OEBPS/ch{i}.xhtml"/></{e}CipherData></{e}EncryptedData>' for i in range(n_entries))
        return f'<?xml version="1.0"?><encryption xmlns="urn:oasis:names:tc:opendocument:xmlns:container" {ns}>{items}</encryption>'

    if enc in ("encdata", "both"):
        extra["META-INF/encryption.xml"] = enc_xml(max(1, m.get("n_entries", 1)), m.get("prefixed", True))
    if enc in ("rights", "both"):
        extra["META-INF/rights.xml"] = '<?xml version="1.0"?><adept:rights xmlns:adept="http://ns.adobe.com/adept"><licenseToken><user>urn:uuid:0</user></licenseToken></adept:rights>'
    for d in m["decoys"]:
        if d == "empty-encryption-xml" and "META-INF/encryption.xml" not in extra:
            extra["META-INF/encryption.xml"] = enc_xml(0, True)
        elif d == "oebps-encryption-xml":
            extra["OEBPS/encryption.xml"] = enc_xml(1, True)
        elif d == "oebps-rights-xml":
            extra["OEBPS/rights.xml"] = "<rights/>"
        elif d == "rights-txt":
            extra["META-INF/rights.xml.txt"] = "all rights reserved"
    raw = wrappers.epub_bytes(chapters, extra_files=extra or None)
    truth = "encrypted" if enc else "plain"
    nontrivial = (truth == "plain" and bool(m["decoys"])) or (truth == "encrypted" and (enc == "rights" or not m.get("prefixed", True) or m.get("n_entries", 1) > 1))
    return raw, "epub", truth, nontrivial


CROSS = [("legacy_ms/headings.doc", "xls"), ("legacy_ms/headings.doc", "ppt"), ("legacy_ms/mwe.xls", "doc"), ("legacy_ms/mwe.xls", "ppt"), ("legacy_ms/slide_with_notes.ppt", "doc"),
         ("legacy_ms/slide_with_notes.ppt", "xls"), ("modern_ms/headings.docx", "odt"), ("open_office/headings.odt", "docx"), ("modern_ms/mwe.xlsx", "xls"),
         ("modern_ms/headings.docx", "doc"), ("modern_ms/pptx_table.pptx", "ppt"), ("epub/sample.epub", "zip"), ("modern_ms/headings.docx", "zip"), ("open_office/headings.odt", "epub"),
         ("mails/basic_email.msg", "doc"), ("mails/basic_email.msg", "xlsx"), ("pdf/sample.pdf", "docx"), ("archives/test_archive.7z", "zip"), ("archives/test_archive.zip", "7z")]


def build(m):
    k = m["mech"]
    if k == "ooxml":
        return build_ooxml(m)
    if k == "odf":
        return build_odf(m)
    if k == "xls":
        return build_xls(m)
    if k == "doc":
        return build_doc(m)
    if k == "ppt":
        return build_ppt(m)
    if k == "zip":
        return build_zip(m)
    if k == "7z":
        return build_7z(m)
    if k == "epub":
        return build_epub(m)
    if k == "fixture":
        rel = m["path"]
        ext = m.get("ext") or rel.rsplit(".", 1)[-1]
        if rel.endswith(".tar.gz"):
            ext = m.get("ext") or "tar.gz"
        return _fixture(rel), ext, "encrypted" if "password_protected" in rel else "plain", True
    raise ValueError(k)


# ---------------------------------------------------------------------------------------------------------------
# validation (the shrinker must not leave the domain)
# ---------------------------------------------------------------------------------------------------------------
def validate(m):
    k = m["mech"]
    if k == "ooxml":
        assert m["ext"] in OOXML_BASES and m["container"] in ("zip", "ole", "legacy")
        assert all(s in ENC_STREAMS + OLE_DECOYS for s in m["streams"]) and len(set(m["streams"])) == len(m["streams"])
    elif k == "odf":
        assert m["ext"] in ODF_BASES and m["prefix"] in ("manifest", "m", "") and all(d in ODF_DECOYS for d in m["decoys"])
        assert all(isinstance(i, int) and i >= 0 for i in m["enc"])
    elif k == "xls":
        assert m["stream"] in ("Workbook", "Book") and m["sheets"]
        n = 28 + len(m["sheets"]) + 1
        assert m["filepass_at"] is None or 0 <= m["filepass_at"] <= n
        names = [s["name"].lower() for s in m["sheets"]]
        assert len(set(names)) == len(names) and all(s["name"] for s in m["sheets"])
        assert all(d in ("Workbook2", "FILEPASS", "Ctls") for d in m["decoys"])
    elif k == "doc":
        assert m["base"] == "gen" or isinstance(m["base"], int)
        assert not m["extra_flags"] & 0x8100
        if m["base"] == "gen":
            assert m["paragraphs"] and all("\r" not in p for p in m["paragraphs"])
    elif k == "ppt":
        assert m["slides"] and all(len(s) == 2 for s in m["slides"])
        assert m["marker"] or m["summary"]      # an EncryptedSummary flag without the marker is simply ignored by the writer
        assert all(d in ("EncryptedSummaryX", "Encryption", "Pictures2") for d in m["decoys"])
    elif k == "zip":
        assert m["members"]
        names = [x["name"] for x in m["members"]]
        assert len(set(names)) == len(names)
        for x in m["members"]:
            assert not x.get("flags", 0) & ~0x080E
            assert x.get("method") in (None, 9, 10, 93, 98)
            assert not (x.get("enc") and x["name"].endswith("/"))
    elif k == "7z":
        assert m["members"] and m["method"] in ("copy", "lzma", "lzma2") and m["layout"] in ("solid", "per-file", "mixed")
        assert m["aes_header"] in (False, True, "7zip")
        names = [x["name"] for x in m["members"]]
        assert len(set(names)) == len(names)
    elif k == "epub":
        assert m["chapters"] and m["enc"] in (None, "encdata", "rights", "both") and all(d in EPUB_DECOYS for d in m["decoys"])
    elif k == "pdf":
        from vf.gen import pdfw
        assert m["alg"] in pdfw.ALGORITHMS and m["pages"] and all(p for p in m["pages"])
    elif k == "fixture":
        assert os.path.exists(os.path.join(FIX, m["path"]))
    else:
        raise AssertionError(k)


# ---------------------------------------------------------------------------------------------------------------
# strategies
# ---------------------------------------------------------------------------------------------------------------
def _tok():
    return st.integers(0, 36**5 - 1).map(lambda i: T("B", i))


def _cases():
    ooxml = st.fixed_dictionaries({"mech": st.just("ooxml"), "ext": st.sampled_from(sorted(OOXML_BASES)), "base": st.integers(0, 1),
                                   "container": st.sampled_from(["ole", "ole", "ole", "ole", "legacy", "zip"]),
                                   "streams": st.lists(st.sampled_from(ENC_STREAMS + OLE_DECOYS + OLE_DECOYS), unique=True, max_size=4),
                                   "dataspaces": st.booleans(), "seed": st.integers(0, 9)})
    odf = st.fixed_dictionaries({"mech": st.just("odf"), "ext": st.sampled_from(sorted(ODF_BASES)), "base": st.integers(0, 1),
                                 "enc": st.one_of(st.just([]), st.lists(st.integers(0, 5), min_size=1, max_size=3)), "content_always": st.booleans(),
                                 "prefix": st.sampled_from(["manifest", "manifest", "m", ""]), "decoys": st.lists(st.sampled_from(ODF_DECOYS), unique=True, max_size=3),
                                 "encoding": st.sampled_from(["utf-8", "utf-8", "utf-8", "utf-8-sig", "utf-16", "utf-16"])})
    cell = st.one_of(st.none(), _tok(), st.sampled_from(["/", "a/b", "//", 47, 47.0, 12079, 0.5, True]), st.integers(-5, 300))
    sheet = st.fixed_dictionaries({"name": st.sampled_from(["S1", "Data", "a b", "FILEPASS", "Sheet/2".replace("/", "-")]), "rows": st.lists(st.lists(cell, min_size=1, max_size=4), min_size=0, max_size=4)})
    xls = st.fixed_dictionaries({"mech": st.just("xls"), "sheets": st.lists(sheet, min_size=1, max_size=3, unique_by=lambda s: s["name"].lower()),
                                 "filepass_at": st.one_of(st.none(), st.integers(0, 29)), "stream": st.sampled_from(["Workbook", "Workbook", "Book"]),
                                 "decoys": st.lists(st.sampled_from(["Workbook2", "FILEPASS", "Ctls"]), unique=True, max_size=2)})
    bits = st.lists(st.sampled_from([0x0001, 0x0002, 0x0008, 0x0010, 0x0400, 0x0800, 0x2000, 0x4000]), unique=True, max_size=3).map(lambda b: sum(b))
    doc = st.fixed_dictionaries({"mech": st.just("doc"), "base": st.one_of(st.just("gen"), st.integers(0, 1)), "encrypted": st.booleans(), "obfuscated": st.booleans(), "magic6": st.sampled_from([False, False, True]),
                                 "extra_flags": bits, "paragraphs": st.lists(_tok().map(lambda t: f"paragraph {t} with enough text to be found by the reader, encrypted or not"), min_size=1, max_size=3)})
    ppt = st.fixed_dictionaries({"mech": st.just("ppt"), "slides": st.lists(st.tuples(_tok(), _tok()).map(list), min_size=1, max_size=3), "marker": st.booleans(), "summary": st.booleans(),
                                 "props": st.booleans(), "decoys": st.lists(st.sampled_from(["EncryptedSummaryX", "Encryption", "Pictures2"]), unique=True, max_size=2)}
                                ).map(lambda m: dict(m, summary=True) if not m["marker"] and not m["summary"] else m).map(lambda m: dict(m, summary=m["summary"] if m["marker"] else True))
    zname = st.sampled_from(["a.txt", "b.md", "dir/c.csv", "d.html", "e.json", "encrypted.txt", "sub/", ".hidden.txt", "pic.bin", "f.txt", "g/h.txt"])
    zmem = st.fixed_dictionaries({"name": zname, "text": _tok().map(lambda t: f"text {t}"), "enc": st.sampled_from([False, False, False, True]), "deflate": st.booleans(),
                                  "flags": st.sampled_from([0, 0, 0, 0x0800, 0x0002, 0x0006, 0x0008]), "method": st.sampled_from([None, None, None, None, None, 9, 10, 93, 98])}
                                 ).map(lambda x: dict(x, enc=False, method=None, flags=0) if x["name"].endswith("/") else x)
    zipc = st.fixed_dictionaries({"mech": st.just("zip"), "members": st.lists(zmem, min_size=1, max_size=5, unique_by=lambda x: x["name"]),
                                  "comment": st.sampled_from(["", "", "encrypted archive", "password: pw123"])})
    sname = st.sampled_from(["a.txt", "b.md", "dir/c.csv", "7zAES.txt", "06F10701.txt", "e.json", "empty.txt", "sub"])
    smem = st.fixed_dictionaries({"name": sname, "text": st.one_of(_tok().map(lambda t: f"text {t} \x06\xf1\x07\x01"), st.just(""))}
                                 ).map(lambda x: dict(x, text=None, dir=True) if x["name"] == "sub" else x)
    sz = st.fixed_dictionaries({"mech": st.just("7z"), "members": st.lists(smem, min_size=1, max_size=4, unique_by=lambda x: x["name"]), "method": st.sampled_from(["copy", "lzma", "lzma2"]),
                                "layout": st.sampled_from(["solid", "per-file", "mixed"]), "encode_header": st.booleans(), "aes_marker": st.booleans(),
                                "aes_header": st.sampled_from([False, False, False, True, "7zip"])})
    epub = st.fixed_dictionaries({"mech": st.just("epub"), "chapters": st.lists(_tok(), min_size=1, max_size=3), "enc": st.sampled_from([None, None, "encdata", "rights", "both"]),
                                  "n_entries": st.integers(1, 3), "prefixed": st.booleans(), "decoys": st.lists(st.sampled_from(EPUB_DECOYS), unique=True, max_size=2)})
    return st.one_of(ooxml, odf, odf, xls, doc, ppt, zipc, sz, epub)


def _pdf_cases():
    from vf.gen import pdfw
    line = _tok().map(lambda t: f"line {t} of text")
    page = st.lists(line, min_size=1, max_size=3)
    return st.fixed_dictionaries({"mech": st.just("pdf"), "alg": st.sampled_from(list(pdfw.ALGORITHMS)), "user_pw": st.sampled_from(["", "", "pw123", "äö secret"]),
                                  "owner_pw": st.sampled_from([None, None, "owner", "pw123", ""]), "pages": st.lists(page, min_size=1, max_size=3), "compress": st.booleans(),
                                  "image": st.booleans(), "title": st.one_of(st.none(), _tok()), "align16": st.booleans(),
                                  # split crypt filters (AES-128 only): streams in clear, strings encrypted
                                  "strings_only": st.sampled_from([False, False, True])})


# ---------------------------------------------------------------------------------------------------------------
# evaluation
# ---------------------------------------------------------------------------------------------------------------
def _mk_viol(m, fails):
    out = []
    for c, d in fails[:1]:
        sub = m["mech"] if m["mech"] != "fixture" else "fixture"
        out.append(Violation(c, f"C08:{sub}:{c}", f"{d}\n  model={str(m)[:700]}", {"kind": "model", "model": m}))
    return out


def evaluate(ctx: Ctx, m, part: Partial | None = None):
    validate(m)
    if m["mech"] == "pdf":
        return evaluate_pdf(ctx, m, part)
    raw, ext, truth, nontrivial = build(m)
    entries = ("direct", "read_file", "cli")
    fails = judge_bytes(raw, ext, truth, entries)
    if part is not None:
        part.case(digest(m), nontrivial, sample={"mech": m["mech"], "truth": truth, "ext": ext, "model": {k: v for k, v in m.items() if k not in ("paragraphs", "chapters", "slides", "sheets")}}
                  if part.evaluations % 97 == 0 else None, mech=m["mech"], truth=truth, ext=ext)
    return _mk_viol(m, fails)


def _pdf_build(m):
    from vf.gen import imgenc, pdfw
    pages = []
    for i, lines in enumerate(m["pages"]):
        pg = {"lines": lines}
        if m["image"] and i == 0:
            pg["images"] = [{"data": imgenc.jpeg(8, 8), "w": 8, "h": 8, "name": "Im1"}]
        pages.append(pg)
    plain = pdfw.write_pdf(pages, info={"Title": m["title"]} if m.get("title") else None, compress=m["compress"])
    if m.get("align16") and not m["compress"]:
        # make the first content stream a whole number of AES blocks (PKCS#7 then adds a full block of padding): pad the last line of page 1
        import re
        for k in range(16):
            pages[0]["lines"] = m["pages"][0][:-1] + [m["pages"][0][-1] + "x" * k]
            plain = pdfw.write_pdf(pages, info={"Title": m["title"]} if m.get("title") else None, compress=False)
            n = int(re.search(rb"<< /Length (\d+) >>\nstream", plain).group(1))
            if n % 16 == 0:
                break
    # owner_pw None: no owner password (pypdf then uses the user password for both, so decrypt("") answers "owner password matched")
    enc = pdfw.encrypt_pdf(plain, user_password=m["user_pw"], owner_password=m["owner_pw"], algorithm=m["alg"], strings_only=bool(m.get("strings_only")) and m["alg"] == "AES-128")
    return plain, enc


def _pdf_observe(raw: bytes, entry: str):
    """in a fresh fork: outcome + serialised result"""
    from sharepoint2text.parsing.extractors.serialization import serialize_extraction
    from sharepoint2text.parsing.exceptions import ExtractionFileEncryptedError
    scratch = tempfile.mkdtemp(prefix="vf-c08-")
    try:
        if entry == "cli":
            return observe_cli(raw, "pdf", scratch)
        try:
            if entry == "direct":
                from sharepoint2text.parsing.router import get_extractor
                gen = get_extractor("case.pdf")(io.BytesIO(raw), "case.pdf")
            else:
                import sharepoint2text
                p = os.path.join(scratch, "case.pdf")
                with open(p, "wb") as f:
                    f.write(raw)
                gen = sharepoint2text.read_file(p)
            res = []
            for r in gen:
                res.append(r)
            ser = [serialize_extraction(r) for r in res]
            for s in ser:
                if isinstance(s.get("metadata"), dict):
                    for k in ("file_path", "folder_path", "filename"):
                        s["metadata"].pop(k, None)
            return ("ok", len(res), ser)
        except ExtractionFileEncryptedError as e:
            return ("encrypted", len(res) if "res" in locals() else 0, str(e))
        except Exception as e:  # noqa
            return ("other:" + type(e).__name__, 0, str(e)[:200])
    finally:
        shutil.rmtree(scratch, ignore_errors=True)


def evaluate_pdf(ctx: Ctx, m, part: Partial | None = None):
    plain, enc = in_fresh_fork(_pdf_build, m)
    fails = []
    slow = m["alg"] == "AES-256"
    entries = ("direct",) if (slow and not ctx.thorough) else ("direct", "read_file")
    truth = "plain-equivalent" if m["user_pw"] == "" else "encrypted"
    base = in_fresh_fork(_pdf_observe, plain, "direct")
    if base[0] != "ok":
        raise RuntimeError(f"harness: the unencrypted original does not extract: {base}")
    for entry in entries:
        got = in_fresh_fork(_pdf_observe, enc, entry)
        if truth == "encrypted":
            if got[0] != "encrypted":
                fails.append(("encrypted-not-rejected", f"[{entry} pdf {m['alg']}] outcome {got[0]} after {got[1]} result(s); expected ExtractionFileEncryptedError"))
            elif got[1]:
                fails.append(("yield-before-error", f"[{entry} pdf {m['alg']}] {got[1]} result(s) before the error"))
        else:
            if got[0] == "encrypted":
                fails.append(("plain-rejected", f"[{entry} pdf {m['alg']}] empty user password but rejected as encrypted ({got[2]})"))
            elif got[0] != "ok":
                fails.append(("empty-pw-differs", f"[{entry} pdf {m['alg']}] empty user password: extraction fails with {got[0]} ({got[2]}) while the unencrypted original extracts"))
            elif got[2] != base[2]:
                fails.append(("empty-pw-differs", f"[{entry} pdf {m['alg']}] result differs from the unencrypted original: {str(got[2])[:300]} != {str(base[2])[:300]}"))
        if fails:
            break
    if not fails and truth == "encrypted" and not slow:
        code, out, err = in_fresh_fork(_pdf_observe, enc, "cli")
        if code != 1 or out != "":
            fails.append(("encrypted-not-rejected", f"[cli pdf {m['alg']}] exit={code} stdout={out[:80]!r}"))
    if part is not None:
        part.case(digest(m), m["user_pw"] == "" or m["owner_pw"] == m["user_pw"], sample={"mech": "pdf", "alg": m["alg"], "user_pw": m["user_pw"], "pages": len(m["pages"]), "truth": truth}
                  if part.evaluations % 5 == 0 else None, mech="pdf", truth=truth, alg=m["alg"], ext="pdf")
    return _mk_viol(m, fails)


def shard(ctx: Ctx):
    part = Partial()
    n = ctx.n(4000, 120000) // ctx.nshards + 1
    hyp_search(ctx, "containers", _cases(), lambda m: evaluate(ctx, m, part), n, part)
    return part


def pdf_shard(ctx: Ctx):
    part = Partial()
    n = ctx.n(64, 1600) // ctx.nshards + 1
    hyp_search(ctx, "pdf", _pdf_cases(), lambda m: evaluate(ctx, m, part), n, part, shrink_budget_s=60)
    return part


def fixtures_and_cross(ctx: Ctx):
    part = Partial()
    rels = []
    for root, _, files in os.walk(FIX):
        for f in sorted(files):
            rels.append(os.path.relpath(os.path.join(root, f), FIX))
    rels.sort()
    n = 0
    for rel in rels:
        m = {"mech": "fixture", "path": rel}
        if rel.endswith(".pdf"):
            raw = _fixture(rel)
            truth = "encrypted" if "password_protected" in rel else "plain"
            got = in_fresh_fork(_pdf_observe, raw, "direct")
            fails = []
            if truth == "encrypted" and (got[0] != "encrypted" or got[1]):
                fails.append(("encrypted-not-rejected", f"[direct fixture {rel}] outcome {got[0]} after {got[1]} results"))
            if truth == "plain" and got[0] == "encrypted":
                fails.append(("plain-rejected", f"[direct fixture {rel}] rejected as encrypted"))
            part.case(digest(m), True, mech="fixture", truth=truth, ext="pdf")
            part.violations += _mk_viol(m, fails)
        else:
            part.violations += evaluate(ctx, m, part)
        n += 1
    for src, ext in CROSS:
        m = {"mech": "fixture", "path": src, "ext": ext}
        part.violations += evaluate(ctx, m, part)
        n += 1
    part.exhaustive["fixtures (81) and cross-routed fixtures"] = n
    return part


def run(ctx: Ctx) -> Partial:
    part = Partial()
    part.merge(shard_map(ctx, "vf.props.c08", "fixtures_and_cross", 1))
    part.merge(shard_map(ctx, "vf.props.c08", "pdf_shard", 16 if ctx.thorough else 8))
    part.merge(shard_map(ctx, "vf.props.c08", "shard", 16))
    return part


def replay(ctx: Ctx, payload: dict):
    return evaluate(ctx, payload["model"], None)
