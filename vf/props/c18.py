"""C18 — SharePoint listing is complete, exact and fault-contained (simulated Graph transport, fault enumeration)."""
from __future__ import annotations

import copy
import fnmatch
import io
import json
import re
from datetime import datetime, timedelta, timezone
from urllib.error import HTTPError, URLError
from urllib.parse import parse_qs, unquote, urlparse

from hypothesis import strategies as st

from vf.runner import Ctx, Partial, Violation, digest, hyp_search, shard_map

RULE = ("Hypothesis-drawn document libraries (<=4 levels, 0..6 items per folder, names needing URL quoting, package-facet items, optional fields missing, "
        "timestamps with 0/3/7 fractional digits, system + custom list fields) served by a fake Graph transport with page size 1..N; operations list_all_files, "
        "list_files_filtered (date bounds on/around item timestamps, mixed-case extensions, path patterns, folder paths), list_files_modified_since/created_since, "
        "list_files_in_folder. For every operation: healthy run vs reference walk (multiset, parent paths, all fields); then EVERY request index k x fault kind "
        "{HTTP 401/404/429/500/503, URLError, invalid-JSON body, empty body, invalid-UTF-8 body, status 302/500 without exception} on a cold and on a warm client, "
        "each followed by a fault-free retry on the same client. Non-trivial = library with >=2 folder levels and some folder spanning >=2 pages, or a fault at index k>=1; "
        "distinct by digest of (library, operation, k, kind).")
ASSUMPTIONS = ["a 404 answered to the folder-by-path lookup is a legitimate 'folder not found' answer, not a failure (that k x kind combination is not judged)",
               "timestamps are ISO-8601 with Z/+00:00 designators as Graph returns them; filter bounds are timezone-aware",
               "the fake server unquotes request paths before resolving them; folder_paths are normalised and non-overlapping"]

BASE = datetime(2024, 3, 1, 12, 0, 0, tzinfo=timezone.utc)
GRAPH = "https://graph.microsoft.com/v1.0"
SITE_ID = "contoso.sharepoint.com,1111,2222"
SYSTEM_FIELDS = ["ContentType", "Created", "Modified", "FileLeafRef", "Title", "DocIcon", "@odata.etag", "id"]


# ---- model helpers ----------------------------------------------------------------------------------------------
def fmt_ts(offset_us: int, style: int) -> str:
    dt = BASE + timedelta(microseconds=offset_us)
    s = dt.strftime("%Y-%m-%dT%H:%M:%S")
    us = dt.microsecond
    if style == 0:
        # Graph's usual form has no fraction; only usable when the instant is whole seconds
        return s + "Z" if us == 0 else s + f".{us:06d}Z"
    if style == 1:
        return s + f".{us // 1000:03d}Z" if us % 1000 == 0 else s + f".{us:06d}Z"
    if style == 2:
        return s + f".{us:06d}0Z"  # 7 digits (100 ns ticks)
    return s + (f".{us:06d}" if us else "") + "+00:00"


def parse_ts(s: str) -> datetime:
    m = re.fullmatch(r"(\d{4})-(\d\d)-(\d\d)T(\d\d):(\d\d):(\d\d)(?:\.(\d+))?(Z|[+-]\d\d:\d\d)", s)
    y, mo, d, h, mi, sec = (int(m.group(i)) for i in range(1, 7))
    us = int((m.group(7) or "0")[:6].ljust(6, "0"))
    tz = timezone.utc if m.group(8) == "Z" else timezone((1 if m.group(8)[0] == "+" else -1) * timedelta(hours=int(m.group(8)[1:3]), minutes=int(m.group(8)[4:6])))
    return datetime(y, mo, d, h, mi, sec, us, tzinfo=tz)


def iter_items(items, parent=""):
    for it in items:
        yield it, parent
        if it["kind"] == "folder":
            yield from iter_items(it["children"], f"{parent}/{it['name']}" if parent else it["name"])


def to_graph_item(it):
    d = {"id": it["id"], "name": it["name"], "webUrl": f"https://contoso.sharepoint.com/sites/x/{it['id']}"}
    if it["kind"] == "file":
        d["file"] = {"mimeType": it["mime"]} if it["mime"] is not None else {}
        d["size"] = it["size"]
        d["@microsoft.graph.downloadUrl"] = f"https://dl.example/{it['id']}"
    elif it["kind"] == "folder":
        d["folder"] = {"childCount": len(it["children"])}
    elif it["kind"] == "package":
        d["package"] = {"type": "oneNote"}
    if it.get("created") is not None:
        d["createdDateTime"] = it["created"]
    if it.get("modified") is not None:
        d["lastModifiedDateTime"] = it["modified"]
    if it.get("fields") is not None:
        d["listItem"] = {"id": "7", "fields": it["fields"]}
    for k in it.get("missing", []):
        d.pop(k, None)
    return d


def expected_meta(it, parent):
    g = to_graph_item(it)
    fields = g.get("listItem", {}).get("fields") if isinstance(g.get("listItem"), dict) else None
    custom = {k: v for k, v in (fields or {}).items() if k not in SYSTEM_FIELDS and not k.startswith("@odata")}
    return {"name": g.get("name", ""), "id": g.get("id", ""), "web_url": g.get("webUrl", ""), "download_url": g.get("@microsoft.graph.downloadUrl"),
            "size": g.get("size"), "mime_type": g.get("file", {}).get("mimeType"), "last_modified": g.get("lastModifiedDateTime"),
            "created": g.get("createdDateTime"), "parent_path": parent or None, "custom_fields": custom or None}


def ref_matches(meta, flt) -> bool:
    def bound(val, after, before):
        if after is None and before is None:
            return True
        if not val:
            return False
        t = parse_ts(val)
        if after is not None and not (t >= after):
            return False
        if before is not None and not (t < before):
            return False
        return True
    ca, cb, ma, mb = (datetime.fromisoformat(x) if x else None for x in (flt.get("created_after"), flt.get("created_before"), flt.get("modified_after"), flt.get("modified_before")))
    if not bound(meta["created"], ca, cb) or not bound(meta["last_modified"], ma, mb):
        return False
    if flt.get("extensions") and not any(meta["name"].lower().endswith(e.lower()) for e in flt["extensions"]):
        return False
    if flt.get("path_patterns"):
        full = f"{meta['parent_path']}/{meta['name']}" if meta["parent_path"] else meta["name"]
        if not any(re.fullmatch(fnmatch.translate(p), full) for p in flt["path_patterns"]):
            return False
    return True


def find_folder(lib, path):
    cur = lib["root"]
    node = None
    for seg in [s for s in path.strip("/").split("/") if s]:
        node = next((i for i in cur if i["name"] == seg), None)
        if node is None or node["kind"] != "folder":
            return None if node is None else node
        cur = node["children"]
    return node


def reference(lib, op):
    """expected list of metadata dicts (order-insensitive)."""
    kind = op["op"]
    if kind == "list_all_files":
        return [expected_meta(it, parent) for it, parent in iter_items(lib["root"]) if it["kind"] == "file"]
    if kind == "list_files_in_folder":
        p = op["folder"]
        if p in ("", "/"):
            items = lib["root"]
        else:
            node = find_folder(lib, p)
            items = node["children"] if node and node["kind"] == "folder" else None
        if items is None:
            return None  # folder missing: a 404 -> SharePointRequestError is the documented outcome
        return [expected_meta(it, "") for it in items if it["kind"] == "file"]
    flt = op["filter"]
    out = []
    roots = flt.get("folder_paths") or [None]
    for fp in roots:
        if fp is None:
            cands = [(it, parent) for it, parent in iter_items(lib["root"])]
        else:
            node = find_folder(lib, fp)
            if node is None or node["kind"] != "folder":
                continue
            cands = [(it, parent) for it, parent in iter_items(node["children"], fp)]
        for it, parent in cands:
            if it["kind"] == "file":
                m = expected_meta(it, parent)
                if ref_matches(m, flt):
                    out.append(m)
    return out


# ---- fake transport -----------------------------------------------------------------------------------------------
class FakeResponse:
    def __init__(self, status, body, log):
        self.status, self._body, self.closed = status, body, False
        log.append(self)

    def read(self):
        return self._body

    def getcode(self):
        return self.status

    def close(self):
        self.closed = True


FAULT_KINDS = ["http401", "http404", "http429", "http500", "http503", "urlerror", "badjson", "emptybody", "badutf8", "status302", "status500"]


class FakeGraph:
    def __init__(self, lib):
        self.lib = lib
        self.page = max(1, lib["page_size"])
        self.requests = []  # (method, url)
        self.responses = []
        self.fault = None  # (k, kind) relative to self.counter
        self.counter = 0
        self.by_id = {it["id"]: it for it, _ in iter_items(lib["root"])}

    def __call__(self, request, timeout=None):
        url = request.full_url
        k = self.counter
        self.counter += 1
        self.requests.append((request.get_method(), url))
        if self.fault and self.fault[0] == k:
            kind = self.fault[1]
            if kind.startswith("http"):
                raise HTTPError(url, int(kind[4:]), "injected", {}, io.BytesIO(b'{"error":{"code":"injected"}}'))
            if kind == "urlerror":
                raise URLError("injected network failure")
            if kind == "badjson":
                return FakeResponse(200, b'{"value": [', self.responses)
            if kind == "emptybody":
                return FakeResponse(200, b"", self.responses)
            if kind == "badutf8":
                return FakeResponse(200, b'\xff\xfe{"value": []}', self.responses)
            if kind.startswith("status"):
                return FakeResponse(int(kind[6:]), b'{"value": []}', self.responses)
        return self._serve(request, url)

    def _json(self, obj, status=200):
        return FakeResponse(status, json.dumps(obj).encode("utf-8"), self.responses)

    def _serve(self, request, url):
        u = urlparse(url)
        if u.netloc == "login.microsoftonline.com":
            assert request.get_method() == "POST" and request.data
            return self._json({"token_type": "Bearer", "expires_in": 3599, "access_token": "tok-" + str(len(self.requests))})
        if not (request.get_header("Authorization") or "").startswith("Bearer tok-"):
            raise HTTPError(url, 401, "no token", {}, io.BytesIO(b"{}"))
        path = unquote(u.path)
        q = parse_qs(u.query)
        assert path.startswith("/v1.0/"), path
        path = path[len("/v1.0"):]
        if path == "/sites/contoso.sharepoint.com:/sites/x" or path == "/sites/contoso.sharepoint.com":
            return self._json({"id": SITE_ID, "name": "x"})
        pre = f"/sites/{SITE_ID}/drive"
        if not path.startswith(pre):
            raise HTTPError(url, 404, "unknown", {}, io.BytesIO(b"{}"))
        rest = path[len(pre):]
        items = None
        if rest == "/root/children":
            items = self.lib["root"]
        elif (m := re.fullmatch(r"/items/([^/]+)/children", rest)):
            node = self.by_id.get(m.group(1))
            if node is None or node["kind"] != "folder":
                raise HTTPError(url, 404, "no such item", {}, io.BytesIO(b"{}"))
            items = node["children"]
        elif (m := re.fullmatch(r"/root:/(.*):/children", rest)):
            node = find_folder(self.lib, m.group(1))
            if node is None or node["kind"] != "folder":
                raise HTTPError(url, 404, "no such folder", {}, io.BytesIO(b'{"error":{"code":"itemNotFound"}}'))
            items = node["children"]
        elif (m := re.fullmatch(r"/root:/(.*)", rest)):
            node = find_folder(self.lib, m.group(1))
            if node is None:
                raise HTTPError(url, 404, "no such path", {}, io.BytesIO(b'{"error":{"code":"itemNotFound"}}'))
            return self._json(to_graph_item(node))
        else:
            raise HTTPError(url, 404, "unknown endpoint", {}, io.BytesIO(b"{}"))
        skip = int(q.get("$skiptoken", ["0"])[0])
        chunk = items[skip:skip + self.page]
        body = {"value": [to_graph_item(i) for i in chunk]}
        if skip + self.page < len(items):
            sep = "&" if u.query and "$skiptoken" not in u.query else "?"
            base = re.sub(r"[?&]\$skiptoken=\d+", "", url)
            body["@odata.nextLink"] = f"{base}{'&' if '?' in base else '?'}$skiptoken={skip + self.page}"
        return self._json(body)


# ---- running operations against the real client -----------------------------------------------------------------------
def _mkfilter(flt):
    from sharepoint2text.sharepoint_io.client import FileFilter
    d = lambda x: datetime.fromisoformat(x) if x else None  # noqa
    return FileFilter(created_after=d(flt.get("created_after")), created_before=d(flt.get("created_before")), modified_after=d(flt.get("modified_after")),
                      modified_before=d(flt.get("modified_before")), folder_paths=list(flt.get("folder_paths") or []),
                      path_patterns=list(flt.get("path_patterns") or []), extensions=list(flt.get("extensions") or []))


def run_op(client, op):
    kind = op["op"]
    if kind == "list_all_files":
        return list(client.list_all_files())
    if kind == "list_files_in_folder":
        return list(client.list_files_in_folder(op["folder"]))
    if kind == "list_files_filtered":
        return list(client.list_files_filtered(_mkfilter(op["filter"])))
    f = op["filter"]
    if kind == "list_files_modified_since":
        return list(client.list_files_modified_since(datetime.fromisoformat(f["modified_after"]), folder_paths=f.get("folder_paths") or None, extensions=f.get("extensions") or None))
    if kind == "list_files_created_since":
        return list(client.list_files_created_since(datetime.fromisoformat(f["created_after"]), folder_paths=f.get("folder_paths") or None, extensions=f.get("extensions") or None))
    raise ValueError(kind)


def meta_to_dict(m):
    return {k: getattr(m, k) for k in ("name", "id", "web_url", "download_url", "size", "mime_type", "last_modified", "created", "parent_path", "custom_fields")}


def _canon(lst):
    return sorted(json.dumps(x, sort_keys=True, default=repr) for x in lst)


def new_client(server):
    from sharepoint2text.sharepoint_io.client import EntraIDAppCredentials, SharePointRestClient
    return SharePointRestClient("https://contoso.sharepoint.com/sites/x/", EntraIDAppCredentials("tenant", "cid", "secret"), request_func=server)


def healthy(lib, op, client=None, server=None):
    """-> (fails, n_requests, got, server, client)"""
    from sharepoint2text.sharepoint_io.exceptions import SharePointRequestError
    server = server or FakeGraph(lib)
    client = client or new_client(server)
    start = server.counter
    want = reference(lib, op)
    fails = []
    try:
        got = [meta_to_dict(m) for m in run_op(client, op)]
    except SharePointRequestError as e:
        got = None
        if want is not None:
            fails.append(("complete-exact", f"{op}: healthy transport but raised {type(e).__name__}: {e} (status {e.status_code}, url {e.url})"))
    except Exception as e:  # noqa
        got = None
        fails.append(("complete-exact", f"{op}: healthy transport but raised {type(e).__name__}: {e}"))
    if got is not None:
        if want is None:
            fails.append(("complete-exact", f"{op}: target folder does not exist, expected the request error, got {len(got)} files"))
        elif _canon(got) != _canon(want):
            gs, ws = set(_canon(got)), set(_canon(want))
            fails.append(("complete-exact", f"{op}: returned {len(got)} files, expected {len(want)}; missing={sorted(ws - gs)[:2]} unexpected={sorted(gs - ws)[:2]} "
                          f"duplicates={len(got) - len(set(_canon(got)))}"))
    if any(not r.closed for r in server.responses):
        fails.append(("responses-closed", f"{op}: {sum(not r.closed for r in server.responses)} response(s) never closed on a healthy run"))
    return fails, server.counter - start, got, server, client


def fault_run(lib, op, k, kind, warm):
    """inject fault `kind` at request index k (relative to the start of the operation), then retry fault-free on the same client."""
    from sharepoint2text.sharepoint_io.exceptions import SharePointError, SharePointRequestError
    server = FakeGraph(lib)
    client = new_client(server)
    if warm:
        try:
            client.get_site_id()
        except Exception:  # noqa
            return []
    start = server.counter
    server.fault = (start + k, kind)
    fails = []
    raised = None
    try:
        run_op(client, op)
    except SharePointError as e:
        raised = e
    except Exception as e:  # noqa
        fails.append(("own-error-family", f"{op} fault {kind}@{k} ({'warm' if warm else 'cold'}): escaped {type(e).__name__}: {e!r}"))
        raised = e
    failing_url = server.requests[start + k][1] if len(server.requests) > start + k else None
    is_folder_lookup = failing_url is not None and re.search(r"/root:/[^?]*$", failing_url) and not failing_url.endswith(":/children") and "/children" not in failing_url
    if raised is None:
        if not (kind == "http404" and is_folder_lookup):
            fails.append(("own-error-family", f"{op} fault {kind}@{k} ({'warm' if warm else 'cold'}) on {failing_url}: no error raised"))
    elif isinstance(raised, SharePointError) and (kind.startswith("http") or kind == "urlerror" or kind.startswith("status")):
        want_status = int(kind[4:]) if kind.startswith("http") else int(kind[6:]) if kind.startswith("status") else None
        if not isinstance(raised, SharePointRequestError):
            fails.append(("request-error-attrs", f"{op} fault {kind}@{k}: raised {type(raised).__name__}, expected SharePointRequestError"))
        elif raised.status_code != want_status or raised.url != failing_url:
            fails.append(("request-error-attrs", f"{op} fault {kind}@{k}: status_code={raised.status_code} url={raised.url}; injected status {want_status} at {failing_url}"))
    if any(not r.closed for r in server.responses):
        fails.append(("responses-closed", f"{op} fault {kind}@{k}: {sum(not r.closed for r in server.responses)} response(s) left open"))
    # retry on the same client, healthy transport
    server.fault = None
    rf, _, _, _, _ = healthy(lib, op, client=client, server=server)
    for c, d in rf:
        fails.append(("retry-complete", f"after fault {kind}@{k} ({'warm' if warm else 'cold'}): {d}"))
    return fails


# ---- strategies ----------------------------------------------------------------------------------------------------------
NAMES = ["report", "Q1 report", "a#b", "50% off", "R&D", "a+b", "Ünï", "文書", "x.y", "it's", "(draft)", "tab le", "UPPER", "semi;colon", "comma,name", "eq=sign", "at@sign"]
EXTS = [".pdf", ".PDF", ".docx", ".Docx", ".txt", ".xlsx", "", ".tar.gz"]


@st.composite
def libraries(draw):
    counter = [0]

    def item(depth, used):
        counter[0] += 1
        i = counter[0]
        kinds = ["file"] * 5 + (["folder"] * 3 if depth < 3 else []) + ["package"]
        kind = draw(st.sampled_from(kinds))
        base = draw(st.sampled_from(NAMES))
        name = base + (draw(st.sampled_from(EXTS)) if kind == "file" else "")
        while name in used:
            name = f"{i}-{name}"
        used.add(name)
        off = lambda: draw(st.sampled_from([0, 1, 999_999, 1_000_000, 1_500_000, 500_000, 86_400_000_000, 3_600_000_000])) + draw(st.integers(0, 3)) * 1_000_000  # noqa
        it = {"name": name, "id": f"01ID{i:04d}", "kind": kind,
              "created": fmt_ts(off(), draw(st.integers(0, 3))), "modified": fmt_ts(off(), draw(st.integers(0, 3))), "missing": []}
        if kind == "file":
            it["size"] = draw(st.integers(0, 10**9))
            it["mime"] = draw(st.sampled_from(["application/pdf", "text/plain", None]))
            if draw(st.booleans()):
                it["fields"] = {"ContentType": "Document", "Created": it["created"], "@odata.etag": "x", "Department": draw(st.sampled_from(["HR", "R&D", 7, None])), "Reviewed": True}
            else:
                it["fields"] = None
            it["missing"] = draw(st.lists(st.sampled_from(["size", "createdDateTime", "lastModifiedDateTime", "webUrl", "@microsoft.graph.downloadUrl"]), max_size=2, unique=True)) \
                if draw(st.integers(0, 4)) == 0 else []
        if kind == "folder":
            n = draw(st.integers(0, 6 if depth < 2 else 3))
            used2 = set()
            it["children"] = [item(depth + 1, used2) for _ in range(n)]
        return it

    n = draw(st.integers(0, 6))
    used = set()
    root = [item(0, used) for _ in range(n)]
    return {"page_size": draw(st.sampled_from([1, 1, 2, 3, 5, 200])), "root": root}


def _folders(lib):
    return [(f"{p}/{it['name']}" if p else it["name"]) for it, p in iter_items(lib["root"]) if it["kind"] == "folder"]


@st.composite
def operations(draw, lib):
    files = [(it, p) for it, p in iter_items(lib["root"]) if it["kind"] == "file"]
    folders = _folders(lib)
    kind = draw(st.sampled_from(["list_all_files", "list_files_filtered", "list_files_filtered", "list_files_modified_since", "list_files_created_since", "list_files_in_folder"]))
    if kind == "list_all_files":
        return {"op": kind}
    if kind == "list_files_in_folder":
        return {"op": kind, "folder": draw(st.sampled_from(["/", ""] + folders + ["missing-folder"]))}

    def bound():
        if files and draw(st.integers(0, 5)) > 0:
            it, _ = draw(st.sampled_from(files))
            ts = it[draw(st.sampled_from(["created", "modified"]))]
            t = parse_ts(ts)
        else:
            t = BASE
        t = t.astimezone(timezone.utc) + timedelta(microseconds=draw(st.sampled_from([0, 0, 1, -1, 500_000, -500_000, 1_000_000, -1_000_000])))
        return t.isoformat()
    flt = {}
    if kind == "list_files_modified_since":
        flt["modified_after"] = bound()
    elif kind == "list_files_created_since":
        flt["created_after"] = bound()
    else:
        for key in ("created_after", "created_before", "modified_after", "modified_before"):
            if draw(st.integers(0, 3)) == 0:
                flt[key] = bound()
        if draw(st.integers(0, 2)) == 0:
            pats = ["*.pdf", "*/*", "*report*", "Q1*", "*/*/*.docx", "*.PDF", "[a-z]*", "*#*", "?*"]
            if folders:
                pats += [folders[0] + "/*", folders[-1] + "/*.txt"]
            flt["path_patterns"] = draw(st.lists(st.sampled_from(pats), min_size=1, max_size=2, unique=True))
    if draw(st.integers(0, 2)) == 0:
        flt["extensions"] = draw(st.lists(st.sampled_from([".pdf", ".PDF", ".Docx", ".txt", ".gz", ".tar.gz", "x"]), min_size=1, max_size=2, unique=True))
    if folders and draw(st.integers(0, 2)) == 0:
        # non-overlapping folder paths
        chosen = []
        for f in draw(st.lists(st.sampled_from(folders + ["missing-folder"]), min_size=1, max_size=2, unique=True)):
            if not any(f == c or f.startswith(c + "/") or c.startswith(f + "/") for c in chosen):
                chosen.append(f)
        flt["folder_paths"] = chosen
    return {"op": kind, "filter": flt}


@st.composite
def cases(draw):
    lib = draw(libraries())
    ops = [draw(operations(lib)) for _ in range(draw(st.integers(1, 3)))]
    return {"lib": lib, "ops": ops}


def _nontrivial_lib(lib):
    deep = any(p.count("/") >= 1 for it, p in iter_items(lib["root"]) if p)
    paged = len(lib["root"]) > lib["page_size"] or any(it["kind"] == "folder" and len(it["children"]) > lib["page_size"] for it, _ in iter_items(lib["root"]))
    return deep and paged


OPS = {"list_all_files", "list_files_filtered", "list_files_modified_since", "list_files_created_since", "list_files_in_folder"}


def _validate(case):
    """Reject ill-formed models (the model shrinker may propose them): they are not part of the domain."""
    lib = case["lib"]
    assert isinstance(lib["page_size"], int) and lib["page_size"] >= 1
    ids, = [set()]
    def chk(items):
        names = set()
        for it in items:
            assert it["kind"] in ("file", "folder", "package") and it["name"] and it["name"] not in names and it["id"] not in ids and len(it["id"]) == 8
            names.add(it["name"]); ids.add(it["id"])
            for key in ("created", "modified"):
                parse_ts(it[key])
            if it["kind"] == "file":
                assert it["size"] is None or isinstance(it["size"], int)
                assert it["mime"] in ("application/pdf", "text/plain", None)
                assert set(it["missing"]) <= {"size", "createdDateTime", "lastModifiedDateTime", "webUrl", "@microsoft.graph.downloadUrl"}
            if it["kind"] == "folder":
                chk(it["children"])
    chk(lib["root"])
    for op in case["ops"]:
        assert op["op"] in OPS
        if op["op"] == "list_files_in_folder":
            assert isinstance(op["folder"], str)
        elif op["op"] != "list_all_files":
            f = op["filter"]
            assert set(f) <= {"created_after", "created_before", "modified_after", "modified_before", "path_patterns", "extensions", "folder_paths"}
            for k in ("created_after", "created_before", "modified_after", "modified_before"):
                if f.get(k):
                    assert datetime.fromisoformat(f[k]).tzinfo is not None
            if op["op"] == "list_files_modified_since":
                assert f.get("modified_after")
            if op["op"] == "list_files_created_since":
                assert f.get("created_after")
            for k in ("path_patterns", "extensions", "folder_paths"):
                assert all(isinstance(x, str) and x for x in f.get(k) or [])


# ---- evaluation -----------------------------------------------------------------------------------------------------------
def evaluate(ctx: Ctx, case, part: Partial | None, max_faults_per_op=10**9):
    lib = case["lib"]
    out = []
    _validate(case)
    nt = _nontrivial_lib(lib)
    for op in case["ops"]:
        fails, nreq, got, _, _ = healthy(lib, op)
        if part is not None:
            part.case(digest([lib, op]), nt, sample={"page_size": lib["page_size"], "op": op, "requests": nreq, "files": None if got is None else len(got)} if nt else None,
                      op=op["op"], deep_and_paged=nt, has_filter_bounds=bool(op.get("filter") and any(k.endswith(("after", "before")) for k in op["filter"])))
        out += [(c, d, {"lib": lib, "ops": [op]}) for c, d in fails]
        if fails:
            continue
        # fault enumeration: every request index x kind, cold and warm client
        for warm in (False, True):
            n = nreq if not warm else max(0, nreq - 2)
            done = 0
            for k in range(n):
                for kind in FAULT_KINDS:
                    if done >= max_faults_per_op:
                        break
                    done += 1
                    ff = fault_run(lib, op, k, kind, warm)
                    if part is not None:
                        part.case(digest([lib, op, k, kind, warm]), k >= 1, fault=kind, warm=warm)
                    out += [(c, d, {"lib": lib, "ops": [op], "fault": [k, kind, warm]}) for c, d in ff]
                    if ff:
                        break
                if out:
                    break
            if out:
                break
        if out:
            break
    viols = []
    for c, d, rep in out[:1]:
        sig = f"C18:{c}"
        viols.append(Violation(c, sig, d, {"kind": "history", "model": rep}))
    return viols


def shard(ctx: Ctx):
    part = Partial()
    n = ctx.n(160, 4000) // ctx.nshards + 1

    def ev(case):
        return evaluate(ctx, case, part)
    hyp_search(ctx, "libs", cases(), ev, n, part, shrink_budget_s=25.0)
    return part


def run(ctx: Ctx) -> Partial:
    return shard_map(ctx, "vf.props.c18", "shard", 16)


def replay(ctx: Ctx, payload: dict):
    m = payload["model"]
    if "fault" in m:
        k, kind, warm = m["fault"]
        ff = fault_run(m["lib"], m["ops"][0], k, kind, warm)
        return [Violation(c, f"C18:{c}", d, payload) for c, d in ff[:1]]
    return evaluate(ctx, m, None)
