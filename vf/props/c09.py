"""C09 — Archive processing is confined: no host file is read or written."""
from __future__ import annotations

import base64
import io
import json
import os
import shutil
import subprocess
import sys
import tarfile
import tempfile
import zipfile

from hypothesis import strategies as st

from vf.gen import sevenz
from vf.runner import HERE, Ctx, HarnessError, Partial, Violation, digest, hyp_search, shard_map

RULE = ("ZIP / TAR(.gz/.bz2/.xz) / 7z archives whose member names come from a hostile grammar (absolute paths, ../ chains of every depth up to the temp dir's depth + 2, mixed and back-slash "
        "separators, drive letters, empty, 300+ characters, unicode, the names of canary files that exist on the host), TAR symlink / hardlink / device / fifo members pointing at the "
        "canaries, 7z entries with and without data streams, hidden / __MACOSX / nested-archive / unsupported / oversize members; each archive is consumed by a drawn consumer behaviour "
        "(exhaust; take k then close(); abandon + gc; throw into the generator) inside a worker process with a private TMPDIR and a sys.addaudithook monitor. Oracle: no open-for-write, "
        "mkdir, rename, remove, link event outside the private temp root; no open-for-read outside {temp root, interpreter/package files}; canary files byte-identical and their tokens "
        "absent from every result; temp root empty after each history; members of the skipped classes produce no result; the same archive with different host directory contents gives "
        "identical results. Non-trivial = archive with a name that resolves outside the extraction directory, or a special TAR member, or a 7z entry without stream, and the consumer "
        "is not 'exhaust' in >= 40% of cases; distinct by digest.")
ASSUMPTIONS = ["audit hooks see every Python-level open/mkdir/remove/rename/link (C-level I/O inside lzma/zlib touches no files)", "the worker is warmed up (all extractor modules imported) before monitoring starts"]

CANARY_TOKEN = "ZXCANRY"
KINDS = ["zip", "tar", "tar.gz", "tar.bz2", "tar.xz", "7z"]


class Worker:
    def __init__(self):
        self.scratch = tempfile.mkdtemp(prefix="vf-c09-", dir="/var/tmp")
        self.host = os.path.join(self.scratch, "host")
        os.makedirs(os.path.join(self.host, "sub"))
        self.canaries = {}
        self.write_canaries(1)
        env = dict(os.environ, PYTHONDONTWRITEBYTECODE="1")
        self.proc = subprocess.Popen([sys.executable, "-B", "-m", "vf.confine_worker", self.scratch], cwd=HERE, env=env, stdin=subprocess.PIPE, stdout=subprocess.PIPE,
                                     stderr=subprocess.PIPE, text=True, bufsize=1)
        warm = {"archive_b64": base64.b64encode(_benign_zip()).decode(), "path": "warm.zip", "consumer": {"kind": "exhaust"}}
        self.proc.stdin.write(json.dumps(warm) + "\n")
        self.proc.stdin.flush()
        line = self.proc.stdout.readline()
        if not line or not json.loads(line).get("ready"):
            raise HarnessError("confine worker did not start: " + self.proc.stderr.read()[-1500:])

    def write_canaries(self, variant: int):
        files = {"secret.txt": f"host secret {CANARY_TOKEN}{variant}A\n", "notes.md": f"# host notes {CANARY_TOKEN}{variant}B\n", "sub/deep.csv": f"a,b\n{CANARY_TOKEN}{variant}C,1\n"}
        for rel, text in files.items():
            p = os.path.join(self.host, rel)
            with open(p, "w") as fh:
                fh.write(text)
            self.canaries[p] = text

    def canaries_intact(self):
        bad = []
        for p, text in self.canaries.items():
            try:
                if open(p).read() != text:
                    bad.append(p + " modified")
            except OSError as e:
                bad.append(f"{p} {type(e).__name__}")
        extra = sorted(set(os.listdir(self.scratch)) - {"tmp", "host"})
        extra += [n for n in sorted(os.listdir(self.host)) if n not in ("secret.txt", "notes.md", "sub")]
        extra += [n for n in sorted(os.listdir(os.path.join(self.host, "sub"))) if n != "deep.csv"]
        return bad, extra

    def run(self, archive: bytes, path, consumer):
        req = {"archive_b64": base64.b64encode(archive).decode(), "path": path, "consumer": consumer}
        self.proc.stdin.write(json.dumps(req) + "\n")
        self.proc.stdin.flush()
        line = self.proc.stdout.readline()
        if not line:
            raise HarnessError("confine worker died: " + self.proc.stderr.read()[-1500:])
        resp = json.loads(line)
        if "worker_error" in resp:
            raise HarnessError("confine worker error: " + resp["worker_error"])
        return resp

    def close(self):
        try:
            self.proc.stdin.close()
            self.proc.wait(timeout=10)
        except Exception:  # noqa
            self.proc.kill()
        shutil.rmtree(self.scratch, ignore_errors=True)


def _benign_zip():
    from vf.props.c10 import member_bytes
    buf = io.BytesIO()
    with zipfile.ZipFile(buf, "w") as z:
        for i, fmt in enumerate(["txt", "md", "csv", "json", "html", "rtf", "docx", "xlsx", "ods", "odt", "odp", "pdf", "eml", "epub"]):
            z.writestr(f"w{i}.{fmt}", member_bytes({"fmt": fmt, "seed": 900 + i}))
    return buf.getvalue()


# ---- hostile archives -----------------------------------------------------------------------------------------------
def resolve(name: str, host: str) -> str:
    return name.replace("{HOST}", host)


def _payload(e) -> bytes:
    """member bytes: the text, or for a 'nested' member a real ZIP archive holding that text (it must never be unpacked)"""
    if e.get("skipped") == "nested":
        buf = io.BytesIO()
        with zipfile.ZipFile(buf, "w") as z:
            z.writestr("inner/n.txt", e["text"])
        return buf.getvalue()
    return e["text"].encode()


def build(case, host: str) -> bytes:
    kind = case["kind"]
    ents = case["entries"]
    if kind == "zip":
        buf = io.BytesIO()
        with zipfile.ZipFile(buf, "w", zipfile.ZIP_DEFLATED) as z:
            for e in ents:
                name = resolve(e["name"], host)
                if e["k"] == "dir":
                    name = name if name.endswith("/") else name + "/"
                zi = zipfile.ZipInfo.__new__(zipfile.ZipInfo)
                zipfile.ZipInfo.__init__(zi, "x", date_time=(2024, 3, 1, 12, 0, 0))
                zi.filename = zi.orig_filename = name  # keep hostile names verbatim (no separator normalisation)
                zi.compress_type = zipfile.ZIP_DEFLATED
                if e["k"] == "dir":
                    zi.external_attr = 0x10
                z.writestr(zi, b"" if e["k"] == "dir" else _payload(e))
        return buf.getvalue()
    if kind.startswith("tar"):
        mode = {"tar": "w:", "tar.gz": "w:gz", "tar.bz2": "w:bz2", "tar.xz": "w:xz"}[kind]
        buf = io.BytesIO()
        with tarfile.open(fileobj=buf, mode=mode, format=tarfile.PAX_FORMAT) as tf:
            for e in ents:
                ti = tarfile.TarInfo(resolve(e["name"], host))
                ti.mtime = 1709294400
                k = e["k"]
                if k == "file":
                    data = _payload(e)
                    ti.size = len(data)
                    tf.addfile(ti, io.BytesIO(data))
                    continue
                ti.type = {"dir": tarfile.DIRTYPE, "symlink": tarfile.SYMTYPE, "hardlink": tarfile.LNKTYPE, "chr": tarfile.CHRTYPE, "blk": tarfile.BLKTYPE, "fifo": tarfile.FIFOTYPE}[k]
                if k in ("symlink", "hardlink"):
                    ti.linkname = resolve(e["target"], host)
                if k in ("chr", "blk"):
                    ti.devmajor, ti.devminor = 1, 3
                tf.addfile(ti)
        return buf.getvalue()
    members = []
    for e in ents:
        name = resolve(e["name"], host).replace("\x00", "")
        if e["k"] == "dir":
            members.append(sevenz.Member(name, None, True))
        elif e["k"] == "nostream":
            members.append(sevenz.Member(name, None, False))
        elif e["k"] == "empty":
            members.append(sevenz.Member(name, b"", False))
        else:
            members.append(sevenz.Member(name, _payload(e), False))
    o = case.get("sz", {})
    return sevenz.write_7z(members, method=o.get("method", "copy"), layout=o.get("layout", "solid"), encode_header=o.get("encode_header", False))


HOSTILE_NAMES = ["{HOST}/secret.txt", "{HOST}/notes.md", "{HOST}/sub/deep.csv", "../host/secret.txt", "../../host/secret.txt", "../../../host/secret.txt", "../../../../host/notes.md",
                 "a/../../../host/secret.txt", "..\\..\\host\\secret.txt", "C:\\Windows\\win.txt", "C:/x/y.txt", "/etc/passwd.txt", "//server/share/f.txt", "./x.txt", "a//b.txt", "a/./b.txt",
                 "", "/", "dir/", "x" * 320 + ".txt", "Ünï/文書.txt", "😀.md", "sp ace/ta\tb.txt", "a/..", "..", ".", "new\nline.txt", "{HOST}/newfile.txt", "../../host/created.txt",
                 "../../host/sub/newdir/created.csv", "~/.bashrc.txt", "%2e%2e/%2e%2e/host/secret.txt",
                 # backslash separators behind an ordinary first segment (not hidden, supported extension): a reader that maps "\\" to the host separator walks out
                 "docs\\..\\..\\host\\secret.txt", "a\\..\\..\\..\\host\\notes.md", "docs\\..\\..\\..\\..\\host\\secret.txt", "docs\\..\\..\\..\\host\\secret.txt"]
BENIGN_NAMES = ["ok.txt", "docs/readme.md", "data/table.csv", "deep/er/path/note.txt"]
SKIPPED = [(".hidden.txt", "hidden"), ("__MACOSX/._res.txt", "macosx"), ("inner.zip", "nested"), ("blob.bin", "unsupported"), ("docs/.DS_Store.txt", "hidden"),
           ("backup/OLD.ZIP", "nested"), ("Inner.Zip", "nested"), ("a/b.zIp", "nested"),
           # skipped because of the directory they sit in, under a base name that a visible member carries too
           ("__MACOSX/ok.txt", "macosx"), ("__MACOSX/docs/readme.md", "macosx"), ("__MACOSX/data/table.csv", "macosx")]
TARGETS = ["{HOST}/secret.txt", "../../host/secret.txt", "../../../host/notes.md", "/etc/hostname", "ok.txt", "{HOST}/sub"]


@st.composite
def cases(draw, kind):
    n = draw(st.integers(1, 6))
    entries = []
    ctr = [0]

    def body(cls="B"):
        ctr[0] += 1
        return f"member text Z{cls}M{ctr[0]:04d}\n"
    for _ in range(n):
        c = draw(st.integers(0, 9))
        if c <= 3:
            name = draw(st.sampled_from(HOSTILE_NAMES))
            k = draw(st.sampled_from(["file", "file", "file", "dir"]))
            entries.append({"k": k, "name": name, "text": body()})
        elif c <= 5:
            entries.append({"k": "file", "name": draw(st.sampled_from(BENIGN_NAMES)), "text": body()})
        elif c == 6:
            nm, cls = draw(st.sampled_from(SKIPPED))
            entries.append({"k": "file", "name": nm, "text": body("X"), "skipped": cls})
            if kind.startswith("tar") and draw(st.booleans()):
                # ... and a hard or symbolic link with a visible, supported name that points at the skipped member
                entries.append({"k": draw(st.sampled_from(["hardlink", "hardlink", "symlink"])), "name": draw(st.sampled_from(["link.txt", "docs/l.md", "visible/summary.txt"])), "target": nm})
        elif kind.startswith("tar"):
            k = draw(st.sampled_from(["symlink", "symlink", "hardlink", "chr", "blk", "fifo"]))
            # link targets: host paths, or other members of the same archive (a hard link to a hidden / skipped member must not surface its content under a visible name)
            inner = [x["name"] for x in entries if x["k"] == "file" and x["name"]]
            entries.append({"k": k, "name": draw(st.sampled_from(["link.txt", "docs/l.md", "dev.txt", "{HOST}/planted.txt", "../../host/planted.txt"])),
                            "target": draw(st.sampled_from(TARGETS + inner + inner))})
        elif kind == "7z":
            k = draw(st.sampled_from(["nostream", "empty", "empty"]))
            entries.append({"k": k, "name": draw(st.sampled_from(HOSTILE_NAMES + BENIGN_NAMES))})
        else:
            entries.append({"k": "file", "name": draw(st.sampled_from(HOSTILE_NAMES)), "text": body()})
    # a name that walks out through backslashes needs its first segment to exist as a directory for the walk to resolve: add an ordinary member there
    for first, real in (("docs\\", "docs/readme.md"), ("a\\", "a/x.txt")):
        if any(e["name"].startswith(first) for e in entries) and not any(e["name"] == real for e in entries):
            entries.insert(0, {"k": "file", "name": real, "text": body()})
    # unique names are not required by any of the formats; keep duplicates sometimes
    consumer = draw(st.sampled_from([{"kind": "exhaust"}, {"kind": "exhaust"}, {"kind": "take-close", "k": 1}, {"kind": "take-close", "k": 0}, {"kind": "abandon", "k": 1}, {"kind": "throw", "k": 1},
                                     {"kind": "throw", "k": 0}, {"kind": "take-close", "k": 2}]))
    case = {"kind": kind, "entries": entries, "consumer": consumer}
    if kind == "7z":
        case["sz"] = {"method": draw(st.sampled_from(["copy", "lzma2"])), "layout": draw(st.sampled_from(["solid", "per-file"])), "encode_header": draw(st.booleans())}
    return case


def validate(case):
    assert case["kind"] in KINDS and case["entries"]
    for e in case["entries"]:
        assert e["k"] in ("file", "dir", "symlink", "hardlink", "chr", "blk", "fifo", "nostream", "empty")
        assert isinstance(e["name"], str) and "\x00" not in e["name"]
        if e["k"] in ("symlink", "hardlink"):
            assert (e["target"] in TARGETS or e["target"] in [x["name"] for x in case["entries"] if x["k"] == "file"]) and case["kind"].startswith("tar")
        if e["k"] in ("chr", "blk", "fifo"):
            assert case["kind"].startswith("tar")
        if e["k"] in ("nostream", "empty"):
            assert case["kind"] == "7z"
        if e["k"] == "file":
            assert isinstance(e.get("text"), str) and e["text"].startswith("member text Z")
    assert case["consumer"]["kind"] in ("exhaust", "take-close", "abandon", "throw")
    return True


def escapes(name: str) -> bool:
    n = name.replace("\\", "/")
    return n.startswith(("{HOST}", "/", "~")) or ".." in n.split("/") or (len(n) > 1 and n[1] == ":")


def judge(case, worker: Worker):
    archive = build(case, worker.host)
    path = "box." + case["kind"]
    resp = worker.run(archive, path, case["consumer"])
    fails = []
    for ev in resp["events"]:
        clause = "host-write" if ev["event"] != "open-read" and ev["event"] not in ("os.scandir", "os.listdir") else "host-read"
        fails.append((clause, f"{ev['event']} on {ev['path']} ({ev['where']}) while processing the archive"))
        break
    if resp["tmp_left"]:
        fails.append(("temp-left", f"after the {case['consumer']['kind']} consumer the private temp root still holds {resp['tmp_left'][:4]}"))
    bad, extra = worker.canaries_intact()
    if bad or extra:
        fails.append(("host-write", f"host directory changed: {bad} new entries {extra}"))
        for n in extra:
            for base in (worker.scratch, worker.host, os.path.join(worker.host, "sub")):
                p = os.path.join(base, n)
                if os.path.lexists(p) and n not in ("tmp", "host"):
                    shutil.rmtree(p, ignore_errors=True) if os.path.isdir(p) and not os.path.islink(p) else os.unlink(p)
        worker.write_canaries(1)
    blob = json.dumps(resp["results"])
    if CANARY_TOKEN in blob:
        fails.append(("host-content-in-result", "the content of a host file (canary token) appears in an extraction result"))
    for e in case["entries"]:
        if e.get("skipped") and e["text"].split()[-1] in blob:
            fails.append(("skip-rule", f"a {e['skipped']} member ({e['name']!r}) produced a result"))
            break
    # results depend on the archive only: same archive, other host content
    if not fails and case["consumer"]["kind"] == "exhaust":
        worker.write_canaries(2)
        resp2 = worker.run(archive, path, case["consumer"])
        worker.write_canaries(1)
        if resp2["results"] != resp["results"] or resp2["outcome"] != resp["outcome"]:
            fails.append(("host-dependent-result", "the same archive gives different results when the host directory content changes"))
    return fails, resp


def evaluate(ctx: Ctx, case, worker: Worker, part: Partial | None = None):
    validate(case)
    fails, resp = judge(case, worker)
    hostile = any(escapes(e["name"]) for e in case["entries"]) or any(e["k"] in ("symlink", "hardlink", "chr", "blk", "fifo", "nostream") for e in case["entries"])
    if part is not None:
        part.case(digest(case), hostile, sample={"kind": case["kind"], "consumer": case["consumer"], "names": [e["name"][:40] for e in case["entries"]], "outcome": resp["outcome"], "fs_events": resp["n_events"]} if part.evaluations % 41 == 0 else None,
                  kind=case["kind"], consumer=case["consumer"]["kind"], outcome=resp["outcome"].split(":")[0], results=min(len(resp["results"]), 3))
    if not fails:
        return []
    c, d = fails[0]
    sig = f"C09:{case['kind'].split('.')[0]}:{c}"
    known = [k for k in ctx.known if k.get("status") == "open" and k.get("signature") == sig]
    if known:
        # attribution: the same archive without the hostile entries must be clean
        import copy
        n = copy.deepcopy(case)
        n["entries"] = [e for e in n["entries"] if not escapes(e["name"]) and e["k"] in ("file", "dir", "empty")] or [{"k": "file", "name": "ok.txt", "text": "member text ZBM0000\n"}]
        if not judge(n, worker)[0]:
            part.known_hits[known[0]["id"]] += 1
            return []
    return [Violation(c, sig, f"[{case['kind']} consumer={case['consumer']}] {d}; all: {[x for x, _ in fails]}; names={[e['name'][:50] for e in case['entries']]}", {"kind": "archive", "format": case["kind"], "model": case})]


def curated_cases(kind: str):
    """every hostile name on its own between two ordinary members (in a drawn archive several hostile names usually sit together, and the first one that makes the reader give up hides the others)"""
    out = []
    for i, name in enumerate(HOSTILE_NAMES):
        ents = [{"k": "file", "name": "docs/readme.md", "text": "member text ZBM9001\n"}, {"k": "file", "name": "a/x.txt", "text": "member text ZBM9002\n"},
                {"k": "file", "name": name, "text": f"member text ZBM{9100 + i}\n"}, {"k": "file", "name": "data/table.csv", "text": "member text ZBM9003\n"}]
        case = {"kind": kind, "entries": ents, "consumer": {"kind": "exhaust"}}
        if kind == "7z":
            case["sz"] = {"method": "copy", "layout": "per-file" if i % 2 else "solid", "encode_header": False}
        out.append(case)
    # every skipped member after a visible member of the same base name (a skip rule must look at the whole member path)
    for i, (name, cls) in enumerate(SKIPPED):
        twin = "visible/" + name.rsplit("/", 1)[-1]
        ents = [{"k": "file", "name": twin, "text": f"member text ZBM{9300 + i}\n"}, {"k": "file", "name": name, "text": f"member text ZXM{9400 + i}\n", "skipped": cls},
                {"k": "file", "name": "data/table.csv", "text": "member text ZBM9003\n"}]
        if twin.rsplit("/", 1)[-1].startswith(".") or cls in ("nested", "unsupported"):
            continue        # the base name alone already decides for these
        case = {"kind": kind, "entries": ents, "consumer": {"kind": "exhaust"}}
        if kind == "7z":
            case["sz"] = {"method": "copy", "layout": "solid", "encode_header": False}
        out.append(case)
    return out


def shard(ctx: Ctx, kind: str):
    part = Partial()
    worker = Worker()
    try:
        for case in curated_cases(kind):
            part.violations += evaluate(ctx, case, worker, part)
        part.exhaustive[f"{kind}: every hostile name alone between ordinary members; directory-skipped members after a visible twin"] = len(curated_cases(kind))
        hyp_search(ctx, f"c09-{kind}", cases(kind), lambda c: evaluate(ctx, c, worker, part), ctx.n(160, 3000), part)
    finally:
        worker.close()
    return part


def run(ctx: Ctx) -> Partial:
    kinds = [k for k in KINDS if not os.environ.get("VF_FORMATS") or k in os.environ["VF_FORMATS"].split(",")]
    return shard_map(ctx, "vf.props.c09", "shard", len(kinds), extra_per_shard=[[k] for k in kinds])


def replay(ctx: Ctx, payload: dict):
    worker = Worker()
    try:
        return evaluate(ctx, payload["model"], worker, Partial())
    finally:
        worker.close()
