"""C02 — Main-text fidelity: nothing lost, duplicated, merged or leaked."""
from __future__ import annotations

import io
import re

from vf.gen import model, neutral
from vf.gen.profiles import PROFILES
from vf.gen.tokens import TOKEN_RE, check_sequence, separated
from vf.runner import Ctx, Partial, Violation, digest, hyp_search, shard_map

RULE = ("abstract documents (paragraphs with multi-run text, tabs, line breaks, hyperlinks, tracked insertions/deletions, comments, notes, fields, content controls, headings, "
        "nested lists, tables incl. multi-paragraph / nested / empty cells, text boxes, groups, headers/footers, speaker notes) whose every text leaf is a unique class-tagged "
        "token, rendered by the harness's own writers to each format and extracted with the library. Oracle on get_full_text() (+ tables where documented): every body token "
        "exactly once, in source order, separated by whitespace across paragraph/cell/break/tab boundaries; no excluded-class token; no alphanumeric residue beyond declared "
        "decoration. Failures attributable to a listed known finding (by neutralising its feature in the model and re-judging) are counted, not reported. "
        "Non-trivial = >=2 body tokens and >=1 construct beyond plain paragraphs; distinct by (format, model digest).")
ASSUMPTIONS = ["the harness's writers follow the format specifications (each output is self-checked for well-formedness)", "tokens are ASCII alphanumerics; only tokens are judged"]


def extract(fmt, data: bytes):
    from sharepoint2text.parsing.router import get_extractor
    ext = PROFILES[fmt]["ext"]
    return list(get_extractor("x." + ext)(io.BytesIO(data), "x." + ext))


def judge(doc, fmt, render_kw=None):
    prof = PROFILES[fmt]
    data = prof["render"](doc, **(render_kw or {}))
    try:
        results = extract(fmt, data)
        text = "\n".join(r.get_full_text() for r in results)
        tab_text = "\n".join(" ".join(" ".join(str(c) for c in row) for row in t.get_table()) for r in results for t in r.iterate_tables())
    except Exception as e:  # noqa
        return [("raised", f"{type(e).__name__}: {e}")]
    e = model.expect(doc, prof)
    fails = check_sequence(e.body, text)
    leaked = [t for t in e.forbidden if t in text]
    for a, b in sorted(e.hard_sep):
        if prof.get("sep_any"):
            # plain-text family: the file's own separator characters (comma, quote, bracket ...) are returned verbatim
            i, j = text.find(a), text.find(b)
            ok = i < 0 or j < i or j > i + len(a)
        else:
            ok = separated(text, a, b)
        if not ok:
            fails.append(("separation", f"{a} and {b} are separated by a paragraph/cell/break/tab boundary in the source but adjacent in the output"))
            break
    if e.table_only:
        fails += [("table-" + c, d) for c, d in check_sequence(e.table_only, tab_text, forbid_x=False)]
    if not any(b["k"] == "math" for u in doc["units"] for b in model.walk_blocks(u["blocks"])):
        residue = TOKEN_RE.sub(" ", text)
        for w in sorted(e.allowed_words | set(prof.get("decoration", [])), key=len, reverse=True):
            residue = residue.replace(w, " ")
        if prof.get("residue_ignore"):
            residue = re.sub(prof["residue_ignore"], " ", residue)
        m = re.search(r"[A-Za-z0-9][A-Za-z0-9 ]*", residue)
        if m:
            fails.append(("invented", f"text that is neither source text nor documented decoration: {m.group(0)[:60]!r}"))
    return fails


def _opt_feats(render_kw):
    return {"opt." + k for k, v in ((render_kw or {}).get("opts") or {}).items() if v}


def _neutralise(doc, render_kw, feature):
    if feature.startswith("opt."):
        kw = dict(render_kw or {})
        kw["opts"] = {k: v for k, v in (kw.get("opts") or {}).items() if k != feature[4:]}
        return doc, kw
    return neutral.neutralise(doc, feature), render_kw


def evaluate(ctx: Ctx, doc, fmt, part: Partial | None = None, render_kw=None):
    model.validate(doc)
    feats = model.features(doc) | _opt_feats(render_kw)
    fails = judge(doc, fmt, render_kw)
    e_body = sum(len(x) for x in model.expect(doc, PROFILES[fmt]).per_unit)
    if part is not None:
        nontrivial = e_body >= 2 and bool(feats - {"run.multi"})
        part.case(digest([fmt, doc, render_kw]), nontrivial, sample={"format": fmt, "features": sorted(feats)} if part.evaluations % 53 == 0 else None, fmt=fmt)
        for f in feats:
            part.hist[f"{fmt}:{f}"] += 1
    if not fails:
        return []
    clauses = {c for c, _ in fails}
    known = [k for k in ctx.known if k.get("status") == "open" and k.get("format") == fmt and set(k.get("feature", "").split("+")) <= feats]
    if known:
        ndoc, nkw = doc, render_kw
        for k in known:
            for f in k["feature"].split("+")[-1:]:  # for combined features the last one is the one neutralised
                ndoc, nkw = _neutralise(ndoc, nkw, f)
        nfails = judge(ndoc, fmt, nkw)
        allowed = set().union(*[set(k.get("clauses", [])) for k in known])
        if not nfails and clauses <= allowed:
            if part is not None:
                for k in known:
                    part.known_hits[k["id"]] += 1
            return []
        if nfails:
            doc, render_kw, fails = ndoc, nkw, nfails
    c, d = fails[0]
    return [Violation(c, f"C02:{fmt}:{c}", f"[{fmt}] {d}; all failing clauses: {sorted({x for x, _ in fails})}; features: {sorted(model.features(doc) | _opt_feats(render_kw))}",
                      {"kind": "model", "format": fmt, "model": doc, "render_kw": render_kw or {}})]


import os  # noqa: E402

FORMATS = [f for f in sorted(PROFILES) if not os.environ.get("VF_FORMATS") or f in os.environ["VF_FORMATS"].split(",")]


def shard(ctx: Ctx, fmt: str):
    part = Partial()
    prof = PROFILES[fmt]
    n = ctx.n(400, 6000)
    from hypothesis import strategies as st
    optst = st.fixed_dictionaries({k: st.sampled_from(v) for k, v in prof.get("opts", {}).items()})
    cases = st.tuples(model.documents(prof), optst).map(lambda t: {"doc": t[0], "opts": t[1]})

    def ev(case):
        return evaluate(ctx, case["doc"], fmt, part, {"opts": case["opts"]} if case.get("opts") else None)
    hyp_search(ctx, f"c02-{fmt}", cases, ev, n, part)
    return part


def known_replays(ctx: Ctx, part: Partial):
    import json, os
    from vf.runner import HERE
    for k in ctx.known:
        if k.get("status") != "open":
            continue
        p = os.path.join(HERE, k.get("replay", ""))
        if not os.path.isfile(p):
            continue
        payload = json.load(open(p))
        fails = judge(payload["model"], payload["format"], payload.get("render_kw"))
        part.case(digest(payload["model"]), True, replayed_known=True)
        if fails and {c for c, _ in fails} <= set(k.get("clauses", [])):
            part.known_hits[k["id"]] += 1
        elif fails:
            c, d = fails[0]
            part.violations.append(Violation(c, f"C02:{payload['format']}:{c}", f"known-finding reproducer {k['id']} now fails differently: {fails}", payload))


# ---- spreadsheets: the main text of a workbook is its cell text, sheet by sheet, row by row ------------------------------------------
def judge_grid_text(grid, fmt):
    import io
    from sharepoint2text.parsing.router import get_extractor
    from vf.gen import sheets
    from vf.gen.tokens import check_sequence
    fn = {"xlsx": sheets.render_xlsx, "ods": sheets.render_ods, "xls": sheets.render_xls}[fmt]
    try:
        res = list(get_extractor("x." + fmt)(io.BytesIO(fn(grid)), "x." + fmt))
        text = "\n".join(r.get_full_text() for r in res)
    except Exception as e:  # noqa
        return [("raised", f"{type(e).__name__}: {e}")]
    want = [c["v"] for sh in grid["sheets"] for row in sh["rows"] for c in row if c and isinstance(c["v"], str) and c["v"][:2] == "ZB"]
    return check_sequence(want, text)


def grid_shard(ctx: Ctx, fmt: str):
    from vf.gen import sheets
    part = Partial()

    def ev(grid):
        sheets.validate(grid)
        fails = judge_grid_text(grid, fmt)
        ncell = sum(1 for sh in grid["sheets"] for row in sh["rows"] for c in row if c)
        part.case(digest([fmt, grid]), ncell >= 4 and (len(grid["sheets"]) >= 2 or any(c is None for sh in grid["sheets"] for row in sh["rows"] for c in row)),
                  sample={"format": fmt, "sheets": [[len(s["rows"]), len(s["rows"][0]) if s["rows"] else 0] for s in grid["sheets"]]} if part.evaluations % 41 == 0 else None, fmt=fmt, leg="grid")
        return [Violation(c, f"C02:{fmt}:{c}", f"[{fmt} grid] {d}", {"kind": "grid", "format": fmt, "model": grid}) for c, d in fails[:1]]
    # plain string headers: the header conventions of xlsx/xls tables (C13's listed findings) are about get_table(), not about the text
    hyp_search(ctx, f"c02-grid-{fmt}", sheets.grids(fmt, headers="plain"), ev, ctx.n(300, 5000), part)
    return part


def run(ctx: Ctx) -> Partial:
    part = Partial()
    known_replays(ctx, part)
    part.merge(shard_map(ctx, "vf.props.c02", "shard", len(FORMATS), extra_per_shard=[[f] for f in FORMATS]))
    if not os.environ.get("VF_FORMATS"):
        part.merge(shard_map(ctx, "vf.props.c02", "grid_shard", 3, extra_per_shard=[["xlsx"], ["ods"], ["xls"]]))
    return part


def replay(ctx: Ctx, payload: dict):
    if payload.get("kind") == "grid":
        return [Violation(c, f"C02:{payload['format']}:{c}", f"[{payload['format']} grid] {d}", payload) for c, d in judge_grid_text(payload["model"], payload["format"])[:1]]
    return evaluate(ctx, payload["model"], payload["format"], None, payload.get("render_kw"))
