"""C02 — Main-text fidelity: nothing lost, duplicated, merged or leaked."""
from __future__ import annotations

import io
import re

from vf.gen import model, neutral
from vf.gen.profiles import PROFILES
from vf.gen.tokens import TOKEN_RE, check_sequence, separated
from vf.runner import Ctx, Partial, Violation, digest, hyp_search, shard_map

RULE = ("abstract documents (paragraphs with multi-run text, tabs, line breaks, hyperlinks, tracked insertions/deletions, comments, notes, fields, content controls, headings, "
        "nested lists, tables incl. multi-paragraph / nested / empty cells, text boxes, groups, headers/footers, speaker notes) whose every text leaf is a unique class-tagged "
        "token, rendered by the harness's own writers to each format and extracted with the library. Oracle on get_full_text() (+ tables where documented): every body token "
        "exactly once, in source order, separated by whitespace across paragraph/cell/break/tab boundaries; no excluded-class token; no alphanumeric residue beyond declared "
        "decoration. Failures attributable to a listed known finding (by neutralising its feature in the model and re-judging) are counted, not reported. "
        "Character leg (all formats with a declared encoding): each body token is followed in its run by 1-3 letters/symbols from Latin-1, Greek, Cyrillic, CJK below and above U+8000, Hangul and two supplementary-plane blocks; the output must carry the same characters right after the token. "
        "Non-trivial = >=2 body tokens and >=1 construct beyond plain paragraphs; distinct by (format, model digest).")
ASSUMPTIONS = ["the harness's writers follow the format specifications (each output is self-checked for well-formedness)", "tokens are ASCII alphanumerics; the token legs judge only tokens, the character leg the NFKC-stable letters and symbols that follow them"]


def extract(fmt, data: bytes):
    from sharepoint2text.parsing.router import get_extractor
    ext = PROFILES[fmt]["ext"]
    return list(get_extractor("x." + ext)(io.BytesIO(data), "x." + ext))


def judge(doc, fmt, render_kw=None):
    prof = PROFILES[fmt]
    data = prof["render"](doc, **(render_kw or {}))
    try:
        results = extract(fmt, data)
        text = "\n".join(r.get_full_text() for r in results)
        tab_text = "\n".join(" ".join(" ".join(str(c) for c in row) for row in t.get_table()) for r in results for t in r.iterate_tables())
    except Exception as e:  # noqa
        return [("raised", f"{type(e).__name__}: {e}")]
    e = model.expect(doc, prof)
    fails = check_sequence(e.body, text)
    leaked = [t for t in e.forbidden if t in text]
    for a, b in sorted(e.hard_sep):
        if prof.get("sep_any"):
            # plain-text family: the file's own separator characters (comma, quote, bracket ...) are returned verbatim
            i, j = text.find(a), text.find(b)
            ok = i < 0 or j < i or j > i + len(a)
        else:
            ok = separated(text, a, b)
        if not ok:
            fails.append(("separation", f"{a} and {b} are separated by a paragraph/cell/break/tab boundary in the source but adjacent in the output"))
            break
    if ((render_kw or {}).get("opts") or {}).get("run_space"):
        for a, b in sorted(model.run_pairs(doc)):
            for where in (text, tab_text):
                if a in where and b in where and where.find(b) > where.find(a) and not separated(where, a, b):
                    fails.append(("separation", f"{a} and {b} are separated by a blank in the source paragraph but adjacent in the output"))
                    break
            else:
                continue
            break
    if e.table_only:
        fails += [("table-" + c, d) for c, d in check_sequence(e.table_only, tab_text, forbid_x=False)]
    if not any(b["k"] == "math" for u in doc["units"] for b in model.walk_blocks(u["blocks"])):
        residue = TOKEN_RE.sub(" ", text)
        for w in sorted(e.allowed_words | set(prof.get("decoration", [])), key=len, reverse=True):
            residue = residue.replace(w, " ")
        if prof.get("residue_ignore"):
            residue = re.sub(prof["residue_ignore"], " ", residue)
        m = re.search(r"[A-Za-z0-9][A-Za-z0-9 ]*", residue)
        if m:
            fails.append(("invented", f"text that is neither source text nor documented decoration: {m.group(0)[:60]!r}"))
    return fails


def _opt_feats(render_kw):
    return {"opt." + k for k, v in ((render_kw or {}).get("opts") or {}).items() if v}


def _neutralise(doc, render_kw, feature):
    if feature.startswith("opt."):
        kw = dict(render_kw or {})
        kw["opts"] = {k: v for k, v in (kw.get("opts") or {}).items() if k != feature[4:]}
        return doc, kw
    return neutral.neutralise(doc, feature), render_kw


def evaluate(ctx: Ctx, doc, fmt, part: Partial | None = None, render_kw=None):
    model.validate(doc)
    feats = model.features(doc) | _opt_feats(render_kw)
    fails = judge(doc, fmt, render_kw)
    e_body = sum(len(x) for x in model.expect(doc, PROFILES[fmt]).per_unit)
    if part is not None:
        nontrivial = e_body >= 2 and bool(feats - {"run.multi"})
        part.case(digest([fmt, doc, render_kw]), nontrivial, sample={"format": fmt, "features": sorted(feats)} if part.evaluations % 53 == 0 else None, fmt=fmt)
        for f in feats:
            part.hist[f"{fmt}:{f}"] += 1
    if not fails:
        return []
    clauses = {c for c, _ in fails}
    known = [k for k in ctx.known if k.get("status") == "open" and k.get("format") == fmt and set(k.get("feature", "").split("+")) <= feats]
    if known:
        ndoc, nkw = doc, render_kw
        for k in known:
            for f in k["feature"].split("+")[-1:]:  # for combined features the last one is the one neutralised
                ndoc, nkw = _neutralise(ndoc, nkw, f)
        nfails = judge(ndoc, fmt, nkw)
        allowed = set().union(*[set(k.get("clauses", [])) for k in known])
        if not nfails and clauses <= allowed:
            if part is not None:
                for k in known:
                    part.known_hits[k["id"]] += 1
            return []
        if nfails:
            doc, render_kw, fails = ndoc, nkw, nfails
    c, d = fails[0]
    return [Violation(c, f"C02:{fmt}:{c}", f"[{fmt}] {d}; all failing clauses: {sorted({x for x, _ in fails})}; features: {sorted(model.features(doc) | _opt_feats(render_kw))}",
                      {"kind": "model", "format": fmt, "model": doc, "render_kw": render_kw or {}})]


import os  # noqa: E402

FORMATS = [f for f in sorted(PROFILES) if not os.environ.get("VF_FORMATS") or f in os.environ["VF_FORMATS"].split(",")]


def shard(ctx: Ctx, fmt: str):
    part = Partial()
    prof = PROFILES[fmt]
    n = ctx.n(400, 6000)
    from hypothesis import strategies as st
    optst = st.fixed_dictionaries({k: st.sampled_from(v) for k, v in prof.get("opts", {}).items()})
    cases = st.tuples(model.documents(prof), optst).map(lambda t: {"doc": t[0], "opts": t[1]})

    def ev(case):
        return evaluate(ctx, case["doc"], fmt, part, {"opts": case["opts"]} if case.get("opts") else None)
    # deterministic part: feature-rich documents x every combination of the renderer's options
    fixed = 0
    for d in model.rich_sample(prof, 4, key=fmt):
        for combo in model.option_combos(prof):
            if len(part.violations) < 3:
                part.violations += [v for v in ev({"doc": d, "opts": {k: v for k, v in combo.items()}}) if v.signature not in {x.signature for x in part.violations}]
            fixed += 1
    part.exhaustive[f"{fmt}: 4 feature-rich documents x renderer option combinations"] = fixed
    hyp_search(ctx, f"c02-{fmt}", cases, ev, n, part)
    return part


def known_replays(ctx: Ctx, part: Partial):
    import json, os
    from vf.runner import HERE
    for k in ctx.known:
        if k.get("status") != "open":
            continue
        p = os.path.join(HERE, k.get("replay", ""))
        if not os.path.isfile(p):
            continue
        payload = json.load(open(p))
        fails = judge(payload["model"], payload["format"], payload.get("render_kw"))
        part.case(digest(payload["model"]), True, replayed_known=True)
        if fails and {c for c, _ in fails} <= set(k.get("clauses", [])):
            part.known_hits[k["id"]] += 1
        elif fails:
            c, d = fails[0]
            part.violations.append(Violation(c, f"C02:{payload['format']}:{c}", f"known-finding reproducer {k['id']} now fails differently: {fails}", payload))


# ---- spreadsheets: the main text of a workbook is its cell text, sheet by sheet, row by row ------------------------------------------
def judge_grid_text(grid, fmt):
    import io
    from sharepoint2text.parsing.router import get_extractor
    from vf.gen import sheets
    from vf.gen.tokens import check_sequence
    fn = {"xlsx": sheets.render_xlsx, "ods": sheets.render_ods, "xls": sheets.render_xls}[fmt]
    try:
        # every second ods grid carries cell comments (reported via sheet.annotations, not part of the sheet text)
        # ... and every second one keeps its rows in nested row groups (outline levels)
        kw = {"opts": {"comments": len(grid["sheets"][0]["rows"]) % 2 == 0, "row_groups": len(grid["sheets"][0]["rows"][0]) % 2 == 0}} if fmt == "ods" else {}
        res = list(get_extractor("x." + fmt)(io.BytesIO(fn(grid, **kw)), "x." + fmt))
        text = "\n".join(r.get_full_text() for r in res)
    except Exception as e:  # noqa
        return [("raised", f"{type(e).__name__}: {e}")]
    want = [c["v"] for sh in grid["sheets"] for row in sh["rows"] for c in row if c and isinstance(c["v"], str) and c["v"][:2] == "ZB"]
    return check_sequence(want, text)


def grid_shard(ctx: Ctx, fmt: str):
    from vf.gen import sheets
    part = Partial()

    def ev(grid):
        sheets.validate(grid)
        fails = judge_grid_text(grid, fmt)
        ncell = sum(1 for sh in grid["sheets"] for row in sh["rows"] for c in row if c)
        part.case(digest([fmt, grid]), ncell >= 4 and (len(grid["sheets"]) >= 2 or any(c is None for sh in grid["sheets"] for row in sh["rows"] for c in row)),
                  sample={"format": fmt, "sheets": [[len(s["rows"]), len(s["rows"][0]) if s["rows"] else 0] for s in grid["sheets"]]} if part.evaluations % 41 == 0 else None, fmt=fmt, leg="grid")
        return [Violation(c, f"C02:{fmt}:{c}", f"[{fmt} grid] {d}", {"kind": "grid", "format": fmt, "model": grid}) for c, d in fails[:1]]
    # plain string headers: the header conventions of xlsx/xls tables (C13's listed findings) are about get_table(), not about the text
    hyp_search(ctx, f"c02-grid-{fmt}", sheets.grids(fmt, headers="plain", single_row_ok=True), ev, ctx.n(300, 5000), part)
    return part


def run(ctx: Ctx) -> Partial:
    part = Partial()
    known_replays(ctx, part)
    part.merge(shard_map(ctx, "vf.props.c02", "shard", len(FORMATS), extra_per_shard=[[f] for f in FORMATS]))
    if not os.environ.get("VF_FORMATS"):
        part.merge(shard_map(ctx, "vf.props.c02", "grid_shard", 3, extra_per_shard=[["xlsx"], ["ods"], ["xls"]]))
        part.merge(shard_map(ctx, "vf.props.c02", "glyph_shard", len(GLYPH_FORMATS), extra_per_shard=[[f] for f in GLYPH_FORMATS]))
    return part


def replay(ctx: Ctx, payload: dict):
    if payload.get("kind") == "grid":
        return [Violation(c, f"C02:{payload['format']}:{c}", f"[{payload['format']} grid] {d}", payload) for c, d in judge_grid_text(payload["model"], payload["format"])[:1]]
    if payload.get("kind") == "glyph":
        fails, _ = judge_glyphs(payload["model"], payload["format"], payload["glyphs"], payload.get("render_kw") or None)
        return [Violation(c, f"C02:{payload['format']}:{c}", f"[{payload['format']}] {d}", payload) for c, d in fails[:1]]
    return evaluate(ctx, payload["model"], payload["format"], None, payload.get("render_kw"))


# ---- character leg: the characters of a text piece, not only its token, arrive unchanged ---------------------------------
GLYPH_RANGES = [(0xA1, 0xFF), (0x391, 0x3A9), (0x410, 0x44F), (0x4E00, 0x7FFF), (0x8000, 0x9FFF), (0xAC00, 0xD7A3), (0x1F600, 0x1F64F), (0x20000, 0x2A6DF)]


def _glyph_ok(ch: str) -> bool:
    import unicodedata
    return unicodedata.category(ch)[0] in "LS" and unicodedata.normalize("NFKC", ch) == ch


def glyphed(doc, glyphs: list[str]):
    """Copy of ``doc`` in which the i-th body text leaf is followed, inside the same run, by glyphs[i % len]; returns (doc, {token: suffix})."""
    import copy
    d = copy.deepcopy(doc)
    suffix = {}

    def visit(x):
        if isinstance(x, dict):
            if x.get("k") == "t" and isinstance(x.get("tok"), str) and re.fullmatch(r"ZB[0-9A-Z]{5}", x["tok"]):
                g = glyphs[len(suffix) % len(glyphs)]
                suffix[x["tok"]] = g
                x["tok"] = x["tok"] + g
            for v in x.values():
                visit(v)
        elif isinstance(x, list):
            for v in x:
                visit(v)
    visit(d["units"])
    return d, suffix


def judge_glyphs(doc, fmt, glyphs, render_kw=None):
    prof = PROFILES[fmt]
    gdoc, suffix = glyphed(doc, glyphs)
    data = prof["render"](gdoc, **(render_kw or {}))
    try:
        text = "\n".join(r.get_full_text() for r in extract(fmt, data))
    except Exception as e:  # noqa
        return [("raised", f"{type(e).__name__}: {e}")], 0
    fails, seen = [], 0
    for tok in model.expect(doc, prof).body:
        i = text.find(tok)
        if i < 0 or tok not in suffix:
            continue      # a missing token is the token leg's business
        seen += 1
        got = text[i + len(tok): i + len(tok) + len(suffix[tok])]
        if got != suffix[tok]:
            fails.append(("characters-changed", f"the source run is {tok}{suffix[tok]!r} ({[hex(ord(c)) for c in suffix[tok]]}); the output has {tok}{got!r} ({[hex(ord(c)) for c in got]})"))
            break
    return fails, seen


# txt/csv/md/json are left out: their encoding is guessed from content and the documentation says the guess is unreliable for short files
GLYPH_FORMATS = [f for f in os.environ.get("VF_GLYPH_FORMATS", "rtf,docx,odt,html,pptx,odp,xlsx,ods,epub,mhtml,eml").split(",") if f in FORMATS]


def glyph_shard(ctx: Ctx, fmt: str):
    from hypothesis import strategies as st
    part = Partial()
    prof = PROFILES[fmt]
    ch = st.one_of([st.integers(a, b).map(chr) for a, b in GLYPH_RANGES]).filter(_glyph_ok)
    optst = st.fixed_dictionaries({k: st.sampled_from(v) for k, v in prof.get("opts", {}).items()})
    cases = st.fixed_dictionaries({"doc": model.documents(prof), "opts": optst, "glyphs": st.lists(st.lists(ch, min_size=1, max_size=3).map("".join), min_size=1, max_size=6)})

    def ev(case):
        kw = {"opts": case["opts"]} if case.get("opts") else None
        fails, seen = judge_glyphs(case["doc"], fmt, case["glyphs"], kw)
        hi = any(ord(c) >= 0x8000 for g in case["glyphs"] for c in g)
        part.case(digest(["glyph", fmt, case]), seen >= 1 and hi, sample={"format": fmt, "glyphs": case["glyphs"], "leaves": seen} if part.evaluations % 41 == 0 else None, fmt="glyph-" + fmt)
        return [Violation(c, f"C02:{fmt}:{c}", f"[{fmt}] {d}", {"kind": "glyph", "format": fmt, "model": case["doc"], "glyphs": case["glyphs"], "render_kw": kw or {}}) for c, d in fails[:1]]
    hyp_search(ctx, f"c02-glyph-{fmt}", cases, ev, ctx.n(60, 1500), part)
    return part
