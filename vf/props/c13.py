"""C13 — Tables come back with their shape and every cell in place."""
from __future__ import annotations

import copy
import io
import os

from hypothesis import strategies as st

from vf.gen import model, neutral, sheets
from vf.gen.profiles import PROFILES
from vf.gen.tokens import find, separated
from vf.runner import Ctx, Partial, Violation, digest, hyp_search, shard_map

RULE = ("(A) abstract documents holding tables (1..4 x 1..4, multi-paragraph / empty / nested cells, adjacent tables, header rows, ragged rows where the format allows) rendered to docx, "
        "pptx, odt, odp, html, mhtml, epub, rtf: iterate_tables() must yield one grid per source table in source order whose cell (i,j) holds exactly the tokens of source cell (i,j). "
        "(B) spreadsheets (1..3 sheets, 1..6 x 1..5, typed values int/float/bool/date/datetime/time/duration/error/formula, empty cells, typed/empty header rows, offset origin) rendered "
        "to xlsx (raw OOXML with shared or inline strings, and openpyxl as a second writer), ods and xls (BIFF8 writer): each sheet's get_table() must equal the source grid from A1 "
        "by value, get_dim() must equal its shape, units must be one per sheet holding its tokens. Non-trivial = grid >= 2x2 with an empty or typed cell, or >= 2 tables, or nesting, or "
        "a non-plain header; distinct by (format, model digest).")
ASSUMPTIONS = ["cell comparison is by tokens for word-processing/presentation/HTML tables and by value for spreadsheets (ints for integral floats accepted, dates as ISO strings of the same instant)",
               "duration and error cells are only required to come back as some value (their form is not stated by the property)"]

DOC_FORMATS = ["docx", "pptx", "odt", "odp", "html", "mhtml", "epub", "rtf"]
SHEET_FORMATS = {"xlsx": sheets.render_xlsx, "xlsx-openpyxl": sheets.render_xlsx_openpyxl, "ods": sheets.render_ods, "xls": sheets.render_xls}


def extract(ext, data: bytes):
    from sharepoint2text.parsing.router import get_extractor
    return list(get_extractor("x." + ext)(io.BytesIO(data), "x." + ext))


# ---- (A) document tables --------------------------------------------------------------------------------------------
def source_tables(doc):
    """tables in order of table starts (nested after parent): list of rows of (own_tokens, has_nested)."""
    out = []

    def cell_tokens(cell):
        toks = []
        for b in cell["blocks"]:
            if b["k"] == "p":
                toks += [i["tok"] for i in model.walk_inlines(b["inl"]) if i["k"] == "t" and i["tok"][1] == "B"]
        return toks

    def visit(blocks):
        for b in blocks:
            if b["k"] == "tbl":
                out.append([[(cell_tokens(c), any(x["k"] == "tbl" for x in c["blocks"])) for c in row] for row in b["rows"]])
                for row in b["rows"]:
                    for c in row:
                        visit(c["blocks"])
            elif b["k"] == "box":
                visit(b["blocks"])
    for u in doc["units"]:
        visit(u["blocks"])
    return out


def judge_doc(doc, fmt, render_kw=None):
    prof = PROFILES[fmt]
    data = prof["render"](doc, **(render_kw or {}))
    try:
        results = extract(prof["ext"], data)
        got = [t for r in results for t in r.iterate_tables()]
        grids = [t.get_table() for t in got]
        dims = [t.get_dim() for t in got]
        unit_tables = [t.get_table() for r in results for u in r.iterate_units() for t in u.get_tables()]
    except Exception as e:  # noqa
        return [("raised", f"{type(e).__name__}: {e}")]
    want = source_tables(doc)
    fails = []
    for g, d in zip(grids, dims):
        shape = (len(g), max((len(r) for r in g), default=0))
        if (d.rows, d.columns) != shape:
            fails.append(("dim", f"get_dim()={(d.rows, d.columns)} but get_table() has shape {shape}"))
    if len(grids) != len(want):
        fails.append(("table-count", f"{len(grids)} tables returned for {len(want)} source tables"))
        return fails
    all_tokens = {t for tb in want for row in tb for toks, _ in row for t in toks}
    blank_pairs = model.run_pairs(doc) if ((render_kw or {}).get("opts") or {}).get("run_space") else set()
    for ti, (g, w) in enumerate(zip(grids, want)):
        if len(g) != len(w):
            fails.append(("shape", f"table {ti + 1}: {len(g)} rows returned, source has {len(w)}"))
            continue
        for ri, (grow, wrow) in enumerate(zip(g, w)):
            if len(grow) < len(wrow) or any(str(x or "").strip() for x in grow[len(wrow):]):
                fails.append(("shape", f"table {ti + 1} row {ri + 1}: {len(grow)} cells returned, source has {len(wrow)}"))
                break
            for ci, (toks, nested) in enumerate(wrow):
                cell = "" if grow[ci] is None else str(grow[ci])
                found = [t for t in find(cell) if t[1] == "B"]
                own = [t for t in found if t in set(toks)]
                foreign = [t for t in found if t not in set(toks)]
                if own != toks:
                    fails.append(("cell", f"table {ti + 1} cell ({ri + 1},{ci + 1}) holds {found}, source cell holds {toks}"))
                    break
                glued = next(((a, b) for a, b in zip(toks, toks[1:]) if (a, b) in blank_pairs and not separated(cell, a, b)), None)
                if glued:
                    fails.append(("cell", f"table {ti + 1} cell ({ri + 1},{ci + 1}): {glued[0]} and {glued[1]} are separated by a blank in the source cell but adjacent in {cell[:60]!r}"))
                    break
                if foreign and not nested:
                    fails.append(("cell", f"table {ti + 1} cell ({ri + 1},{ci + 1}) also holds tokens of other cells: {foreign[:3]}"))
                    break
                if foreign and nested and any(t in all_tokens and t in {x for r2 in w for tk, _ in r2 for x in tk} for t in foreign):
                    fails.append(("cell", f"table {ti + 1} cell ({ri + 1},{ci + 1}) holds tokens of sibling cells: {foreign[:3]}"))
                    break
            else:
                continue
            break
    n_units = sum(1 for r in results for _ in r.iterate_units())
    if PROFILES[fmt]["unit_kind"] in ("slide", "page", "chapter") and n_units and unit_tables != grids:
        fails.append(("unit-view", f"unit-level tables ({len(unit_tables)}) differ from document-level tables ({len(grids)})"))
    return fails


def table_docs(prof):
    """documents biased towards tables."""
    base = model.documents(prof, max_blocks=4, allow=set(prof["features"]) - {"container.sdt", "container.textbox", "container.group", "container.custom-shape", "container.section"})
    return base.filter(lambda d: any(b["k"] == "tbl" for u in d["units"] for b in model.walk_blocks(u["blocks"])))


def _opt_feats(render_kw):
    return {"opt." + k for k, v in ((render_kw or {}).get("opts") or {}).items() if v}


def _attribute(ctx, part, fails, judge_fn, obj, fmt, feats, neutralise_fn):
    """generic known-finding attribution: -> (attributed?, obj', fails')"""
    clauses = {c for c, _ in fails}
    known = [k for k in ctx.known if k.get("status") == "open" and k.get("format") == fmt and set(k.get("feature", "").split("+")) <= feats]
    if not known:
        return False, obj, fails
    nobj = obj
    for k in known:
        nobj = neutralise_fn(nobj, k["feature"].split("+")[-1])
    nfails = judge_fn(nobj)
    allowed = set().union(*[set(k.get("clauses", [])) for k in known])
    if not nfails and clauses <= allowed:
        if part is not None:
            for k in known:
                part.known_hits[k["id"]] += 1
        return True, obj, fails
    if nfails:
        return False, nobj, nfails
    return False, obj, fails


def evaluate_doc(ctx: Ctx, doc, fmt, part: Partial | None = None, render_kw=None):
    model.validate(doc)
    feats = model.features(doc) | _opt_feats(render_kw)
    src = source_tables(doc)
    if len(src) >= 2:
        feats.add("table.multiple")
    fails = judge_doc(doc, fmt, render_kw)
    if part is not None:
        nt = len(src) >= 2 or "table.nested" in feats or any(len(t) >= 2 and len(t[0]) >= 2 for t in src) and ("table.empty-cell" in feats or "table.multi-para-cell" in feats)
        part.case(digest([fmt, doc, render_kw]), nt, sample={"format": fmt, "tables": [[len(t), len(t[0])] for t in src], "features": sorted(feats)} if part.evaluations % 47 == 0 else None, fmt=fmt,
                  nested="table.nested" in feats, multiple=len(src) >= 2)
    if not fails:
        return []

    def nfn(d, f):
        if f == "table.multiple":
            d = copy.deepcopy(d)
            seen = [False]

            def bfn(b):
                if b["k"] == "tbl":
                    if seen[0]:
                        return None
                    seen[0] = True
                return b
            for u in d["units"]:
                u["blocks"] = neutral._map_blocks(u["blocks"], bfn, lambda i: i)
            if not any(u["blocks"] for u in d["units"]):
                return d
            return d
        return neutral.neutralise(d, f)
    ok, doc2, fails2 = _attribute(ctx, part, fails, lambda d: judge_doc(d, fmt, render_kw), doc, fmt, feats, nfn)
    if ok:
        return []
    c, d = fails2[0]
    return [Violation(c, f"C13:{fmt}:{c}", f"[{fmt}] {d}; failing clauses {sorted({x for x, _ in fails2})}; features {sorted(model.features(doc2))}",
                      {"kind": "model", "format": fmt, "model": doc2, "render_kw": render_kw or {}})]


# ---- (B) spreadsheets ---------------------------------------------------------------------------------------------------
def judge_grid(grid, fmt, opts=None):
    ext = {"xlsx-openpyxl": "xlsx"}.get(fmt, fmt)
    try:
        data = SHEET_FORMATS[fmt](grid, opts=opts)
        results = extract(ext, data)
        r = results[0]
        tables = list(r.iterate_tables())
        units = list(r.iterate_units())
    except Exception as e:  # noqa
        return [("raised", f"{type(e).__name__}: {e}")]
    fails = []
    if len(tables) != len(grid["sheets"]):
        return [("table-count", f"{len(tables)} tables for {len(grid['sheets'])} sheets")]
    if len(units) != len(grid["sheets"]) or [u.get_metadata().unit_number for u in units] != list(range(1, len(units) + 1)):
        fails.append(("units", f"{len(units)} units numbered {[u.get_metadata().unit_number for u in units]} for {len(grid['sheets'])} sheets"))
    for si, (sh, t) in enumerate(zip(grid["sheets"], tables)):
        if si < len(units):     # unit coverage is judged whatever the table shape is (rows lost from the table are usually lost from the unit too)
            utoks = set(find(units[si].get_text()))
            stoks = {c["v"] for row in sh["rows"] for c in row if c and c["t"] == "s" and c["v"][1] == "B"}
            others = {c["v"] for j, s2 in enumerate(grid["sheets"]) if j != si for row in s2["rows"] for c in row if c and c["t"] == "s"}
            if not stoks <= utoks or utoks & others:
                fails.append(("units", f"unit {si + 1} text lacks {sorted(stoks - utoks)[:3]} / holds foreign {sorted(utoks & others)[:3]}"))
        want = sheets.expected_grid(sh)
        got = t.get_table()
        d = t.get_dim()
        shape = (len(got), max((len(r) for r in got), default=0))
        if (d.rows, d.columns) != shape:
            fails.append(("dim", f"sheet {si + 1}: get_dim()={(d.rows, d.columns)} but get_table() has shape {shape}"))
        wshape = (len(want), max((len(r) for r in want), default=0))
        if shape != wshape:
            fails.append(("shape", f"sheet {si + 1} {sh['name']!r}: table shape {shape}, source used range {wshape}"))
            continue
        for ri, (grow, wrow) in enumerate(zip(got, want)):
            bad = next((ci for ci, wc in enumerate(wrow) if not sheets.cell_matches(wc, grow[ci] if ci < len(grow) else None)), None)
            if bad is not None:
                fails.append(("cell", f"sheet {si + 1} cell ({ri + 1},{bad + 1}): got {grow[bad] if bad < len(grow) else None!r}, source {wrow[bad]}"))
                break
    return fails


def _neutralise_grid(grid, feature):
    g = copy.deepcopy(grid)
    import json as _json
    import re as _re
    n = [max([int(x) for x in _re.findall(r"ZM0H(\d{3})", _json.dumps(grid))] + [0])]  # keep filler strings unique across successive neutralisations

    def fill():
        n[0] += 1
        return {"t": "s", "v": f"ZM0H{n[0]:03d}"}
    for sh in g["sheets"]:
        if feature == "grid.offset":
            sh["origin"] = [0, 0]
        elif feature == "grid.header.empty":
            sh["rows"][0] = [c if c is not None else fill() for c in sh["rows"][0]]
        elif feature == "grid.header.typed":
            sh["rows"][0] = [c if (c is None or c["t"] == "s") else fill() for c in sh["rows"][0]]
        elif feature == "grid.first-row-single-cell":
            if sum(1 for c in sh["rows"][0] if c is not None) == 1 and len(sh["rows"][0]) > 1:
                sh["rows"][0] = [c if c is not None else fill() for c in sh["rows"][0]]
        elif feature == "grid.single-row":
            if len(sh["rows"]) == 1:
                sh["rows"].append([fill() for _ in sh["rows"][0]])
        elif feature.startswith("grid.typed."):
            t = feature.split(".")[-1]
            sh["rows"] = [[(fill() if (c is not None and c["t"] == t) else c) for c in row] for row in sh["rows"]]
        elif feature == "grid.empty-cell":
            sh["rows"] = [[c if c is not None else fill() for c in row] for row in sh["rows"]]
        elif feature == "table.header-rows":
            sh["hdr_rows"] = 0
        elif feature == "grid.gap>100":
            keep_cols = [j for j in range(len(sh["rows"][0])) if any(row[j] is not None for row in sh["rows"])]
            sh["rows"] = [[row[j] for j in keep_cols] for row in sh["rows"] if any(c is not None for c in row)]
        elif feature == "unit.multi":
            pass
    if feature == "unit.multi":
        g["sheets"] = g["sheets"][:1]
    return g


def _undocumented_header_deviation(grid, fmt, opts):
    if not fmt.startswith("xlsx"):
        return None
    try:
        tables = list(extract("xlsx", SHEET_FORMATS[fmt](grid, opts=opts))[0].iterate_tables())
    except Exception:  # noqa
        return None
    for si, (sh, t) in enumerate(zip(grid["sheets"], tables)):
        want, got = sheets.expected_grid(sh), t.get_table()
        if not want or not got or len(got[0]) != len(want[0]):
            continue
        for ci, wc in enumerate(want[0]):
            g = got[0][ci]
            if wc is not None and wc.get("v") not in (None, "") and isinstance(g, str) and g.startswith("Unnamed:"):
                return f"sheet {si + 1} header cell (1,{ci + 1}) holds {wc} but comes back as {g!r} (the listed findings only cover empty header cells and str() of typed ones)"
    return None


def evaluate_grid(ctx: Ctx, grid, fmt, part: Partial | None = None, opts=None):
    sheets.validate(grid)
    feats = sheets.grid_features(grid) | {"opt." + k for k, v in (opts or {}).items() if v}
    fails = judge_grid(grid, fmt, opts)
    if part is not None:
        nt = any(len(sh["rows"]) >= 2 and len(sh["rows"][0]) >= 2 for sh in grid["sheets"]) and bool(feats & {"grid.empty-cell"} or any(f.startswith("grid.typed") for f in feats)) or bool(feats & {"grid.header.empty", "grid.header.typed", "grid.offset"})
        part.case(digest([fmt, grid, opts]), nt, sample={"format": fmt, "sheets": [[len(s["rows"]), len(s["rows"][0])] for s in grid["sheets"]], "features": sorted(feats)} if part.evaluations % 47 == 0 else None, fmt=fmt)
        for f in feats:
            part.hist[f"{fmt}:{f}"] += 1
    if not fails:
        return []
    base_fmt = fmt
    ok, grid2, fails2 = _attribute(ctx, part, fails, lambda g: judge_grid(g, fmt, opts), grid, base_fmt, feats, _neutralise_grid)
    if ok:
        # the listed header findings are specific transformations (value -> str(value); EMPTY header cell -> 'Unnamed: N'); a header cell
        # that has a value and still comes back as 'Unnamed: N' is a different defect and is not covered by them
        odd = _undocumented_header_deviation(grid, fmt, opts)
        if not odd:
            return []
        return [Violation("cell", f"C13:{fmt}:cell", f"[{fmt}] {odd}; features {sorted(feats)}", {"kind": "grid", "format": fmt, "model": grid, "opts": opts or {}})]
    c, d = fails2[0]
    return [Violation(c, f"C13:{fmt}:{c}", f"[{fmt}] {d}; failing clauses {sorted({x for x, _ in fails2})}; features {sorted(sheets.grid_features(grid2))}",
                      {"kind": "grid", "format": fmt, "model": grid2, "opts": opts or {}})]


# ---- shards ---------------------------------------------------------------------------------------------------------------
ALL = DOC_FORMATS + list(SHEET_FORMATS)
FORMATS = [f for f in ALL if not os.environ.get("VF_FORMATS") or f in os.environ["VF_FORMATS"].split(",")]


def shard(ctx: Ctx, fmt: str):
    part = Partial()
    if fmt in SHEET_FORMATS:
        n = ctx.n(300, 5000)
        optst = st.fixed_dictionaries({"inline_strings": st.booleans(), "permute_parts": st.booleans()}) if fmt == "xlsx" else (st.fixed_dictionaries({"rle": st.booleans(), "comments": st.booleans(), "row_groups": st.booleans()}) if fmt == "ods" else st.just({}))

        def dupify(t):
            """copy some cells onto their right / lower neighbour: real sheets are full of equal neighbouring values"""
            g, picks = copy.deepcopy(t[0]), t[1]
            for si, r, c, down in picks:
                rows = g["sheets"][si % len(g["sheets"])]["rows"]
                if not rows:
                    continue
                row = rows[r % len(rows)]
                if not row:
                    continue
                cell = row[c % len(row)]
                if cell is None or (cell["t"] == "s" and cell["v"][:2] == "ZB"):
                    continue            # body tokens stay unique (the unit-text clause counts them)
                if down and (r % len(rows)) + 1 < len(rows) and (c % len(row)) < len(rows[(r % len(rows)) + 1]):
                    rows[(r % len(rows)) + 1][c % len(row)] = copy.deepcopy(cell)
                elif (c % len(row)) + 1 < len(row):
                    row[(c % len(row)) + 1] = copy.deepcopy(cell)
            return g
        picks = st.lists(st.tuples(st.integers(0, 3), st.integers(0, 9), st.integers(0, 9), st.booleans()), max_size=4)
        cases = st.tuples(st.tuples(sheets.grids(fmt, headers="any"), picks).map(dupify), optst).map(lambda t: {"grid": t[0], "opts": t[1]})
        # deterministic part: the largest sampled grids x every combination of the writer's options
        import itertools
        okeys = {"xlsx": {"inline_strings": [False, True], "permute_parts": [False, True]}, "ods": {"rle": [False, True], "comments": [False, True], "row_groups": [False, True]}}.get(fmt, {})
        combos = [dict(zip(sorted(okeys), c)) for c in itertools.product(*[okeys[k] for k in sorted(okeys)])] if okeys else [{}]
        fixed = 0
        for g in model.rich_sample({"ext": fmt}, 4, key="c13-grid-" + fmt, strategy=sheets.grids(fmt, headers="plain", max_r=5, max_c=4).map(lambda g: dict(g, units=[]))):
            g = {k: v for k, v in g.items() if k != "units"}
            for combo in combos:
                if len(part.violations) < 3:
                    part.violations += [v for v in evaluate_grid(ctx, g, fmt, part, combo) if v.signature not in {x.signature for x in part.violations}]
                fixed += 1
        part.exhaustive[f"{fmt}: 4 sampled grids x writer option combinations"] = fixed
        hyp_search(ctx, f"c13-{fmt}", cases, lambda c: evaluate_grid(ctx, c["grid"], fmt, part, c["opts"]), n, part)
        cases2 = sheets.grids(fmt, headers="plain").map(lambda g: {"grid": g, "opts": {}})
        hyp_search(ctx, f"c13-{fmt}-plain", cases2, lambda c: evaluate_grid(ctx, c["grid"], fmt, part, c["opts"]), n // 2, part)
    else:
        prof = PROFILES[fmt]
        n = ctx.n(200, 4000)
        optst = st.fixed_dictionaries({k: st.sampled_from(v) for k, v in prof.get("opts", {}).items()})
        cases = st.tuples(table_docs(prof), optst).map(lambda t: {"doc": t[0], "opts": t[1]})
        # deterministic part: table-rich documents x every combination of the renderer's options
        fixed = 0
        for d in model.rich_sample(prof, 4, key="c13-" + fmt, strategy=table_docs(prof)):
            for combo in model.option_combos(prof):
                if len(part.violations) < 3:
                    part.violations += [v for v in evaluate_doc(ctx, d, fmt, part, {"opts": combo} if combo else None) if v.signature not in {x.signature for x in part.violations}]
                fixed += 1
        part.exhaustive[f"{fmt}: 4 table-rich documents x renderer option combinations"] = fixed
        hyp_search(ctx, f"c13-{fmt}", cases, lambda c: evaluate_doc(ctx, c["doc"], fmt, part, {"opts": c["opts"]} if c.get("opts") else None), n, part)
    return part


def units_leg(ctx: Ctx) -> Partial:
    """used by C03: spreadsheet units (one per sheet, numbered, holding the sheet's tokens) are part of judge_grid."""
    part = Partial()
    for fmt in ("xlsx", "ods", "xls"):
        sub = Ctx("C13", ctx.tier, ctx.seed, [k for k in load_known_c13()], 0, 1)
        n = ctx.n(100, 1500)
        # the same storage options as the C13 shard: run-length rows, cell comments and (nested) row groups move rows into containers a unit must still cover
        optst = st.fixed_dictionaries({"inline_strings": st.booleans(), "permute_parts": st.booleans()}) if fmt == "xlsx" else (st.fixed_dictionaries({"rle": st.booleans(), "comments": st.booleans(), "row_groups": st.booleans()}) if fmt == "ods" else st.just({}))
        cases = st.tuples(sheets.grids(fmt, headers="plain", max_sheets=ctx.n(5, 12)), optst).map(lambda t: {"grid": t[0], "opts": t[1]})

        def ev(c, fmt=fmt):
            v = evaluate_grid(sub, c["grid"], fmt, part, c["opts"])
            return [Violation(x.clause, x.signature.replace("C13:", "C03:sheet:"), x.detail, x.replay) for x in v if x.clause in ("units", "table-count", "raised")]
        hyp_search(ctx, f"c03-sheets-{fmt}", cases, ev, n, part)
    return part


def load_known_c13():
    from vf.runner import load_known
    return load_known("C13")


def run(ctx: Ctx) -> Partial:
    return shard_map(ctx, "vf.props.c13", "shard", len(FORMATS), extra_per_shard=[[f] for f in FORMATS])


def replay(ctx: Ctx, payload: dict):
    if payload.get("kind") == "grid":
        return evaluate_grid(ctx, payload["model"], payload["format"], None, payload.get("opts"))
    return evaluate_doc(ctx, payload["model"], payload["format"], None, payload.get("render_kw"))
