"""C15 — Isolation: results independent of history and of concurrent work."""
from __future__ import annotations

import gc
import hashlib
import io
import itertools
import json
import os
import shutil
import sys
import tempfile
import threading
import time
import types

from hypothesis import strategies as st

from vf.props.c08 import in_fresh_fork
from vf.runner import REPO, Ctx, Partial, Violation, digest, hyp_search, shard_map

RULE = ("(a) Harness-owned schedules: pypdf._page's module class is swapped for a ModuleType subclass that turns every read/write of build_char_map by a controlled thread into a scheduling point; "
        "k threads each run the real _extract_text_with_spacing on a generated CID-font page whose digits only come out right while the patch is installed. The tree of scheduling choices is "
        "explored exhaustively for k=2 (stateless DFS by re-execution) and by Hypothesis-drawn choice sequences for k=3 and k=4. Oracle: every thread's text equals the single-threaded baseline and "
        "afterwards pypdf._page.build_char_map is the original function object. (b) Preemptive stress: 8 threads, switch interval 1 us, Hypothesis-drawn workloads over fixtures and generated "
        "documents of all formats incl. failing ones; every result digest must equal the fresh-process baseline (a mismatch must reproduce in two further rounds) and the global snapshot must be "
        "restored. (c) Histories: Hypothesis-drawn sequences of extractions (exhaust / abandon after the first result / close) over the same pool plus pairs built to share state (two PDFs embedding "
        "one font program with different null-mapped glyphs, AES PDFs of different revisions, truncated and encrypted inputs); after every step the digest equals the fresh-process baseline and the "
        "snapshot (identity of pypdf's char-map functions, archive configuration, mimetypes tables, private temp root, open fds, threads, recursion limit, cwd, environment, warnings filters) equals "
        "the initial one. Non-trivial = (a) a schedule in which accesses of different threads interleave; (b) >= 2 PDFs in flight; (c) a history with a failing step followed by a succeeding one or with "
        "both members of a state-sharing pair; distinct by schedule / workload digest.")
ASSUMPTIONS = ["one-way initialisations are allowed as long as results do not change: lazy type registry, lru_caches, AES round-key cache, the permanent AES patch of pypdf's fallback provider, module imports",
               "how deeply wrappers nest while several threads are inside the section is not judged, only results and the state after the last thread has left",
               "sub-check (b) is schedule-dependent (the OS owns the schedule); it reports a digest mismatch only if it reproduces in two further rounds"]

FIX = os.path.join(REPO, "sharepoint2text", "tests", "resources")
GRACE = 0.25          # a granted thread that reaches no scheduling point for this long is treated as blocked (e.g. on a lock)
TARGETS = ("build_char_map",)


# ---------------------------------------------------------------------------------------------------------------
# (a) controlled scheduler
# ---------------------------------------------------------------------------------------------------------------
_TL = threading.local()


class Sched:
    def __init__(self):
        self.cv = threading.Condition()
        self.state: dict[int, tuple] = {}
        self.grant = None
        self.trace: list[tuple[int, str]] = []

    def point(self, tid: int, kind: str):
        with self.cv:
            self.state[tid] = ("parked", kind)
            self.cv.notify_all()
            while self.grant != tid:
                self.cv.wait()
            self.grant = None
            self.state[tid] = ("running", kind)
            self.trace.append((tid, kind))
            self.cv.notify_all()

    def done(self, tid: int):
        with self.cv:
            self.state[tid] = ("done", "")
            self.cv.notify_all()

    def drive(self, choices: list[int], k: int):
        """-> (branching factors seen, deadlocked?)"""
        branching = []
        step = 0
        with self.cv:
            while True:
                # let whoever is running reach its next point (or block)
                deadline = time.time() + GRACE
                while (len(self.state) < k or any(s[0] == "running" for s in self.state.values())) and time.time() < deadline:
                    self.cv.wait(timeout=max(0.001, deadline - time.time()))
                parked = sorted(t for t, s in self.state.items() if s[0] == "parked")
                if not parked:
                    if all(s[0] == "done" for s in self.state.values()) and len(self.state) == k:
                        return branching, False
                    # running but not progressing and nobody to grant: wait longer, then call it a deadlock
                    hard = time.time() + 10
                    while not any(s[0] in ("parked",) for s in self.state.values()) and not all(s[0] == "done" for s in self.state.values()) and time.time() < hard:
                        self.cv.wait(timeout=0.05)
                    if time.time() >= hard:
                        return branching, True
                    continue
                c = choices[step] if step < len(choices) else 0
                branching.append(len(parked))
                tid = parked[c % len(parked)]
                step += 1
                self.grant = tid
                self.state[tid] = ("running", self.state[tid][1])
                self.cv.notify_all()


class _Proxy(types.ModuleType):
    def __getattribute__(self, name):
        if name in TARGETS:
            s = getattr(_TL, "sched", None)
            if s is not None:
                s.point(_TL.tid, "R")
        return types.ModuleType.__getattribute__(self, name)

    def __setattr__(self, name, value):
        if name in TARGETS:
            s = getattr(_TL, "sched", None)
            if s is not None:
                s.point(_TL.tid, "W")
        types.ModuleType.__setattr__(self, name, value)


def _install_proxy():
    import pypdf._page as pg
    if not isinstance(pg, _Proxy):
        pg.__class__ = _Proxy
    return pg


def _docs_for_threads(k: int):
    from vf.gen import cidpdf
    font, _ = cidpdf.digit_font()
    docs = []
    for i in range(k):
        a, b = 10 + (2 * i) % 10, 10 + (2 * i + 1) % 10
        docs.append((cidpdf.cid_pdf(font, [3, a, b, 4], {3: "A", 4: "B", a: None, b: None}), f"A{(2 * i) % 10}{(2 * i + 1) % 10}B"))
    return docs


def run_schedule(k: int, choices: list[int]):
    """-> dict(texts, restored, trace, branching, deadlock)"""
    from pypdf import PdfReader
    from sharepoint2text.parsing.extractors.pdf import pdf_extractor as px
    pg = _install_proxy()
    original = types.ModuleType.__getattribute__(pg, "build_char_map")
    docs = _docs_for_threads(k)
    pages = [PdfReader(io.BytesIO(raw)).pages[0] for raw, _ in docs]
    sched = Sched()
    texts: list = [None] * k

    def body(i):
        _TL.sched, _TL.tid = sched, i
        try:
            sched.point(i, "start")
            try:
                texts[i] = px._extract_text_with_spacing(pages[i])[0]
            except BaseException as e:  # noqa
                texts[i] = f"raised {type(e).__name__}: {e}"
        finally:
            _TL.sched = None
            sched.done(i)

    ths = [threading.Thread(target=body, args=(i,), daemon=True) for i in range(k)]
    for t in ths:
        t.start()
    branching, deadlock = sched.drive(choices, k)
    for t in ths:
        t.join(timeout=5)
    now = types.ModuleType.__getattribute__(pg, "build_char_map")
    restored = now is original
    if not restored:
        types.ModuleType.__setattr__(pg, "build_char_map", original)      # repair for the next run
        for name in ("_CHAR_MAP_PATCH_DEPTH",):
            if hasattr(px, name):
                setattr(px, name, 0)
        if hasattr(px, "_CHAR_MAP_PATCH_ORIGINALS"):
            px._CHAR_MAP_PATCH_ORIGINALS.clear()
    return {"texts": texts, "want": [w for _, w in docs], "restored": restored, "trace": sched.trace, "branching": branching, "deadlock": deadlock}


def judge_schedule(k: int, choices: list[int]):
    r = run_schedule(k, choices)
    fails = []
    tr = "".join(f"{t}{kind[0]}" for t, kind in r["trace"])
    if r["deadlock"]:
        fails.append(("deadlock", f"k={k} choices={choices}: threads stopped making progress; trace {tr}"))
    if not r["restored"]:
        fails.append(("patch-not-restored", f"k={k} choices={choices[:len(r['branching'])]}: after all threads left, pypdf._page.build_char_map is not the original function; trace {tr}"))
    for i, (got, want) in enumerate(zip(r["texts"], r["want"])):
        if got != want:
            fails.append(("result-differs", f"k={k} choices={choices[:len(r['branching'])]}: thread {i} extracted {got!r}, alone it extracts {want!r}; trace {tr}"))
            break
    tids = [t for t, kind in r["trace"] if kind != "start"]
    blocks = [g for g, _ in itertools.groupby(tids)]
    interleaved = len(blocks) > len(set(blocks))
    return fails, r, interleaved


def _viol_sched(k, choices, fails):
    return [Violation(c, f"C15:schedule:{c}", d, {"kind": "schedule", "k": k, "choices": choices}) for c, d in fails[:1]]


def exhaustive_k2(ctx: Ctx):
    """Stateless DFS over the choice tree for two threads."""
    part = Partial()
    stack = [[]]
    n = 0
    seen_traces = set()
    while stack:
        prefix = stack.pop()
        fails, r, inter = judge_schedule(2, prefix)
        n += 1
        tr = tuple(r["trace"])
        part.case(digest(["k2", tr]), inter, sample={"k": 2, "choices": prefix, "trace": "".join(f"{t}{kind[0]}" for t, kind in tr)} if n % 17 == 0 else None, k=2, interleaved=inter)
        part.violations += _viol_sched(2, prefix, fails)
        seen_traces.add(tr)
        # children: alternatives at every decision after the prefix
        for i in range(len(prefix), len(r["branching"])):
            for alt in range(1, r["branching"][i]):
                stack.append(prefix + [0] * (i - len(prefix)) + [alt])
        if n > 3000:
            raise RuntimeError("schedule tree for k=2 unexpectedly large")
    part.exhaustive["schedules of 2 threads through the patch section (all choice sequences)"] = n
    part.notes.append(f"k=2: {n} executions, {len(seen_traces)} distinct access traces") if hasattr(part, "notes") else None
    return part


# ---- (a') the AES round-key cache under the same scheduler ------------------------------------------------------------
class _SchedCache(__import__("collections").OrderedDict):
    """OrderedDict whose lookups and updates by controlled threads are scheduling points."""

    def _pt(self, kind):
        s = getattr(_TL, "sched", None)
        if s is not None:
            s.point(_TL.tid, kind)

    def get(self, k, d=None):
        self._pt("R")
        return super().get(k, d)

    def move_to_end(self, k, last=True):
        self._pt("W")
        return super().move_to_end(k, last)

    def __setitem__(self, k, v):
        self._pt("W")
        return super().__setitem__(k, v)

    def popitem(self, last=True):
        self._pt("W")
        return super().popitem(last)


def run_cache_schedule(k: int, choices: list[int], warm: int):
    """k threads encrypt one block each with their own key while the 4-entry round-key cache holds `warm` other keys (oldest first = thread 0's key)."""
    from vf.gen import refaes
    from sharepoint2text.parsing.extractors.pdf import _pypdf_aes_fallback as fb
    keys = [bytes([0x10 + i]) * 16 for i in range(k)]
    block = bytes(range(16))
    cache = _SchedCache()
    old = fb._ROUND_KEY_CACHE
    fb._ROUND_KEY_CACHE = cache
    try:
        # thread 0's key is the oldest entry of a cache that is `warm` entries full
        if warm:
            fb._get_round_keys(keys[0])
            for j in range(warm - 1):
                fb._get_round_keys(bytes([0x80 + j]) * 16)
        sched = Sched()
        out: list = [None] * k

        def body(i):
            _TL.sched, _TL.tid = sched, i
            try:
                sched.point(i, "start")
                try:
                    out[i] = fb.aes_ecb_encrypt(keys[i], block)
                except BaseException as e:  # noqa
                    out[i] = f"raised {type(e).__name__}: {e!r}"
            finally:
                _TL.sched = None
                sched.done(i)
        ths = [threading.Thread(target=body, args=(i,), daemon=True) for i in range(k)]
        for t in ths:
            t.start()
        branching, deadlock = sched.drive(choices, k)
        for t in ths:
            t.join(timeout=5)
    finally:
        fb._ROUND_KEY_CACHE = old
    want = [bytes(refaes.ecb_encrypt(keys[i], block)) for i in range(k)]
    return {"out": out, "want": want, "trace": sched.trace, "branching": branching, "deadlock": deadlock, "size": len(cache)}


def judge_cache_schedule(k, choices, warm):
    r = run_cache_schedule(k, choices, warm)
    tr = "".join(f"{t}{kind[0]}" for t, kind in r["trace"])
    fails = []
    if r["deadlock"]:
        fails.append(("deadlock", f"round-key cache k={k} warm={warm} choices={choices}: no progress; trace {tr}"))
    for i, (g, w) in enumerate(zip(r["out"], r["want"])):
        if g != w:
            fails.append(("result-depends-on-concurrency", f"round-key cache, {k} threads, cache pre-filled with {warm} keys, choices={choices[:len(r['branching'])]}: thread {i} got {g if isinstance(g, str) else g.hex()}, alone {w.hex()}; trace {tr}"))
            break
    if r["size"] > 4:
        fails.append(("state-not-restored", f"round-key cache grew to {r['size']} entries (bound 4); trace {tr}"))
    tids = [t for t, kind in r["trace"] if kind != "start"]
    blocks = [g for g, _ in itertools.groupby(tids)]
    return fails, r, len(blocks) > len(set(blocks))


def exhaustive_cache_k2(ctx: Ctx):
    part = Partial()
    n = 0
    for warm in (0, 3, 4):
        stack = [[]]
        while stack:
            prefix = stack.pop()
            fails, r, inter = judge_cache_schedule(2, prefix, warm)
            n += 1
            part.case(digest(["cache", warm, tuple(r["trace"])]), inter, sample={"sub": "round-key cache", "warm": warm, "trace": "".join(f"{t}{kind[0]}" for t, kind in r["trace"])} if n % 13 == 0 else None, k=2, cache_warm=warm)
            part.violations += [Violation(c, f"C15:schedule:{c}", d, {"kind": "cache-schedule", "k": 2, "choices": prefix, "warm": warm}) for c, d in fails[:1]]
            for i in range(len(prefix), len(r["branching"])):
                for alt in range(1, r["branching"][i]):
                    stack.append(prefix + [0] * (i - len(prefix)) + [alt])
            if n > 5000:
                raise RuntimeError("cache schedule tree unexpectedly large")
    part.exhaustive["schedules of 2 threads through the AES round-key cache (3 fill levels)"] = n
    return part


# ---- (a+) the font-analysis cache of the PDF digit recovery ---------------------------------------------------------------
def run_fontcache_schedule(choices: list[int]):
    """two threads extract pages that embed the same font with the same null-mapped glyphs (same cache key) on a cold cache"""
    from pypdf import PdfReader
    from vf.gen import cidpdf
    from sharepoint2text.parsing.extractors.pdf import pdf_extractor as px
    font, _ = cidpdf.digit_font()
    raw = cidpdf.cid_pdf(font, [3, 11, 12, 4], {3: "A", 4: "B", 11: None, 12: None})
    pages = [PdfReader(io.BytesIO(raw)).pages[0] for _ in range(2)]
    old = px._FONT_CACHE
    px._FONT_CACHE = _SchedDict()
    global TARGETS
    saved_targets, TARGETS = TARGETS, ()          # only the cache is scheduled here; the patch section has its own sub-check
    try:
        sched = Sched()
        out: list = [None, None]

        def body(i):
            _TL.sched, _TL.tid = sched, i
            try:
                sched.point(i, "start")
                try:
                    out[i] = px._extract_text_with_spacing(pages[i])[0]
                except BaseException as e:  # noqa
                    out[i] = f"raised {type(e).__name__}: {e}"
            finally:
                _TL.sched = None
                sched.done(i)
        ths = [threading.Thread(target=body, args=(i,), daemon=True) for i in range(2)]
        for t in ths:
            t.start()
        branching, deadlock = sched.drive(choices, 2)
        for t in ths:
            t.join(timeout=5)
    finally:
        px._FONT_CACHE = old
        TARGETS = saved_targets
    return {"out": out, "trace": sched.trace, "branching": branching, "deadlock": deadlock}


def exhaustive_fontcache(ctx: Ctx):
    part = Partial()
    stack = [[]]
    n = 0
    while stack:
        prefix = stack.pop()
        r = run_fontcache_schedule(prefix)
        n += 1
        tr = "".join(f"{t}{kind[0]}" for t, kind in r["trace"])
        tids = [t for t, kind in r["trace"] if kind != "start"]
        blocks = [g for g, _ in itertools.groupby(tids)]
        part.case(digest(["fontcache", tuple(r["trace"])]), len(blocks) > len(set(blocks)), sample={"sub": "font cache", "trace": tr, "out": r["out"]} if n % 7 == 0 else None, k=2, fontcache=True)
        bad = [i for i, o in enumerate(r["out"]) if o != "A12B"]
        if bad or r["deadlock"]:
            part.violations.append(Violation("result-depends-on-concurrency", "C15:schedule:result-depends-on-concurrency",
                                             f"font cache, two threads, same embedded font and glyphs, cold cache, choices={prefix}: thread {bad[0] if bad else '?'} extracted {r['out'][bad[0]] if bad else None!r}, alone 'A12B'; trace {tr}",
                                             {"kind": "fontcache-schedule", "choices": prefix}))
        for i in range(len(prefix), len(r["branching"])):
            for alt in range(1, r["branching"][i]):
                stack.append(prefix + [0] * (i - len(prefix)) + [alt])
        if n > 3000:
            raise RuntimeError("font-cache schedule tree unexpectedly large")
    part.exhaustive["schedules of 2 threads through the PDF font-analysis cache (cold)"] = n
    return part


# ---- (a'') the lazily filled type registry of the serialisation module ---------------------------------------------------
class _SchedDict(dict):
    def _pt(self, kind):
        s = getattr(_TL, "sched", None)
        if s is not None:
            s.point(_TL.tid, kind)

    def __len__(self):
        self._pt("R")
        return super().__len__()

    def __contains__(self, k):
        self._pt("R")
        return super().__contains__(k)

    def __getitem__(self, k):
        self._pt("R")
        return super().__getitem__(k)

    def __setitem__(self, k, v):
        self._pt("W")
        return super().__setitem__(k, v)


def run_registry_schedule(first: int, steps: int):
    """Two threads call from_json for the first time in the process; thread `first` runs `steps` scheduling steps, then the other one runs to its end (one preemption)."""
    from sharepoint2text.parsing.extractors import serialization as ser
    from sharepoint2text.parsing.extractors.data_types import HtmlContent, PlainTextContent
    payloads = [(HtmlContent, json.loads(_REG_PAYLOADS[0])), (PlainTextContent, json.loads(_REG_PAYLOADS[1]))]
    old = ser._TYPE_REGISTRY
    ser._TYPE_REGISTRY = _SchedDict()
    try:
        sched = Sched()
        out: list = [None, None]

        def body(i):
            _TL.sched, _TL.tid = sched, i
            try:
                sched.point(i, "start")
                try:
                    cls, pl = payloads[i]
                    obj = cls.from_json(pl)
                    _TL.sched = None
                    out[i] = (type(obj).__name__, type(getattr(obj, "metadata", None)).__name__, json.dumps(obj.to_json(), sort_keys=True) == json.dumps(pl, sort_keys=True))
                except BaseException as e:  # noqa
                    out[i] = f"raised {type(e).__name__}: {e!r}"
            finally:
                _TL.sched = None
                sched.done(i)
        ths = [threading.Thread(target=body, args=(i,), daemon=True) for i in range(2)]
        for t in ths:
            t.start()
        # index into the sorted list of parked threads: `first` while it has steps left, then the other one
        choices = [first] * (steps + 1) + [1 - first if first == 0 else 0] * 4000
        branching, deadlock = sched.drive(choices, 2)
        for t in ths:
            t.join(timeout=5)
    finally:
        ser._TYPE_REGISTRY = old
    return out, deadlock, len(sched.trace)


_REG_PAYLOADS: list = []


def _registry_payloads():
    if not _REG_PAYLOADS:
        from sharepoint2text.parsing.router import get_extractor
        h = list(get_extractor("x.html")(io.BytesIO(b"<html><head><title>T</title></head><body><p>ZB07501 text</p><table><tr><td>a</td></tr></table></body></html>"), "x.html"))[0]
        t = list(get_extractor("x.txt")(io.BytesIO(b"plain ZB07502 text\n"), "x.txt"))[0]
        _REG_PAYLOADS.extend([json.dumps(h.to_json()), json.dumps(t.to_json())])
    return _REG_PAYLOADS


def registry_schedules(ctx: Ctx):
    part = Partial()
    _registry_payloads()
    want = [("HtmlContent", "HtmlMetadata", True), ("PlainTextContent", "FileMetadata", True)]
    base = [None, None]
    n = 0
    for first in (0, 1):
        steps = 0
        total = None
        while total is None or steps <= min(total, 400):
            out, deadlock, ntrace = run_registry_schedule(first, steps)
            total = ntrace if total is None else total
            n += 1
            if base[0] is None and steps == 0 and first == 0:
                pass
            part.case(digest(["registry", first, steps]), 0 < steps, sample={"sub": "type registry", "first": first, "steps": steps, "out": [str(o)[:60] for o in out]} if n % 29 == 0 else None, k=2, registry=True)
            ok = [isinstance(o, tuple) and o[0] == w[0] and o[2] for o, w in zip(out, want)]
            if deadlock or not all(ok):
                bad = next(i for i, x in enumerate(ok) if not x) if not deadlock else 0
                part.violations.append(Violation("result-depends-on-concurrency", "C15:schedule:result-depends-on-concurrency",
                                                 f"type registry: thread {first} runs {steps} steps of its first from_json(), then thread {1 - first} runs: thread {bad} produced {out[bad]!r} instead of a round-tripping {want[bad][0]}"
                                                 + (" (no progress)" if deadlock else ""), {"kind": "registry-schedule", "first": first, "steps": steps}))
                break
            steps += 1 if steps < 12 else 7
    part.exhaustive["one-preemption schedules of two first from_json() calls over the lazy type registry"] = n
    return part


def sampled_k(ctx: Ctx):
    part = Partial()

    def ev(c):
        k, choices = c["k"], c["choices"]
        fails, r, inter = judge_schedule(k, choices)
        part.case(digest([k, tuple(r["trace"])]), inter, sample={"k": k, "trace": "".join(f"{t}{kind[0]}" for t, kind in r["trace"])} if part.evaluations % 23 == 0 else None, k=k, interleaved=inter)
        return _viol_sched(k, choices, fails)

    strat = st.fixed_dictionaries({"k": st.sampled_from([3, 3, 4]), "choices": st.lists(st.integers(0, 3), min_size=0, max_size=24)})
    n = ctx.n(240, 8000) // ctx.nshards + 1
    hyp_search(ctx, "schedules", strat, ev, n, part, model_shrink=False, shrink_budget_s=30)
    return part


# ---------------------------------------------------------------------------------------------------------------
# document pool, baselines, snapshot
# ---------------------------------------------------------------------------------------------------------------
POOL_FIXTURES = ["plain_text/plain.txt", "plain_text/document.md", "plain_text/plain.csv", "html/sample.html", "html/sample.mhtml", "mails/basic_email.eml", "mails/basic_email.mbox",
                 "mails/basic_email.msg", "mails/msg_with_attachment.eml", "legacy_ms/headings.doc", "legacy_ms/slide_with_notes.ppt", "legacy_ms/mwe.xls", "legacy_ms/2025.144.un.rtf",
                 "modern_ms/headings.docx", "modern_ms/mwe.xlsx", "modern_ms/pptx_table.pptx", "modern_ms/sample.docm", "open_office/headings.odt", "open_office/sample_spreadsheet.ods",
                 "open_office/slide_with_notes.odp", "open_office/drawing.odg", "open_office/formular.odf", "pdf/sample.pdf", "pdf/multi_image.pdf", "epub/sample.epub", "archives/test_archive.zip",
                 "archives/test_archive.7z", "archives/test_archive.tar.gz", "archives/sample.zip", "legacy_ms/password_protected/docx-password-protected-pw123.docx",
                 "legacy_ms/password_protected/pdf-password-protected-pw123.pdf", "archives/password_protected/sample-password-protected-pw123.zip",
                 "open_office/password_protected/ods-password-protected-pw123.ods", "legacy_ms/legacy_doc_image.doc"]


def _gen_pdfs():
    from vf.gen import pdfw
    base = pdfw.write_pdf([{"lines": ["first line ZB00001", "second line ZB00002"]}, {"lines": ["page two ZB00003"]}], info={"Title": "iso"})
    return {"gen/aes128-empty.pdf": pdfw.encrypt_pdf(base, user_password="", owner_password="o", algorithm="AES-128"),
            "gen/aes256r5-empty.pdf": pdfw.encrypt_pdf(base, user_password="", owner_password="o", algorithm="AES-256-R5"),
            "gen/rc4-empty.pdf": pdfw.encrypt_pdf(base, user_password="", owner_password="o", algorithm="RC4-128"),
            "gen/aes128-pw.pdf": pdfw.encrypt_pdf(base, user_password="pw", owner_password="o", algorithm="AES-128"),
            # split crypt filters: streams in clear (/StmF /Identity), strings AES-encrypted (/StrF): the document needs the AES provider although its streams do not
            "gen/aes128-strings.pdf": pdfw.encrypt_pdf(pdfw.write_pdf([{"lines": ["first line ZB00001", "second line ZB00002"]}], info={"Title": "strings only ZB00004", "Author": "A ZB00005"}),
                                                       user_password="", owner_password="o", algorithm="AES-128", strings_only=True),
            "gen/plain.pdf": base,
            # a text-positioning operator with string operands: page text extraction raises in every attempt (the restore-on-error path of the char-map patch)
            "gen/bad-operands.pdf": base.replace(b"72 760 Td", b"(a)(b) Td", 1)}


def _gen_office():
    """Pairs of generated documents of one format that differ in an optional part (comments, notes, images): what a per-class or module-level cache would carry over."""
    from vf.gen import ooxml, odf
    from vf.gen.tokens import make

    def doc(n, comments=False, cref=False):
        blocks = [{"k": "p", "inl": [{"k": "t", "tok": make("B", 7000 + n), "sty": 0}] + ([{"k": "cref", "id": 0}] if cref else []), "h": None},
                  {"k": "p", "inl": [{"k": "t", "tok": make("B", 7100 + n), "sty": 0}], "h": None}]
        d = {"units": [{"blocks": blocks, "notes": None}, {"blocks": [{"k": "p", "inl": [{"k": "t", "tok": make("B", 7200 + n), "sty": 0}], "h": None}], "notes": None}], "props": {}}
        if comments:
            d["comments"] = [[{"k": "t", "tok": make("X", 7300 + n), "sty": 0}]]
        return d
    out = {}
    import zipfile

    def zipof(members):
        buf = io.BytesIO()
        with zipfile.ZipFile(buf, "w", zipfile.ZIP_DEFLATED) as z:
            for name, text in members:
                z.writestr(name, text)
        return buf.getvalue()
    # archives whose members share base names but differ in the directory that decides whether they are skipped
    out["gen/macosx-report.zip"] = zipof([("__MACOSX/report.txt", "resource fork ZX07401"), ("summary.txt", "summary ZB07402")])
    out["gen/notes-report.zip"] = zipof([("notes/report.txt", "report ZB07403"), ("summary.txt", "summary ZB07404")])
    out["gen/hidden-dir.zip"] = zipof([(".cache/minutes.txt", "cached ZX07405"), ("agenda.txt", "agenda ZB07406")])
    out["gen/visible-dir.zip"] = zipof([("docs/minutes.txt", "minutes ZB07407"), ("docs/.minutes.txt", "draft ZX07408"), ("agenda.txt", "agenda ZB07409")])
    try:
        out["gen/comments.pptx"] = ooxml.render_pptx(doc(1, comments=True))
        out["gen/plain.pptx"] = ooxml.render_pptx(doc(2))
        out["gen/comments.docx"] = ooxml.render_docx(doc(3, comments=True, cref=True))
        out["gen/plain.docx"] = ooxml.render_docx(doc(4))
        out["gen/plain.odt"] = odf.render_odt(doc(5))
        out["gen/plain.odp"] = odf.render_odp(doc(6))
        # packages without meta.xml, extracted with and without a path: a shared "no metadata" object would carry the path over
        out["gen/nometa-a.odt"] = odf.render_odt(doc(7), opts={"no_meta": True})
        out["gen/nopath-nometa-b.odt"] = odf.render_odt(doc(8), opts={"no_meta": True})
        out["gen/nometa-a.odp"] = odf.render_odp(doc(9), opts={"no_meta": True})
        out["gen/nopath-nometa-b.odp"] = odf.render_odp(doc(10), opts={"no_meta": True})
        out["gen/nocore-a.pptx"] = ooxml.render_pptx(doc(13), opts={"no_core": True})
        out["gen/nopath-nocore-b.pptx"] = ooxml.render_pptx(doc(14), opts={"no_core": True})
        out["gen/nocore-a.docx"] = ooxml.render_docx(doc(15), opts={"no_core": True})
        out["gen/nopath-nocore-b.docx"] = ooxml.render_docx(doc(16), opts={"no_core": True})
        # two books with long chapters, and pairs of the other HTML-family formats: several extractions of one format in flight at the same time
        from vf.gen import simple

        def long_doc(n):
            return {"units": [{"name": None, "blocks": [{"k": "p", "inl": [{"k": "t", "tok": make("B", 7600 + n * 1000 + i), "sty": i % 3}], "h": None} for i in range(300)], "notes": None} for _ in range(2)],
                    "props": {}, "header": None, "footer": None, "comments": []}
        out["gen/long-a.epub"] = simple.render_epub(long_doc(1))
        out["gen/long-b.epub"] = simple.render_epub(long_doc(2))
        out["gen/long-a.html"] = simple.render_html(long_doc(3))
        out["gen/long-b.html"] = simple.render_html(long_doc(4))
        # documents whose pictures have the same length but other bytes: a cache keyed by anything but the content (an address, a size) mixes them up
        from vf.props import c14
        for fmt_ in ("docx", "epub", "odt"):
            for tag, sd in (("a", 11), ("b", 12), ("c", 13)):
                case = {"format": fmt_, "opts": {}, "units": [[{"k": "p", "tok": make("B", 7900 + sd)}, {"k": "img", "type": "bmp", "w": 9, "h": 9, "seed": sd}, {"k": "img", "type": "bmp", "w": 9, "h": 9, "seed": sd + 20}]]}
                out[f"gen/samesize-{tag}.{fmt_}"] = c14.build(case)[0]
        out["gen/nopath-plain.docx"] = ooxml.render_docx(doc(11))
        out["gen/nopath-plain.pptx"] = ooxml.render_pptx(doc(12))
    except Exception as e:  # noqa
        raise RuntimeError(f"generator for the office pairs failed: {type(e).__name__}: {e}")
    return out


def build_pool() -> dict[str, bytes]:
    from vf.gen import cidpdf
    pool = {}
    for rel in POOL_FIXTURES:
        with open(os.path.join(FIX, rel), "rb") as f:
            pool[rel] = f.read()
    font, _ = cidpdf.digit_font()
    pool["gen/cid-a.pdf"] = cidpdf.cid_pdf(font, [3, 11, 12, 4], {3: "A", 4: "B", 11: None, 12: None})
    pool["gen/cid-b.pdf"] = cidpdf.cid_pdf(font, [3, 27, 28, 4], {3: "A", 4: "B", 27: None, 28: None})
    pool["gen/cid-c.pdf"] = cidpdf.cid_pdf(font, [5, 13, 6], {5: "C", 6: "D", 13: None}, pages=2)
    pool.update(in_fresh_fork(_gen_pdfs))
    pool.update(_gen_office())
    pool["gen/truncated.docx"] = pool["modern_ms/headings.docx"][:2000]
    pool["gen/truncated.pdf"] = pool["pdf/sample.pdf"][:1500]
    pool["gen/truncated.xls"] = pool["legacy_ms/mwe.xls"][:3000]
    pool["gen/truncated.7z"] = pool["archives/test_archive.7z"][:-40]
    pool["gen/truncated.odt"] = pool["open_office/headings.odt"][:-200]
    pool["gen/garbage.pptx"] = b"PK\x03\x04" + bytes(range(256)) * 4
    return pool


PAIRS = [("gen/cid-a.pdf", "gen/cid-b.pdf"), ("gen/aes128-empty.pdf", "gen/aes128-strings.pdf"), ("gen/aes128-strings.pdf", "gen/aes256r5-empty.pdf"), ("gen/bad-operands.pdf", "gen/cid-a.pdf"), ("gen/aes256r5-empty.pdf", "gen/aes128-empty.pdf"), ("gen/cid-c.pdf", "gen/cid-a.pdf"), ("gen/comments.pptx", "gen/plain.pptx"),
         ("gen/comments.docx", "gen/plain.docx"), ("modern_ms/pptx_table.pptx", "gen/plain.pptx"), ("open_office/slide_with_notes.odp", "gen/plain.odp"), ("open_office/headings.odt", "gen/plain.odt"), ("gen/macosx-report.zip", "gen/notes-report.zip"), ("gen/hidden-dir.zip", "gen/visible-dir.zip"),
         ("archives/test_archive.zip", "gen/notes-report.zip"), ("gen/nometa-a.odt", "gen/nopath-nometa-b.odt"), ("gen/nometa-a.odp", "gen/nopath-nometa-b.odp"), ("gen/nocore-a.pptx", "gen/nopath-nocore-b.pptx"), ("gen/samesize-a.docx", "gen/samesize-b.docx"), ("gen/samesize-b.docx", "gen/samesize-c.docx"), ("gen/samesize-a.epub", "gen/samesize-b.epub"), ("gen/samesize-a.odt", "gen/samesize-b.odt"), ("gen/nocore-a.docx", "gen/nopath-nocore-b.docx"),
         ("gen/plain.docx", "gen/nopath-plain.docx"), ("gen/plain.pptx", "gen/nopath-plain.pptx")]


def ext_of(name: str) -> str:
    return "tar.gz" if name.endswith(".tar.gz") else name.rsplit(".", 1)[-1]


def extract_digest(raw: bytes, name: str, mode: str = "exhaust") -> str:
    """Outcome of one extraction as a short string: digest of the serialised results, or the exception type."""
    from sharepoint2text.parsing.exceptions import ExtractionError
    from sharepoint2text.parsing.extractors.serialization import serialize_extraction
    from sharepoint2text.parsing.router import get_extractor
    path = "/srv/in/" + name         # every pool document has its own path; "nopath" documents are extracted without one
    h = hashlib.sha256()
    n = 0
    try:
        gen = get_extractor("iso." + ext_of(name))(io.BytesIO(raw), None if "nopath-" in name else path)
        for r in gen:
            h.update(json.dumps(serialize_extraction(r), sort_keys=True, default=str).encode())
            n += 1
            if mode == "abandon":
                del gen
                gc.collect()
                return f"first:{h.hexdigest()[:16]}"
            if mode == "close":
                gen.close()
                return f"first:{h.hexdigest()[:16]}"
        return f"ok:{n}:{h.hexdigest()[:16]}"
    except ExtractionError as e:
        return f"error:{type(e).__name__}"
    except Exception as e:  # noqa
        return f"other:{type(e).__name__}"


def _baselines_worker(pool: dict, names: list[str]):
    return {n: in_fresh_fork(extract_digest, pool[n], n, "exhaust") for n in names}


def _first_baseline(pool, name):
    return in_fresh_fork(extract_digest, pool[name], name, "abandon")


def snapshot(tmp_root: str) -> dict:
    import mimetypes
    import warnings

    import pypdf._page as pg
    from sharepoint2text.parsing.extractors import archive_extractor as ax
    snap = {"build_char_map": id(types.ModuleType.__getattribute__(pg, "build_char_map")), "archive_config": repr(ax._config),
            "mimetypes": hashlib.sha256(repr(sorted(mimetypes.types_map.items())).encode() + repr(sorted(mimetypes.encodings_map.items())).encode()).hexdigest()[:12],
            "temp_root": sorted(os.listdir(tmp_root)), "fds": len(os.listdir("/proc/self/fd")), "threads": threading.active_count(), "cwd": os.getcwd(),
            "environ": hashlib.sha256(repr(sorted(os.environ.items())).encode()).hexdigest()[:12], "warnings_filters": len(warnings.filters), "switch_interval": sys.getswitchinterval()}
    try:
        import pypdf._cmap as cm
        if hasattr(cm, "get_encoding"):
            snap["cmap_get_encoding"] = id(cm.get_encoding)
    except Exception:  # noqa
        pass
    return snap


def snap_diff(a: dict, b: dict) -> list[str]:
    return [f"{k}: {a.get(k)!r} -> {b.get(k)!r}" for k in sorted(set(a) | set(b)) if a.get(k) != b.get(k)]


class Env:
    """Per-shard environment: pool, baselines, private temp root, warmed-up process, initial snapshot."""

    def __init__(self):
        import mimetypes
        self.pool = build_pool()
        self.names = sorted(self.pool)
        self.base = _baselines_worker(self.pool, self.names)
        self.first = {}
        self.tmp = tempfile.mkdtemp(prefix="vf-c15-")
        self._old_tmp = tempfile.tempdir
        tempfile.tempdir = self.tmp
        mimetypes.init()
        import sharepoint2text  # noqa: F401
        from sharepoint2text.parsing.router import get_extractor
        for n in self.names:      # import every extractor module first: imports are not the state under test
            try:
                get_extractor("iso." + ext_of(n))
            except Exception:  # noqa
                pass
        gc.collect()
        self.snap0 = snapshot(self.tmp)
        self.warm_fails = []
        self.warm_state = []
        for n in self.names:      # first pass over the pool in a process that has extracted nothing yet
            got = extract_digest(self.pool[n], n)
            if got != self.base[n]:
                self.warm_fails.append((n, got, self.base[n]))
            gc.collect()
            d = snap_diff(self.snap0, snapshot(self.tmp))
            if d and not self.warm_state:
                self.warm_state.append((n, d))

    def first_base(self, name):
        if name not in self.first:
            self.first[name] = _first_baseline(self.pool, name)
        return self.first[name]

    def close(self):
        tempfile.tempdir = self._old_tmp
        shutil.rmtree(self.tmp, ignore_errors=True)


# ---------------------------------------------------------------------------------------------------------------
# (c) histories
# ---------------------------------------------------------------------------------------------------------------
def judge_history(env: Env, steps: list[dict]):
    fails = []
    for i, s in enumerate(steps):
        name, mode = s["doc"], s["mode"]
        rl0 = sys.getrecursionlimit()      # Hypothesis itself moves this limit between calls, so it is compared per step
        got = extract_digest(env.pool[name], name, mode)
        if sys.getrecursionlimit() != rl0:
            fails.append(("state-not-restored", f"step {i} ({name}, {mode}): recursion limit {rl0} -> {sys.getrecursionlimit()}"))
            break
        want = env.base[name] if mode == "exhaust" or not env.base[name].startswith("ok:") else env.first_base(name)
        if mode != "exhaust" and env.base[name].startswith("ok:0:"):
            want = env.base[name]
        if got != want:
            fails.append(("result-depends-on-history", f"step {i} ({name}, {mode}) after {[x['doc'] for x in steps[:i]]}: outcome {got}, in a fresh process {want}"))
            break
        gc.collect()
        d = snap_diff(env.snap0, snapshot(env.tmp))
        if d:
            fails.append(("state-not-restored", f"after step {i} ({name}, {mode}): {d}"))
            break
    return fails


def fresh_history(names_modes: list):
    """Run a whole history in a fresh fork (no warm-up): the first steps see cold caches and unpatched libraries."""
    env_pool = build_pool()
    out = []
    for name, mode in names_modes:
        out.append(extract_digest(env_pool[name], name, mode))
    return out


def histories_shard(ctx: Ctx):
    part = Partial()
    env = Env()
    try:
        for n, got, want in env.warm_fails:
            part.violations.append(Violation("result-depends-on-history", "C15:history:result-depends-on-history", f"warm-up pass over the pool: {n} gave {got}, in a fresh process {want}",
                                             {"kind": "history", "steps": [{"doc": x, "mode": "exhaust"} for x in env.names[:env.names.index(n) + 1]]}))
            break
        for n, d in env.warm_state:
            part.violations.append(Violation("state-not-restored", "C15:history:state-not-restored", f"first pass over the pool: after {n}: {d}",
                                             {"kind": "history", "steps": [{"doc": x, "mode": "exhaust"} for x in env.names[:env.names.index(n) + 1]]}))
            break
        # deterministic part: every pool document once abandoned and once closed after its first result, then extracted in full (what a consumer that stops
        # early leaves behind - temp directories, patches, handles - shows in the snapshot; what it leaves in caches shows in the next digest)
        if ctx.shard == 0:
            multi = [x for x in env.names if env.base[x].startswith("ok:") and not env.base[x].startswith("ok:0:")]
            for x in multi:
                steps = [{"doc": x, "mode": "abandon"}, {"doc": x, "mode": "close"}, {"doc": x, "mode": "exhaust"}]
                fails = judge_history(env, steps)
                part.case(digest(["early", x]), True, sample=None, length=0)
                for c, d in fails[:1]:
                    part.violations.append(Violation(c, f"C15:history:{c}", d, {"kind": "history", "steps": steps}))
                if len(part.violations) >= 3:
                    break
            part.exhaustive["every pool document abandoned, closed early, then read in full"] = len(multi)
        pair_names = sorted({x for p in PAIRS for x in p})
        doc = st.one_of(st.sampled_from(env.names), st.sampled_from(pair_names))
        step = st.fixed_dictionaries({"doc": doc, "mode": st.sampled_from(["exhaust", "exhaust", "exhaust", "abandon", "close"])})

        def ev(steps):
            fails = judge_history(env, steps)
            docs = [s["doc"] for s in steps]
            outcomes = [env.base[d].split(":")[0] for d in docs]
            nontrivial = any(a != "ok" and b == "ok" for a, b in zip(outcomes, outcomes[1:])) or any(a in docs and b in docs for a, b in PAIRS)
            part.case(digest(steps), nontrivial, sample={"steps": [f"{s['doc']}:{s['mode']}" for s in steps]} if part.evaluations % 19 == 0 else None, length=min(len(steps), 12) // 4 * 4)
            return [Violation(c, f"C15:history:{c}", d, {"kind": "history", "steps": steps}) for c, d in fails[:1]]

        n = ctx.n(100, 3000) // ctx.nshards + 1
        hyp_search(ctx, "histories", st.lists(step, min_size=1, max_size=12), ev, n, part, shrink_budget_s=40)
    finally:
        env.close()
    return part


def cold_pairs(ctx: Ctx):
    """Every ordered pair of the state-sharing documents, each in a fresh process without warm-up (first use is where one-way patches are installed)."""
    part = Partial()
    pool = build_pool()
    names = sorted({x for p in PAIRS for x in p} | {"gen/aes128-pw.pdf", "gen/rc4-empty.pdf", "gen/plain.pdf", "pdf/sample.pdf", "gen/truncated.pdf"})
    base = {n: in_fresh_fork(extract_digest, pool[n], n, "exhaust") for n in names}
    cnt = 0
    pairs = [(a, b) for a, b in itertools.permutations(names, 2) if ext_of(a) == ext_of(b)]
    for i, (a, b) in enumerate(pairs):
        if i % ctx.nshards != ctx.shard:
            continue
        got = in_fresh_fork(fresh_history, [(a, "exhaust"), (b, "exhaust"), (a, "exhaust")])
        want = [base[a], base[b], base[a]]
        cnt += 1
        part.case(digest(["cold", a, b]), True, sample={"history": [a, b, a], "outcomes": got} if cnt % 11 == 0 else None, kind="cold-pair")
        if got != want:
            j = next(k for k in range(3) if got[k] != want[k])
            part.violations.append(Violation("result-depends-on-history", "C15:history:result-depends-on-history", f"fresh process, history {[a, b, a]}: step {j} gave {got[j]}, alone it gives {want[j]}",
                                             {"kind": "cold", "docs": [a, b, a]}))
    part.exhaustive["ordered pairs of state-sharing PDFs in a cold process"] = len(pairs)
    return part


def _payload_of(raw, name):
    from sharepoint2text.parsing.router import get_extractor
    path = "iso." + ext_of(name)
    r = list(get_extractor(path)(io.BytesIO(raw), path))[0]
    return json.dumps(r.to_json())


def _restore_after(raw_a, name_a, payload_b: str):
    """fresh process: extract A and serialise it (the process's first use of the serialisation module), then restore B from its stored JSON"""
    from sharepoint2text.parsing.extractors.data_types import ExtractionInterface
    from sharepoint2text.parsing.router import get_extractor
    if raw_a is not None:
        path = "iso." + ext_of(name_a)
        for r in get_extractor(path)(io.BytesIO(raw_a), path):
            json.dumps(r.to_json())
    obj = ExtractionInterface.from_json(json.loads(payload_b))
    same = hasattr(obj, "to_json") and json.dumps(obj.to_json(), sort_keys=True) == json.dumps(json.loads(payload_b), sort_keys=True)
    return type(obj).__name__, type(getattr(obj, "metadata", None)).__name__, same


def cold_restore(ctx: Ctx):
    """from_json of a stored result must not depend on what the process serialised before (histories over the serialisation module, cold processes)"""
    part = Partial()
    pool = build_pool()
    names = ["plain_text/plain.txt", "html/sample.html", "modern_ms/headings.docx", "gen/cid-a.pdf", "mails/basic_email.eml", "modern_ms/mwe.xlsx", "open_office/headings.odt", "archives/test_archive.zip"]
    payloads = {n: in_fresh_fork(_payload_of, pool[n], n) for n in names if not n.endswith(".zip")}
    alone = {n: in_fresh_fork(_restore_after, None, None, payloads[n]) for n in payloads}
    pairs = [(a, b) for a in names for b in payloads if a != b]
    for i, (a, b) in enumerate(pairs):
        if i % ctx.nshards != ctx.shard:
            continue
        got = in_fresh_fork(_restore_after, pool[a], a, payloads[b])
        part.case(digest(["restore", a, b]), True, sample={"first": a, "then_restore": b, "restored_as": got[0]} if i % 13 == 0 else None, kind="cold-restore")
        if got != alone[b] or not got[2]:
            part.violations.append(Violation("result-depends-on-history", "C15:history:result-depends-on-history",
                                             f"fresh process: after extracting and serialising {a}, from_json of the stored result of {b} gives {got}; alone it gives {alone[b]}", {"kind": "cold-restore", "first": a, "then": b}))
    part.exhaustive["ordered pairs (serialise A, then restore stored B) in a cold process"] = len(pairs)
    return part


# ---------------------------------------------------------------------------------------------------------------
# (b) preemptive stress
# ---------------------------------------------------------------------------------------------------------------
def stress_round(env: Env, workload: list[str], threads: int = 8):
    results: dict[int, str] = {}
    idx = itertools.count()
    lock = threading.Lock()

    def worker():
        while True:
            with lock:
                i = next(idx)
            if i >= len(workload):
                return
            n = workload[i]
            results[i] = extract_digest(env.pool[n], n)

    old = sys.getswitchinterval()
    sys.setswitchinterval(1e-6)
    try:
        ths = [threading.Thread(target=worker, daemon=True) for _ in range(threads)]
        for t in ths:
            t.start()
        for t in ths:
            t.join(timeout=300)
    finally:
        sys.setswitchinterval(old)
    bad = [(i, workload[i], results.get(i), env.base[workload[i]]) for i in range(len(workload)) if results.get(i) != env.base[workload[i]]]
    return bad


def stress_shard(ctx: Ctx):
    part = Partial()
    env = Env()
    try:
        light = [n for n in env.names if n not in ("pdf/multi_image.pdf",)]

        def ev(workload):
            rl0 = sys.getrecursionlimit()
            bad = stress_round(env, workload)
            rl1 = sys.getrecursionlimit()
            n_pdf = sum(1 for w in workload if w.endswith(".pdf"))
            part.case(digest(workload), n_pdf >= 2, sample={"workload": workload[:8], "size": len(workload)} if part.evaluations % 5 == 0 else None, pdfs=min(n_pdf, 4))
            out = []
            if bad:
                again = [stress_round(env, workload) for _ in range(2)]
                if all(again):
                    i, n, got, want = bad[0]
                    out.append(Violation("result-depends-on-concurrency", "C15:stress:result-depends-on-concurrency",
                                         f"schedule-dependent: 8 threads over {len(workload)} documents, {n} gave {got}, alone {want}; reproduced in two further rounds", {"kind": "stress", "workload": workload}))
            gc.collect()
            d = snap_diff(env.snap0, snapshot(env.tmp)) + ([f"recursion limit {rl0} -> {rl1}"] if rl0 != rl1 else [])
            if d and not out:
                out.append(Violation("state-not-restored", "C15:stress:state-not-restored", f"schedule-dependent: after 8 threads over {workload[:6]}...: {d}", {"kind": "stress", "workload": workload}))
            return out

        n = ctx.n(24, 600) // ctx.nshards + 1
        hyp_search(ctx, "stress", st.lists(st.sampled_from(light), min_size=8, max_size=32), ev, n, part, model_shrink=False, shrink_budget_s=30)
        # several extractions of ONE format in flight at the same time (a parser or table shared by all calls of one extractor shows only then)
        by_ext = {}
        for x in light:
            by_ext.setdefault(ext_of(x), []).append(x)
        groups = [v for k, v in sorted(by_ext.items()) if len(v) >= 2 and env.base[v[0]].startswith("ok:")]
        same = st.sampled_from(groups).flatmap(lambda g: st.lists(st.sampled_from(g), min_size=8, max_size=16))
        hyp_search(ctx, "stress-one-format", same, ev, max(6, n), part, model_shrink=False, shrink_budget_s=30)
        # several threads inside the pure-python AES at the same time (the code with the most module-level state per byte)
        aes = [x for x in env.names if x.startswith("gen/aes") or x in ("gen/rc4-empty.pdf", "gen/cid-a.pdf", "gen/cid-b.pdf")]
        hyp_search(ctx, "stress-aes", st.lists(st.sampled_from(aes), min_size=8, max_size=16), ev, max(3, n // 2), part, model_shrink=False, shrink_budget_s=30)
    finally:
        env.close()
    return part


def run(ctx: Ctx) -> Partial:
    part = Partial()
    part.merge(shard_map(ctx, "vf.props.c15", "exhaustive_k2", 1))
    part.merge(shard_map(ctx, "vf.props.c15", "exhaustive_cache_k2", 1))
    part.merge(shard_map(ctx, "vf.props.c15", "registry_schedules", 1))
    part.merge(shard_map(ctx, "vf.props.c15", "exhaustive_fontcache", 1))
    part.merge(shard_map(ctx, "vf.props.c15", "sampled_k", 6))
    part.merge(shard_map(ctx, "vf.props.c15", "cold_pairs", 16))
    part.merge(shard_map(ctx, "vf.props.c15", "cold_restore", 8))
    part.merge(shard_map(ctx, "vf.props.c15", "histories_shard", 8))
    part.merge(shard_map(ctx, "vf.props.c15", "stress_shard", 4))
    return part


def replay(ctx: Ctx, payload: dict):
    k = payload.get("kind")
    if k == "schedule":
        fails, _, _ = judge_schedule(payload["k"], payload["choices"])
        return _viol_sched(payload["k"], payload["choices"], fails)
    if k == "cold-restore":
        pool = build_pool()
        pb = in_fresh_fork(_payload_of, pool[payload["then"]], payload["then"])
        got, alone = in_fresh_fork(_restore_after, pool[payload["first"]], payload["first"], pb), in_fresh_fork(_restore_after, None, None, pb)
        return [Violation("result-depends-on-history", "C15:history:result-depends-on-history", f"after {payload['first']}: from_json({payload['then']}) -> {got}, alone {alone}", payload)] if got != alone or not got[2] else []
    if k == "fontcache-schedule":
        r = run_fontcache_schedule(payload["choices"])
        bad = [o for o in r["out"] if o != "A12B"]
        return [Violation("result-depends-on-concurrency", "C15:schedule:result-depends-on-concurrency", f"font cache schedule {payload['choices']}: {r['out']}", payload)] if bad or r["deadlock"] else []
    if k == "registry-schedule":
        _registry_payloads()
        out, deadlock, _ = run_registry_schedule(payload["first"], payload["steps"])
        want = ["HtmlContent", "PlainTextContent"]
        bad = [i for i, (o, w) in enumerate(zip(out, want)) if not (isinstance(o, tuple) and o[0] == w and o[2])]
        return [Violation("result-depends-on-concurrency", "C15:schedule:result-depends-on-concurrency", f"type registry schedule first={payload['first']} steps={payload['steps']}: {out}", payload)] if bad or deadlock else []
    if k == "cache-schedule":
        fails, _, _ = judge_cache_schedule(payload["k"], payload["choices"], payload["warm"])
        return [Violation(c, f"C15:schedule:{c}", d, payload) for c, d in fails[:1]]
    if k == "cold":
        pool = build_pool()
        docs = payload["docs"]
        got = in_fresh_fork(fresh_history, [(d, "exhaust") for d in docs])
        want = [in_fresh_fork(extract_digest, pool[d], d, "exhaust") for d in docs]
        if got != want:
            return [Violation("result-depends-on-history", "C15:history:result-depends-on-history", f"fresh process, history {docs}: {got} vs alone {want}", payload)]
        return []
    env = Env()
    try:
        if k == "history":
            fails = judge_history(env, payload["steps"])
            return [Violation(c, f"C15:history:{c}", d, payload) for c, d in fails[:1]]
        if k == "stress":
            bad = stress_round(env, payload["workload"])
            d = snap_diff(env.snap0, snapshot(env.tmp))
            out = []
            if bad:
                out.append(Violation("result-depends-on-concurrency", "C15:stress:result-depends-on-concurrency", f"schedule-dependent: {bad[0]}", payload))
            elif d:
                out.append(Violation("state-not-restored", "C15:stress:state-not-restored", f"schedule-dependent: {d}", payload))
            return out
    finally:
        env.close()
    raise ValueError(k)
