"""C16 — E-mail: headers, bodies, attachments and mailbox boundaries are exact."""
from __future__ import annotations

import copy
import datetime
import io
import json
import os

from hypothesis import strategies as st

from vf.runner import Ctx, Partial, Violation, digest, hyp_search, shard_map

RULE = ("RFC 5322/MIME messages produced by the standard library's email generator (policy SMTP) from a model: subjects and display names over ASCII / Latin / Cyrillic / CJK / emoji "
        "(RFC 2047 words, long values folded), address lists with quoted commas, Cc/Bcc/Reply-To/In-Reply-To, dates in varied zones, plain and/or HTML bodies in us-ascii, utf-8, "
        "iso-8859-1, iso-8859-15, windows-1252, koi8-r, shift_jis with 7bit/8bit/quoted-printable/base64, structures single / alternative / mixed / mixed(alternative) / "
        "mixed(related(alternative)), optionally with the attachments in front of the body, a forwarded message attached as message/rfc822, two attachments of one name or of one declared type, 0..3 attachments that are generated documents (pdf, docx, xlsx, txt, csv, html) or binary blobs with ASCII / non-ASCII (RFC 2231) names; mboxes of "
        "1..4 such messages with LF or CRLF line ends and bodies containing '>From ' escapes and near-separator lines. Oracle: decoded subject, exact sender and recipient (name, address) "
        "pairs, same-instant ISO date, message id, plain and HTML bodies (modulo line ends and outer whitespace), every attachment with name, type and exact bytes; one mbox result per "
        "message in order, equal field by field to the .eml result of the same message; supported attachments extract to the same content as the attached file on its own. "
        "Non-trivial = non-ASCII header or non-UTF-8 body charset, or >=2 nesting levels, or >=1 attachment; mbox with >=2 messages; distinct by digest.")
ASSUMPTIONS = ["messages are those a conforming generator writes (Date present, From_ lines escaped)", "text/* attachment bytes are compared modulo line endings (the SMTP policy itself rewrites them)"]

CHARSETS = {
    "us-ascii": "plain ASCII text 123 ~!",
    "utf-8": "Grüße žluťoučký Ελληνικά русский 日本語 😀",
    "iso-8859-1": "Grüße café crème ñandú ÷ ¿",
    "iso-8859-15": "Grüße € Œuvre Šimon",
    "windows-1252": "Grüße € “quotes” – dash … ™",
    "koi8-r": "Привет мир проверка",
    "shift_jis": "日本語のテキスト カタカナ",
}
NAMES = ["Alice Sender", "Bob", "", "Müller, Jörg", "Ünal Özgür", "Иван Петров", "山田 太郎", "O'Brien, \"Q\"", "A" * 60 + " Long Name", "😀 Emoji Person"]
SUBJECTS = ["Quarterly report", "Re: [list] update", "Grüße aus München", "Отчёт за квартал", "会議の議事録", "€ 100 — “deal” 😀", "A fairly long subject line with many ordinary words so that the generator has to fold it somewhere in the middle of the header, twice if needed",
            "Subject with  two  spaces", "100% =?not an encoded word?= literal", "tab\there", "Budget by region,\tfiscal year 2024", "Minutes of the meeting held on  2 January 2024"]


def build_message(m):
    from email.message import EmailMessage
    from email.utils import format_datetime, formataddr
    from email.headerregistry import Address
    msg = EmailMessage()

    def addr(pair):
        name, a = pair
        user, dom = a.split("@")
        return Address(display_name=name, username=user, domain=dom)
    # address headers are written by hand (see eml_bytes): the stdlib's refolding of address lists with encoded display names
    # can move the separating comma into the next name's encoded word, which is not what the model says
    msg["X-VF-Addresses"] = "placeholder"
    if m.get("fold_subject") and _fold_point(m["subject"]):
        msg["X-VF-Subject"] = "placeholder"        # written by hand in _serialise: folded in front of a tab / a run of two spaces
    else:
        msg["Subject"] = m["subject"]
    tz = datetime.timezone(datetime.timedelta(minutes=m["date"]["tz"]))
    msg["Date"] = datetime.datetime.fromtimestamp(m["date"]["ts"], tz)
    msg["Message-ID"] = m["message_id"]
    if m.get("in_reply_to"):
        msg["In-Reply-To"] = m["in_reply_to"]
    plain, html = m.get("plain"), m.get("html")
    structure = m["structure"]
    if plain and (structure != "html-only"):
        msg.set_content(plain["text"], subtype="plain", charset=plain["charset"], cte=plain["cte"])
        if html:
            msg.add_alternative(html["text"], subtype="html", charset=html["charset"], cte=html["cte"])
    elif html:
        msg.set_content(html["text"], subtype="html", charset=html["charset"], cte=html["cte"])
    if structure == "related" and html:
        # multipart/related: html + inline image
        target = msg.get_body(preferencelist=("html",))
        if target is not None:
            target.add_related(bytes.fromhex("89504e470d0a1a0a"), maintype="image", subtype="png", cid="<img1@vf>")
    for a in m.get("attachments", []):
        data = attachment_bytes(a)
        maintype, subtype = a["type"].split("/")
        if a.get("charset"):
            # a text file in a legacy charset, attached as it is (base64) with the charset declared
            msg.add_attachment(data, maintype=maintype, subtype=subtype, filename=a["name"])
            list(msg.iter_attachments())[-1].set_param("charset", a["charset"])
        elif maintype == "text":
            msg.add_attachment(data.decode("utf-8"), subtype=subtype, filename=a["name"])
        else:
            msg.add_attachment(data, maintype=maintype, subtype=subtype, filename=a["name"])
    if m.get("attachment_first") and msg.is_multipart() and msg.get_content_subtype() == "mixed" and len(msg.get_payload()) >= 2:
        # the order of the parts of multipart/mixed is the sender's choice: some clients put the attachments in front of the body
        parts = msg.get_payload()
        msg.set_payload(parts[1:] + parts[:1])
    if m.get("forward"):
        # a forwarded mail attached as message/rfc822 (no file name): its text is the attachment's, not this message's body
        inner = EmailMessage()
        inner["Subject"], inner["From"], inner["To"] = "forwarded", "x@example.org", "y@example.org"
        inner.set_content("INNER forwarded text ZX09030 that belongs to the attachment\n")
        msg.add_attachment(inner)
    return msg


def attachment_bytes(a):
    if a.get("hex") is not None:
        return bytes.fromhex(a["hex"])
    from vf.props.c10 import member_bytes
    return member_bytes({"fmt": a["fmt"], "seed": a["seed"]})


def address_headers(m, linesep):
    from email.utils import formataddr
    out = []
    for header, pairs in (("From", [m["from"]]), ("To", m["to"]), ("Cc", m.get("cc") or []), ("Bcc", m.get("bcc") or []), ("Reply-To", m.get("reply_to") or [])):
        if pairs:
            out.append(f"{header}: " + f",{linesep} ".join(formataddr(tuple(p), charset="utf-8") for p in pairs))
    return linesep.join(out)


def _fold_point(subject: str):
    """index of white space (a tab, or the first of two spaces) in an ASCII subject at which a writer may fold: unfolding removes only the line break"""
    if not subject.isascii():
        return None
    for i in range(1, len(subject) - 1):
        if subject[i] == "\t" or subject[i:i + 2] == "  ":
            return i
    return None


def _serialise(m, linesep):
    from email import policy
    raw = build_message(m).as_bytes(policy=policy.SMTP.clone(linesep=linesep))
    if m.get("fold_subject") and _fold_point(m["subject"]):
        i = _fold_point(m["subject"])
        raw = raw.replace(b"X-VF-Subject: placeholder", ("Subject: " + m["subject"][:i] + linesep + m["subject"][i:]).encode("ascii"), 1)
    return raw.replace(b"X-VF-Addresses: placeholder", address_headers(m, linesep).encode("ascii"), 1)


def eml_bytes(m):
    return _serialise(m, "\r\n")


def mbox_bytes(messages, crlf=False):
    from email import policy
    out = []
    for i, m in enumerate(messages):
        raw = _serialise(m, "\n")
        lines = raw.split(b"\n")
        body = b"\n".join((b">" + ln if ln.startswith(b"From ") else ln) for ln in lines)
        if not body.endswith(b"\n"):
            body += b"\n"
        out.append(b"From " + m.get("envelope", "sender@example.org").encode("ascii") + b" Fri Mar  1 12:0%d:00 2024\n" % (i % 10) + body + b"\n")
    data = b"".join(out)
    return data.replace(b"\n", b"\r\n") if crlf else data


# ---- oracle -------------------------------------------------------------------------------------------------------------
def _norm_body(s, mbox=False):
    lines = s.replace("\r\n", "\n").replace("\r", "\n").split("\n")
    if mbox:
        # mboxo quoting: whether '>From ' is un-escaped again is not specified (the writer cannot tell it from a literal '>From ')
        import re
        # (a soft-wrapped quoted-printable line may start with 'From ' too, so the '>' can end up anywhere in the decoded text)
        lines = [re.sub(r">+(From )", r"\1", ln) for ln in lines]
    return "\n".join(lines).strip()


def _pairs(lst):
    return [(a.name, a.address) for a in lst]


def _same_instant(iso, want_ts):
    try:
        d = datetime.datetime.fromisoformat(iso)
    except Exception:  # noqa
        return False
    if d.tzinfo is None:
        d = d.replace(tzinfo=datetime.timezone.utc)
    return int(d.timestamp()) == want_ts


def judge_result(r, m, *, source, check_attachments=True):
    fails = []

    def chk(clause, got, want, what):
        if got != want:
            fails.append((clause, f"[{source}] {what}: got {got!r}, message has {want!r}"))
    chk("subject", r.subject, m["subject"].strip(), "subject")
    chk("sender", (r.from_email.name, r.from_email.address), tuple(m["from"]), "sender")
    chk("recipients", _pairs(r.to_emails), [tuple(p) for p in m["to"]], "To")
    chk("recipients", _pairs(r.to_cc), [tuple(p) for p in m.get("cc") or []], "Cc")
    chk("recipients", _pairs(r.to_bcc), [tuple(p) for p in m.get("bcc") or []], "Bcc")
    rt = r.reply_to if isinstance(r.reply_to, list) else []
    chk("recipients", _pairs(rt), [tuple(p) for p in m.get("reply_to") or []], "Reply-To")
    if not _same_instant(r.metadata.date, m["date"]["ts"]):
        fails.append(("date", f"[{source}] date {r.metadata.date!r} is not the instant {datetime.datetime.fromtimestamp(m['date']['ts'], datetime.timezone.utc).isoformat()}"))
    if r.metadata.message_id.strip("<>") != m["message_id"].strip("<>"):
        fails.append(("message-id", f"[{source}] message id {r.metadata.message_id!r} vs {m['message_id']!r}"))
    mb = source.startswith("mbox")
    want_plain = _norm_body(m["plain"]["text"], mb) if m.get("plain") and m["structure"] != "html-only" else ""
    want_html = _norm_body(m["html"]["text"], mb) if m.get("html") else ""
    if _norm_body(r.body_plain, mb) != want_plain:
        got_plain = _norm_body(r.body_plain, mb)
        inner_only = m.get("forward") and got_plain.startswith(want_plain) and got_plain[len(want_plain):].strip() == "INNER forwarded text ZX09030 that belongs to the attachment"
        fails.append(("body-includes-attached-message" if inner_only else "body", f"[{source}] plain body {got_plain[:80]!r} vs {want_plain[:80]!r}"))
    if _norm_body(r.body_html, mb) != want_html:
        fails.append(("body", f"[{source}] html body {_norm_body(r.body_html, mb)[:80]!r} vs {want_html[:80]!r}"))
    if check_attachments:
        want_atts = m.get("attachments", [])
        got_atts = list(r.attachments)
        if m["structure"] == "related":
            # whether the inline image of multipart/related counts as an attachment is not specified: ignore it
            got_atts = [a for a in got_atts if not (a.mime_type == "image/png" and a.filename not in [w["name"] for w in want_atts])]
        if m.get("forward"):
            # how the attached message itself is listed (name, as one attachment or not) is not specified: it is left out of the comparison
            got_atts = [a for a in got_atts if a.mime_type != "message/rfc822"]
        if len(got_atts) != len(want_atts):
            fails.append(("attachments", f"[{source}] {len(got_atts)} attachments, message has {len(want_atts)}"))
        else:
            for got, a in zip(got_atts, want_atts):
                data = attachment_bytes(a)
                got.data.seek(0)
                gb = got.data.read()
                got.data.seek(0)
                same = gb == data or (a["type"].startswith("text/") and gb.replace(b"\r\n", b"\n").rstrip(b"\n") == data.replace(b"\r\n", b"\n").rstrip(b"\n"))
                if got.filename != a["name"]:
                    fails.append(("attachments", f"[{source}] attachment name {got.filename!r} vs {a['name']!r}"))
                elif got.mime_type != a["type"]:
                    fails.append(("attachments", f"[{source}] attachment {a['name']!r} type {got.mime_type!r} vs {a['type']!r}"))
                elif not same:
                    fails.append(("attachments", f"[{source}] attachment {a['name']!r}: {len(gb)} bytes differ from the attached {len(data)} bytes"))
    return fails


def judge_supported_attachments(r, m, source):
    from sharepoint2text.parsing.router import get_extractor, is_supported_file
    fails = []
    want = []
    received = {}
    for att in r.attachments:          # several attachments may carry one name: they are taken in order
        received.setdefault(att.filename, []).append(att.data.getvalue())
    for a in m.get("attachments", []):
        from sharepoint2text.parsing.mime_types import MIME_TYPE_MAPPING as _MM
        if a["type"] in _MM:          # "supported" is decided by the declared type; the extractor is then chosen by the file name first, by the type otherwise
            try:
                # the documented rule: by file name, else by the declared MIME type; the attached file is the bytes as they arrived
                # (exactness of those bytes is the attachments clause; text parts travel with the transport's line endings)
                from sharepoint2text.parsing.mime_types import MIME_TYPE_MAPPING
                ex = get_extractor(a["name"]) if is_supported_file(a["name"]) else get_extractor("attachment." + MIME_TYPE_MAPPING[a["type"]])
                res = list(ex(io.BytesIO(received[a["name"]].pop(0) if received.get(a["name"]) else attachment_bytes(a)), a["name"]))
                want.extend(x.to_json() for x in res)
            except Exception:  # noqa
                pass
    if m.get("forward"):
        return fails        # the attached message is itself a supported attachment with an unspecified name: this clause is judged on messages without one
    try:
        got = [x.to_json() for x in r.iterate_supported_attachments()]
    except Exception as e:  # noqa
        return [("supported-attachments", f"[{source}] iterate_supported_attachments raised {type(e).__name__}: {e}")]

    def norm(x):
        # text/* attachments travel with the line endings of the transport (CRLF under the SMTP policy)
        if isinstance(x, str):
            return x.replace("\r\n", "\n").rstrip("\n")
        if isinstance(x, list):
            return [norm(v) for v in x]
        if isinstance(x, dict):
            return {k: norm(v) for k, v in x.items()}
        return x

    def strip(j):
        j = copy.deepcopy(j)
        if isinstance(j.get("metadata"), dict):
            for k in ("filename", "file_extension", "file_path", "folder_path", "detected_encoding"):
                j["metadata"].pop(k, None)
        return norm(j)
    if [strip(g) for g in got] != [strip(w) for w in want]:
        fails.append(("supported-attachments", f"[{source}] {len(got)} attachment extraction results, expected {len(want)} equal to extracting the attached files directly"))
    return fails


def judge(case):
    from sharepoint2text.parsing.exceptions import ExtractionError
    from sharepoint2text.parsing.extractors.mail.eml_email_extractor import read_eml_format_mail
    from sharepoint2text.parsing.extractors.mail.mbox_email_extractor import read_mbox_format_mail
    msgs = case["messages"]
    fails = []
    eml_results = []
    for i, m in enumerate(msgs):
        try:
            res = list(read_eml_format_mail(io.BytesIO(eml_bytes(m)), f"m{i}.eml"))
        except ExtractionError as e:
            fails.append(("rejected", f"[eml {i}] a conforming message was rejected: {type(e).__name__}: {e} (cause {getattr(e, '__cause__', None)!r})"))
            eml_results.append(None)
            continue
        if len(res) != 1:
            fails.append(("count", f"[eml {i}] {len(res)} results for one message"))
            eml_results.append(None)
            continue
        eml_results.append(res[0])
        fails += judge_result(res[0], m, source=f"eml {i}")
        fails += judge_supported_attachments(res[0], m, f"eml {i}")
    try:
        mres = list(read_mbox_format_mail(io.BytesIO(mbox_bytes(msgs, crlf=case.get("crlf", False))), "box.mbox"))
    except ExtractionError as e:
        fails.append(("rejected", f"[mbox] a conforming mailbox was rejected: {type(e).__name__}: {e} (cause {getattr(e, '__cause__', None)!r})"))
        return fails
    if len(mres) != len(msgs):
        fails.append(("mbox-boundaries", f"[mbox] {len(mres)} results for {len(msgs)} messages"))
        return fails
    for i, (r, m) in enumerate(zip(mres, msgs)):
        fails += judge_result(r, m, source=f"mbox {i}")
        fails += judge_supported_attachments(r, m, f"mbox {i}")
        e = eml_results[i]
        if e is not None:
            for field in ("subject", "body_plain", "body_html", "in_reply_to"):
                if field == "body_plain" and m.get("forward"):
                    continue          # judged against the message itself by both readers (the .eml reader's appended text is a listed finding)
                if _norm_body(getattr(r, field), True) != _norm_body(getattr(e, field), True):
                    fails.append(("eml-vs-mbox", f"[message {i}] {field}: eml {getattr(e, field)[:60]!r} vs mbox {getattr(r, field)[:60]!r}"))
            if _pairs(r.to_emails) != _pairs(e.to_emails) or (r.from_email.name, r.from_email.address) != (e.from_email.name, e.from_email.address):
                fails.append(("eml-vs-mbox", f"[message {i}] addresses differ between the eml and the mbox result"))
    return fails


# ---- strategy ---------------------------------------------------------------------------------------------------------------
def _addr_st():
    local = st.sampled_from(["alice", "bob.smith", "j.doe+tag", "info", "no-reply", "x_y"])
    dom = st.sampled_from(["example.org", "mail.example.com", "sub.domain.example.net"])
    return st.tuples(st.sampled_from(NAMES), st.tuples(local, dom).map(lambda t: f"{t[0]}@{t[1]}")).map(list)


def _body_st(html=False):
    def mk(t):
        charset, cte, extra, tok = t
        text = CHARSETS[charset]
        lines = [f"Line one {tok}", text, "From the start of a line", ">From quoted", "  indented", extra, "last line."]
        if cte == "7bit" and charset != "us-ascii":
            cte = "quoted-printable"
        if charset == "us-ascii" and cte == "8bit":
            cte = "7bit"
        if cte == "7bit":
            lines = [ln for ln in lines if ln.isascii()]
        body = "\n".join(lines) + "\n"
        if html:
            body = "<html><body><p>" + "</p><p>".join(lines) + "</p></body></html>\n"
        return {"text": body, "charset": charset, "cte": cte}
    return st.tuples(st.sampled_from(sorted(CHARSETS)), st.sampled_from(["7bit", "8bit", "quoted-printable", "base64"]),
                     st.sampled_from(["", "x" * 90, "From sender@example.org Fri Mar  1 12:00:00 2024 inside text", "From sender@example.org Fri Mar  1 12:00:00 2024", "mid-line From a@b.c 1999", "From", "semi=colon;equals=", "."]), st.integers(1000, 9999).map(lambda n: f"ZB{n:05d}")).map(mk)


def _att_st():
    doc = st.tuples(st.sampled_from(["pdf", "docx", "xlsx", "txt", "csv", "html"]), st.integers(1, 10**6),
                    st.sampled_from(["report", "Übersicht 2024", "日本語", "a b (1)", "x" * 50, "2024/q1/report", "scans\\page 1", "y" * 250])).map(
        lambda t: {"name": f"{t[2]}.{t[0]}", "fmt": t[0], "seed": t[1],
                   "type": {"pdf": "application/pdf", "docx": "application/vnd.openxmlformats-officedocument.wordprocessingml.document",
                            "xlsx": "application/vnd.openxmlformats-officedocument.spreadsheetml.sheet", "txt": "text/plain", "csv": "text/csv", "html": "text/html"}[t[0]]})
    blob = st.tuples(st.binary(min_size=0, max_size=40), st.sampled_from(["blob.bin", "image.png", "no extension"])).map(lambda t: {"name": t[1], "hex": t[0].hex(), "type": "application/octet-stream"})
    legacy = st.tuples(st.sampled_from([("latin.csv", "text/csv", "iso-8859-1", "Größe;Preis\nTür;5\n"), ("umlaute.txt", "text/plain", "cp1252", "Straße – „Zitat“ 5 €\n"),
                                        ("latin2.txt", "text/plain", "iso-8859-2", "Łódź żółć\n")]), st.integers(0, 99)).map(
        lambda t: {"name": f"{t[1]}-{t[0][0]}", "hex": t[0][3].encode(t[0][2]).hex(), "type": t[0][1], "charset": t[0][2]})
    # file name and declared type disagree: the documented rule routes by the name first (a .csv sent as application/vnd.ms-excel is still a CSV file)
    mism = st.tuples(st.sampled_from([("notes.html", "text/plain", "<html><body><p>note ZB09001 text</p></body></html>"), ("table.csv", "application/vnd.ms-excel", "id,city\n1,Oslo ZB09002\n"),
                                      ("readme.md", "application/octet-stream", "# title ZB09003\n\ntext\n"), ("data.json", "text/plain", '{"k": "ZB09004"}'), ("page.txt", "text/html", "plain ZB09005 text\n")]),
                     st.integers(0, 99)).map(lambda t: {"name": f"{t[1]}-{t[0][0]}", "hex": t[0][2].encode().hex(), "type": t[0][1]})
    return st.one_of(doc, doc, blob, legacy, mism)


_PAIRS_CACHE = None


def _same_type_pairs():
    global _PAIRS_CACHE
    if _PAIRS_CACHE is None:
        from vf.gen import sheets
        xls = sheets.render_xls({"props": {}, "sheets": [{"name": "S1", "origin": [0, 0], "hdr_rows": 0, "rows": [[{"t": "s", "v": "colA"}, {"t": "s", "v": "colB"}], [{"t": "s", "v": "ZB09011"}, {"t": "n", "v": 4}]]}]})
        _PAIRS_CACHE = [
            [{"name": "figures.csv", "hex": b"id,city\n1,Oslo ZB09010\n".hex(), "type": "application/vnd.ms-excel"}, {"name": "ledger.xls", "hex": xls.hex(), "type": "application/vnd.ms-excel"}],
            [{"name": "notes.html", "hex": b"<html><body><p>note ZB09012 text</p></body></html>".hex(), "type": "text/plain"}, {"name": "page.txt", "hex": b"plain ZB09013 text\n".hex(), "type": "text/plain"}],
            [{"name": "summary.csv", "hex": b"k,v\na,ZB09014\n".hex(), "type": "text/html"}, {"name": "index.html", "hex": b"<html><body><p>index ZB09015</p></body></html>".hex(), "type": "text/html"}],
        ]
    return _PAIRS_CACHE


@st.composite
def messages(draw, idx=0):
    structure = draw(st.sampled_from(["single", "single", "alternative", "html-only", "related", "alternative"]))
    plain = draw(_body_st()) if structure != "html-only" else None
    html = draw(_body_st(html=True)) if structure in ("alternative", "html-only", "related") else None
    atts = draw(st.lists(_att_st(), max_size=3)) if draw(st.booleans()) else []
    if draw(st.integers(0, 7)) == 0:
        atts = [dict(a) for a in _same_type_pairs()[draw(st.integers(0, 2))]]       # one declared type, two extensions that go to different extractors
        if draw(st.booleans()):
            atts.reverse()
    names = set()
    for a in atts:
        while a["name"] in names:
            a["name"] = "n" + a["name"]
        names.add(a["name"])
    if atts and draw(st.integers(0, 5)) == 0:
        # the same file attached twice under one name (two exports, a corrected version): same name and declared type, other bytes
        first = dict(draw(st.sampled_from(atts)))
        if first.get("hex") is not None and first["type"].startswith("text/") and not first.get("charset"):
            first["hex"] = (bytes.fromhex(first["hex"]) + b"second copy ZB09020\n").hex()
            atts.append(first)
        elif first.get("fmt"):
            first["seed"] = first["seed"] + 3
            atts.append(first)
    return {
        "subject": draw(st.sampled_from(SUBJECTS)), "from": draw(_addr_st()), "to": draw(st.lists(_addr_st(), min_size=1, max_size=3)),
        "cc": draw(st.lists(_addr_st(), max_size=2)), "bcc": draw(st.lists(_addr_st(), max_size=1)), "reply_to": draw(st.lists(_addr_st(), max_size=1)),
        "date": {"ts": draw(st.integers(946684800, 1893456000)), "tz": draw(st.sampled_from([0, 60, 120, -300, 330, 345, -720, 840]))},
        "message_id": f"<vf-{draw(st.integers(1, 10**9))}-{idx}@mail.example.org>", "in_reply_to": draw(st.sampled_from([None, "<parent-1@example.org>"])),
        "plain": plain, "html": html, "structure": structure, "attachments": atts,
        # the sender of the mbox separator line need not be an address: MAILER-DAEMON (what mailbox.mbox writes), "-" (Thunderbird), a bare user name
        "fold_subject": draw(st.booleans()), "forward": draw(st.integers(0, 5)) == 0, "attachment_first": draw(st.integers(0, 3)) == 0,
        "envelope": draw(st.sampled_from(["sender@example.org", "sender@example.org", "MAILER-DAEMON", "-", "nobody", "root"])),
    }


@st.composite
def cases(draw):
    n = draw(st.integers(1, 4))
    return {"messages": [draw(messages(i)) for i in range(n)], "crlf": draw(st.booleans())}


def features(case):
    f = set()
    for m in case["messages"]:
        if not m["subject"].isascii():
            f.add("header.non-ascii-subject")
        if any(not p[0].isascii() for p in [m["from"]] + m["to"] + (m.get("cc") or [])):
            f.add("header.non-ascii-name")
        if any("," in p[0] or '"' in p[0] for p in [m["from"]] + m["to"] + (m.get("cc") or []) + (m.get("bcc") or []) + (m.get("reply_to") or [])):
            f.add("header.quoted-name")
        if len(m["subject"]) > 70:
            f.add("header.folded")
        if m.get("forward"):
            f.add("forward")
        for b in (m.get("plain"), m.get("html")):
            if b:
                f.add("body.charset." + b["charset"])
                f.add("body.cte." + b["cte"])
        f.add("structure." + m["structure"])
        if m.get("attachments"):
            f.add("attachment")
            if any(not a["name"].isascii() for a in m["attachments"]):
                f.add("attachment.rfc2231-name")
            if any(a["type"].startswith("text/") for a in m["attachments"]):
                f.add("attachment.text")
        if m.get("reply_to"):
            f.add("header.reply-to")
    if len(case["messages"]) >= 2:
        f.add("mbox.multi")
    if case.get("crlf"):
        f.add("mbox.crlf")
    return f


def validate(case):
    assert case["messages"] and isinstance(case.get("crlf", False), bool)
    for m in case["messages"]:
        assert m["subject"] in SUBJECTS and m["structure"] in ("single", "alternative", "html-only", "related")
        for p in [m["from"]] + m["to"] + (m.get("cc") or []) + (m.get("bcc") or []) + (m.get("reply_to") or []):
            assert p[0] in NAMES and p[1].count("@") == 1 and p[1].split("@")[0] in ("alice", "bob.smith", "j.doe+tag", "info", "no-reply", "x_y") and p[1].split("@")[1] in ("example.org", "mail.example.com", "sub.domain.example.net")
        assert m["to"] and m.get("envelope", "sender@example.org") in ("sender@example.org", "MAILER-DAEMON", "-", "nobody", "root")
        assert m["message_id"].startswith("<") and m["message_id"].endswith("@mail.example.org>")
        for b in (m.get("plain"), m.get("html")):
            if b:
                assert b["charset"] in CHARSETS and b["cte"] in ("7bit", "8bit", "quoted-printable", "base64")
                b["text"].encode(b["charset"])
                assert b["cte"] != "7bit" or b["text"].isascii()
        assert (m.get("plain") is not None) == (m["structure"] != "html-only") and (m.get("html") is not None) == (m["structure"] in ("alternative", "html-only", "related"))
        for a in m.get("attachments", []):
            assert a.get("charset") in (None, "iso-8859-1", "cp1252", "iso-8859-2") and (a.get("charset") is None or (a.get("hex") is not None and a["type"].startswith("text/")))
            assert a.get("charset") is None or a["name"].rsplit(".", 1)[-1] in ("csv", "txt")
            assert a["name"] and a["type"] in ("application/vnd.ms-excel", "application/pdf", "application/vnd.openxmlformats-officedocument.wordprocessingml.document", "application/vnd.openxmlformats-officedocument.spreadsheetml.sheet",
                                                "text/plain", "text/csv", "text/html", "application/octet-stream") and (a.get("hex") is not None or a["fmt"] in ("pdf", "docx", "xlsx", "txt", "csv", "html"))
            if a.get("fmt"):
                assert a["name"].endswith("." + a["fmt"]) and len(a["name"]) > len(a["fmt"]) + 1
    return True


def evaluate(ctx: Ctx, case, part: Partial | None = None):
    validate(case)
    fails = judge(case)
    feats = features(case)
    if part is not None:
        nt = bool(feats & {"header.non-ascii-subject", "header.non-ascii-name", "attachment", "mbox.multi"}) or any(f.startswith("body.charset.") and f not in ("body.charset.utf-8", "body.charset.us-ascii") for f in feats)
        part.case(digest(case), nt, sample={"messages": len(case["messages"]), "features": sorted(feats)} if part.evaluations % 31 == 0 else None, messages=len(case["messages"]), attachments="attachment" in feats)
        for f in feats:
            part.hist[f] += 1
    if not fails:
        return []
    # known findings are matched per failing clause + source family (eml / mbox) with the feature they need
    remaining = []
    for c, d in fails:
        src = "mbox" if d.startswith("[mbox") else "eml" if d.startswith("[eml") else "both"
        ks = [k for k in ctx.known if k.get("status") == "open" and c in k.get("clauses", []) and k.get("format") in (src, None) and (k.get("feature") in feats or not k.get("feature"))]
        if ks:
            if part is not None:
                part.known_hits[ks[0]["id"]] += 1
            continue
        remaining.append((c, d))
    if not remaining:
        return []
    c, d = remaining[0]
    src = "mbox" if d.startswith("[mbox") else "eml" if d.startswith("[eml") else "both"
    return [Violation(c, f"C16:{src}:{c}", f"{d}; all: {sorted({x for x, _ in remaining})}; features {sorted(feats)}", {"kind": "mail", "model": case})]


def shard(ctx: Ctx):
    part = Partial()
    hyp_search(ctx, "c16", cases(), lambda c: evaluate(ctx, c, part), ctx.n(2400, 40000) // ctx.nshards + 1, part)
    return part


def run(ctx: Ctx) -> Partial:
    return shard_map(ctx, "vf.props.c16", "shard", 16)


def replay(ctx: Ctx, payload: dict):
    return evaluate(ctx, payload["model"])
