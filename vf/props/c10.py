"""C10 — Archive members come out as themselves: right bytes, name, order."""
from __future__ import annotations

import io
import json
import os
import tarfile
import zipfile

from hypothesis import strategies as st

from vf.gen import sevenz
from vf.runner import Ctx, Partial, Violation, digest, hyp_search, shard_map

RULE = ("archives built by reference writers (zipfile stored/deflated; tarfile plain/gz/bz2/xz; an independent 7z writer with Copy/LZMA/LZMA2 coders, solid / one-folder-per-file / mixed "
        "layouts, plain or encoded header, with/without attributes and CRCs) over 0..6 generated member documents (txt, md, csv, json, html, rtf, docx, xlsx, ods, odt, odp, pdf, eml, epub) "
        "interleaved with directories, empty files, hidden files, __MACOSX entries, nested archives and unsupported types, in sub-directories with unicode names; optionally one member "
        "corrupted (truncated / garbage). Oracle: read_archive yields, in archive order, exactly the results of the supported visible members, each identical (to_json) to extracting that "
        "member's bytes on its own with path 'archive!/member'; a corrupt or unsupported member affects only itself. Non-trivial = >=2 supported members of >=2 formats, or for 7z >=2 "
        "folders or an empty file; distinct by digest.")
ASSUMPTIONS = ["zipfile, tarfile and the harness's 7z writer (self-checked by its own reader; cross-checked with bsdtar when it was written) are reference packers"]

MEMBER_FORMATS = ["txt", "md", "csv", "json", "html", "rtf", "docx", "xlsx", "ods", "odt", "odp", "pdf", "eml", "epub"]
ARCHIVE_KINDS = ["zip-stored", "zip-deflated", "tar", "tar.gz", "tar.bz2", "tar.xz", "7z"]


def member_bytes(m):
    """m = {"fmt", "seed"}: a small deterministic document of that format with unique tokens."""
    from vf.gen import sheets
    from vf.gen.profiles import PROFILES
    from vf.gen.tokens import make
    fmt, seed = m["fmt"], m["seed"]
    t = [make("B", (seed * 7 + i) % (36 ** 5)) for i in range(4)]
    if fmt in ("xlsx", "ods"):
        S = lambda v: {"t": "s", "v": v}  # noqa
        grid = {"props": {}, "sheets": [{"name": "Sheet1", "origin": [0, 0], "rows": [[S(t[0]), S(t[1])], [S(t[2]), S(t[3])]], "hdr_rows": 0}]}
        return (sheets.render_xlsx if fmt == "xlsx" else sheets.render_ods)(grid)
    P = lambda tok: {"k": "p", "inl": [{"k": "t", "tok": tok, "sty": 0}], "h": None}  # noqa
    doc = {"props": {}, "units": [{"name": None, "blocks": [P(t[0]), P(t[1]), {"k": "tbl", "hdr": 0, "rows": [[{"blocks": [P(t[2])]}, {"blocks": [P(t[3])]}]]}], "notes": None}],
           "header": None, "footer": None, "comments": []}
    if fmt in ("csv", "json", "md", "eml"):
        doc["units"][0]["blocks"] = doc["units"][0]["blocks"][:2] if fmt != "csv" else doc["units"][0]["blocks"][2:]
    return PROFILES[fmt]["render"](doc)


def entries_of(case):
    """-> list of (name, data|None, is_dir) in archive order, with the corruption applied."""
    out = []
    for e in case["entries"]:
        k = e["k"]
        if k == "dir":
            out.append((e["name"], None, True))
        elif k == "doc":
            data = member_bytes(e)
            if e.get("pad") and e["fmt"] == "txt":
                # a member above 16 KiB (sizes that need a third byte in a 7z header number, several deflate blocks, several tar blocks)
                lines = (b"line %05d of the long member " % i + data[:7] + b"\n" for i in range(e["pad"] // 40 + 1))
                data = data + b"\n" + b"".join(lines)
            c = e.get("corrupt")
            if c == "truncate":
                data = data[:max(1, len(data) // 3)]
            elif c == "garbage":
                data = bytes((b * 31 + 7) % 256 for b in data[:64]) + data[64:len(data) // 2]
            out.append((e["name"], data, False))
        elif k == "raw":
            out.append((e["name"], bytes.fromhex(e["hex"]), False))
    return out


def build(case):
    kind = case["kind"]
    ents = entries_of(case)
    if kind.startswith("zip"):
        buf = io.BytesIO()
        with zipfile.ZipFile(buf, "w", zipfile.ZIP_STORED if kind == "zip-stored" else zipfile.ZIP_DEFLATED) as z:
            for name, data, is_dir in ents:
                zi = zipfile.ZipInfo(name + ("/" if is_dir and not name.endswith("/") else ""), date_time=(2024, 3, 1, 12, 0, 0))
                zi.compress_type = zipfile.ZIP_STORED if kind == "zip-stored" else zipfile.ZIP_DEFLATED
                if is_dir:
                    zi.external_attr = 0x10 | (0o40755 << 16)
                z.writestr(zi, data or b"")
        return buf.getvalue()
    if kind.startswith("tar"):
        mode = {"tar": "w:", "tar.gz": "w:gz", "tar.bz2": "w:bz2", "tar.xz": "w:xz"}[kind]
        buf = io.BytesIO()
        with tarfile.open(fileobj=buf, mode=mode, format=tarfile.PAX_FORMAT if case.get("pax") else tarfile.GNU_FORMAT) as tf:
            for name, data, is_dir in ents:
                ti = tarfile.TarInfo(name.rstrip("/") if is_dir else name)
                ti.mtime = 1709294400
                if is_dir:
                    ti.type = tarfile.DIRTYPE
                    ti.mode = 0o755
                    tf.addfile(ti)
                else:
                    ti.size = len(data)
                    tf.addfile(ti, io.BytesIO(data))
        return buf.getvalue()
    o = case.get("sz", {})
    members = [sevenz.Member(name.rstrip("/") if is_dir else name, None if is_dir else data, is_dir) for name, data, is_dir in ents]
    return sevenz.write_7z(members, method=o.get("method", "copy"), layout=o.get("layout", "solid"), encode_header=o.get("encode_header", False),
                           with_attributes=o.get("attrs", True), crc=o.get("crc", True), dict_size=o.get("dict"))


def _is_nested_archive(base):
    b = base.lower()
    return any(b.endswith(x) for x in (".zip", ".tar", ".tar.gz", ".tgz", ".tar.bz2", ".tbz2", ".tar.xz", ".txz", ".7z"))


def expected(case, archive_path):
    """reference: for each supported visible regular member in order -> (member name, list of to_json) from direct extraction; failing members contribute nothing."""
    from sharepoint2text.parsing.router import get_extractor, is_supported_file
    out = []
    for name, data, is_dir in entries_of(case):
        if is_dir:
            continue
        base = os.path.basename(name)
        if not base or base.startswith(".") or name.startswith("__MACOSX/") or _is_nested_archive(base) or not is_supported_file(base):
            continue
        full = f"{archive_path}!/{name}" if archive_path else name
        try:
            res = list(get_extractor(base)(io.BytesIO(data), full))
        except Exception:  # noqa
            continue
        out.append((name, [r.to_json() for r in res]))
    return out


def judge(case):
    from sharepoint2text.parsing.exceptions import ExtractionError
    from sharepoint2text.parsing.extractors.archive_extractor import read_archive
    data = build(case)
    apath = case.get("path", "dir/box." + {"zip-stored": "zip", "zip-deflated": "zip"}.get(case["kind"], case["kind"]))
    want = expected(case, apath)
    try:
        got = list(read_archive(io.BytesIO(data), apath))
    except ExtractionError as e:
        return [("archive-rejected", f"read_archive raised {type(e).__name__}: {e} (cause {type(getattr(e, '__cause__', None)).__name__}: {getattr(e, '__cause__', None)}) for an archive of {len(want)} extractable members")]
    except Exception as e:  # noqa
        return [("raised", f"{type(e).__name__}: {e}")]
    flat_want = [(n, j) for n, js in want for j in js]
    fails = []
    got_json = [g.to_json() for g in got]
    if len(got_json) != len(flat_want):
        names = [g.get_metadata().file_path for g in got]
        fails.append(("member-set", f"{len(got_json)} results {names} for {len(flat_want)} expected from members {[n for n, _ in flat_want]}"))
        return fails
    for i, (g, (n, j)) in enumerate(zip(got_json, flat_want)):
        if g != j:
            from vf.props.c05 import _first_diff
            gm, jm = g.get("metadata", {}), j.get("metadata", {})
            if gm.get("file_path") != jm.get("file_path") or gm.get("filename") != jm.get("filename"):
                fails.append(("label", f"result {i + 1}: labelled {gm.get('filename')!r} / {gm.get('file_path')!r}, expected {jm.get('filename')!r} / {jm.get('file_path')!r}"))
            else:
                fails.append(("content", f"result {i + 1} (member {n!r}) differs from extracting the member on its own: {_first_diff(j, g)}"))
            break
    return fails


def features(case):
    f = {"kind." + case["kind"]}
    ents = case["entries"]
    docs = [e for e in ents if e["k"] == "doc"]
    if any(e.get("corrupt") for e in docs):
        f.add("member.corrupt")
    if any(e["k"] == "dir" for e in ents):
        f.add("member.dir")
    if any(e["k"] == "raw" and e["hex"] == "" for e in ents):
        f.add("member.empty-file")
    if any(e["k"] == "raw" and os.path.basename(e["name"]).startswith(".") for e in ents):
        f.add("member.hidden")
    if any(e["name"].startswith("__MACOSX/") for e in ents):
        f.add("member.macosx")
    if any(e["k"] == "raw" and _is_nested_archive(e["name"]) for e in ents):
        f.add("member.nested-archive")
    if len({e["name"] for e in ents}) < len(ents):
        f.add("name.duplicate")
    if any(any(ord(c) > 127 for c in e["name"]) for e in ents):
        f.add("name.unicode")
    if any(any(ord(c) > 0xFFFF for c in e["name"]) for e in ents):
        f.add("name.astral")
    if case["kind"] == "7z":
        o = case.get("sz", {})
        f.add("7z.layout." + o.get("layout", "solid"))
        f.add("7z.method." + o.get("method", "copy"))
        if o.get("encode_header"):
            f.add("7z.encoded-header")
        if not o.get("attrs", True):
            f.add("7z.no-attributes")
        if o.get("crc", True):
            f.add("7z.crc")
        nonempty = [e for e in ents if e["k"] != "dir" and (e["k"] == "doc" or e["hex"])]
        if len(nonempty) >= 2:
            f.add("7z.multi-file")
    return f


def neutralise(case, feature):
    import copy
    c = copy.deepcopy(case)
    if feature == "member.corrupt":
        for e in c["entries"]:
            e.pop("corrupt", None)
    elif feature == "member.dir":
        c["entries"] = [e for e in c["entries"] if e["k"] != "dir"]
    elif feature == "member.empty-file":
        c["entries"] = [e for e in c["entries"] if not (e["k"] == "raw" and e["hex"] == "")]
    elif feature == "name.duplicate":
        seen = set()
        for i, e in enumerate(c["entries"]):
            if e["name"] in seen:
                e["name"] = (e["name"].rsplit(".", 1)[0] + f"-again{i}." + e["name"].rsplit(".", 1)[1]) if "." in e["name"].rsplit("/", 1)[-1] else e["name"] + f"-again{i}"
            seen.add(e["name"])
    elif feature in ("name.unicode", "name.astral"):
        for i, e in enumerate(c["entries"]):
            e["name"] = "".join(ch if ord(ch) < 128 else "u" for ch in e["name"])
    elif feature.startswith("7z.layout."):
        c.setdefault("sz", {})["layout"] = "solid"
    elif feature.startswith("7z.method."):
        c.setdefault("sz", {})["method"] = "copy"
    elif feature == "7z.encoded-header":
        c.setdefault("sz", {})["encode_header"] = False
    elif feature == "7z.no-attributes":
        c.setdefault("sz", {})["attrs"] = True
    elif feature == "7z.crc":
        c.setdefault("sz", {})["crc"] = False
    elif feature == "7z.multi-file":
        keep = True
        out = []
        for e in c["entries"]:
            if e["k"] != "dir" and (e["k"] == "doc" or e["hex"]):
                if not keep:
                    continue
                keep = False
            out.append(e)
        c["entries"] = out
    return c


def validate(case):
    assert case["kind"] in ARCHIVE_KINDS
    assert case["kind"] != "tar" or case["entries"]
    names = set()
    for e in case["entries"]:
        assert e["k"] in ("dir", "doc", "raw") and e["name"] and (e["name"] not in names or e["k"] == "doc") and "\x00" not in e["name"] and not e["name"].startswith("/") and ".." not in e["name"].split("/")
        names.add(e["name"])
        if e["k"] == "doc":
            assert e["fmt"] in MEMBER_FORMATS and isinstance(e["seed"], int) and e["name"].endswith("." + e["fmt"]) and e.get("corrupt") in (None, "truncate", "garbage")
        if e["k"] == "raw":
            bytes.fromhex(e["hex"])
        if e["k"] == "dir":
            assert not e["name"].endswith("/") or len(e["name"]) > 1
    return True


DIRS = ["", "", "docs/", "a/b/c/", "Ünï cödé/", "文書/", "sp ace/", "😀/"]


@st.composite
def cases(draw, kind=None):
    kind = kind or draw(st.sampled_from(ARCHIVE_KINDS))
    n = draw(st.integers(1 if kind == "tar" else 0, 6))  # an empty plain tar is 10 KiB of zeros: no format could be told from it
    entries, names = [], set()
    seed0 = draw(st.integers(0, 10**6)) * 10

    def uniq(name):
        base = name
        i = 1
        while name in names:
            name = base.replace(".", f"-{i}.", 1) if "." in base else f"{base}-{i}"
            i += 1
        names.add(name)
        return name
    for i in range(n):
        d = draw(st.sampled_from(DIRS))
        k = draw(st.sampled_from(["doc", "doc", "doc", "doc", "dir", "empty", "hidden", "macosx", "nested", "unsupported"]))
        if k == "doc":
            fmt = draw(st.sampled_from(MEMBER_FORMATS))
            # base names too carry non-ASCII text, incl. code points whose UTF-16 form has a zero byte next to a Latin letter's zero byte (U+4E00, U+0100)
            stem = draw(st.sampled_from(["m", "m", "m", "plan\u4e00", "a\u0100", "\u00dcn\u00ef", "\u6587\u66f8", "q\u0400z"]))
            entries.append({"k": "doc", "name": uniq(f"{d}{stem}{i}.{fmt}"), "fmt": fmt, "seed": seed0 + i})
            if fmt == "txt" and draw(st.integers(0, 2)) == 0:
                entries[-1]["pad"] = draw(st.sampled_from([17000, 20000, 70000]))
        elif k == "dir":
            entries.append({"k": "dir", "name": uniq(f"{d}folder{i}")})
        elif k == "empty":
            entries.append({"k": "raw", "name": uniq(f"{d}empty{i}.txt"), "hex": ""})
        elif k == "hidden":
            entries.append({"k": "raw", "name": uniq(f"{d}.hidden{i}.txt"), "hex": b"hidden ZX0HIDE".hex()})
        elif k == "macosx":
            entries.append({"k": "raw", "name": uniq(f"__MACOSX/{d}._m{i}.txt"), "hex": b"\x00\x05\x16\x07resource fork ZX0FORK".hex()})
        elif k == "nested":
            inner = io.BytesIO()
            with zipfile.ZipFile(inner, "w") as z:
                z.writestr("inner.txt", "nested ZX0NEST")
            entries.append({"k": "raw", "name": uniq(f"{d}inner{i}.zip"), "hex": inner.getvalue().hex()})
        else:
            entries.append({"k": "raw", "name": uniq(f"{d}blob{i}." + draw(st.sampled_from(["bin", "exe", "png", "xyz"]))), "hex": b"\x00\x01unsupported ZX0BLOB".hex()})
    docs = [e for e in entries if e["k"] == "doc"]
    if docs and draw(st.integers(0, 3)) == 0:
        # an updated archive (tar -r / zip -u style): a later entry carries the name of an earlier one, with other content; both are listed, both are members
        first = draw(st.sampled_from(docs))
        entries.append({"k": "doc", "name": first["name"], "fmt": first["fmt"], "seed": first["seed"] + 7})
        docs = [e for e in entries if e["k"] == "doc"]
    if docs and draw(st.integers(0, 2)) == 0:
        draw(st.sampled_from(docs))["corrupt"] = draw(st.sampled_from(["truncate", "garbage"]))
    case = {"kind": kind, "entries": entries}
    far = kind == "7z" and draw(st.integers(0, 4)) == 0
    if far:
        # a passage repeated about 5 KiB later in a solid folder: the decoder needs the whole dictionary the coder property declares (6 or 12 KiB: the 3 * 2^n sizes)
        import hashlib
        filler = hashlib.shake_128(b"vf-filler").digest(5000)
        entries.append({"k": "doc", "name": uniq("far/first.txt"), "fmt": "txt", "seed": seed0 + 91})
        entries.append({"k": "raw", "name": uniq("far/filler.bin"), "hex": filler.hex()})
        entries.append({"k": "doc", "name": uniq("far/second.txt"), "fmt": "txt", "seed": seed0 + 91})
    if kind == "7z":
        case["sz"] = {"method": draw(st.sampled_from(["copy", "lzma", "lzma2"])), "layout": draw(st.sampled_from(["solid", "solid", "per-file", "mixed"])),
                      "encode_header": draw(st.booleans()), "attrs": draw(st.sampled_from([True, True, False])), "crc": draw(st.booleans())}
        if far:
            case["sz"].update({"method": "lzma2", "layout": "solid", "dict": draw(st.sampled_from([6144, 12288, 8192]))})
        elif draw(st.integers(0, 3)) == 0:
            case["sz"]["dict"] = draw(st.sampled_from([4096, 6144, 12288, 1 << 16, 3 << 16]))
    if kind.startswith("tar"):
        case["pax"] = draw(st.booleans())
    return case


def evaluate(ctx: Ctx, case, part: Partial | None = None):
    validate(case)
    feats = features(case)
    fails = judge(case)
    docs = [e for e in case["entries"] if e["k"] == "doc"]
    if part is not None:
        nt = (len(docs) >= 2 and len({e["fmt"] for e in docs}) >= 2) or (case["kind"] == "7z" and ("member.empty-file" in feats or case.get("sz", {}).get("layout") != "solid" and len(docs) >= 2))
        part.case(digest(case), nt, sample={"kind": case["kind"], "sz": case.get("sz"), "members": [e["name"] for e in case["entries"]]} if part.evaluations % 53 == 0 else None, kind=case["kind"],
                  corrupt="member.corrupt" in feats, members=min(len(docs), 3))
        for f in feats:
            part.hist[f] += 1
    if not fails:
        return []
    clauses = {c for c, _ in fails}
    known = [k for k in ctx.known if k.get("status") == "open" and k.get("format") == case["kind"].split("-")[0] and set(k.get("feature", "").split("+")) <= feats]
    if known:
        ncase = case
        for k in known:
            for f in k["feature"].split("+"):
                ncase = neutralise(ncase, f)
        nfails = judge(ncase)
        allowed = set().union(*[set(k.get("clauses", [])) for k in known])
        if not nfails and clauses <= allowed:
            if part is not None:
                for k in known:
                    part.known_hits[k["id"]] += 1
            return []
        if nfails:
            case, fails = ncase, nfails
    c, d = fails[0]
    return [Violation(c, f"C10:{case['kind'].split('-')[0]}:{c}", f"[{case['kind']} {case.get('sz', '')}] {d}; features {sorted(features(case))}", {"kind": "archive", "format": case["kind"].split("-")[0], "model": case})]


KINDS = [k for k in ARCHIVE_KINDS if not os.environ.get("VF_FORMATS") or k in os.environ["VF_FORMATS"].split(",")]


def shard(ctx: Ctx, kind: str):
    part = Partial()
    n = ctx.n(150, 2500) * (3 if kind == "7z" else 1)
    hyp_search(ctx, f"c10-{kind}", cases(kind), lambda c: evaluate(ctx, c, part), n, part)
    return part


def run(ctx: Ctx) -> Partial:
    return shard_map(ctx, "vf.props.c10", "shard", len(KINDS), extra_per_shard=[[k] for k in KINDS])


def replay(ctx: Ctx, payload: dict):
    return evaluate(ctx, payload["model"])
