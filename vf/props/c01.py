"""C01 — Stable failure surface and termination for arbitrary bytes."""
from __future__ import annotations

import contextlib
import io
import os
import shutil
import sys
import tempfile
import traceback
import zipfile

from hypothesis import strategies as st

from vf.gen import mutate
from vf.measure import measured
from vf.runner import REPO, Ctx, Partial, Violation, digest, hyp_search, shard_map

RULE = ("For each of the 21 extractors: seeds = repository fixtures of its format (<= 400 KB) and small generated documents; inputs = seeds, byte-level mutants (truncate, bit flip, byte set, "
        "integer stomp, dup, del, insert, splice from another format), container-aware mutants (valid ZIP shell with one member damaged / XML damaged in 15 ways incl. every decimal attribute set to 10^15, -1, 1e308, NaN, 2^31 (also as a deterministic sweep seed x XML part x value) / member dropped or duplicated; "
        "valid OLE2 shell with one stream damaged), bytes of another format routed to the extractor, and degenerate inputs (empty, 1 byte, magic only). Every case runs in a forked worker "
        "(RLIMIT_CPU 60 s, RLIMIT_AS 3 GiB) through the extractor directly; a third of the cases also through read_file, as a ZIP member through read_archive, as an e-mail attachment through "
        "iterate_supported_attachments, and through cli.main in its four output modes with a strict UTF-8 stdout. Oracle: every outcome is results or an ExtractionError subclass; the worker is not "
        "killed (signal / CPU budget); CLI: exit 0 with non-empty newline-terminated stdout, or exit 1 with empty stdout and exactly one stderr line starting 'sharepoint2text: '. "
        "Non-trivial = the input differs from its seed, has >= 8 bytes and passes the first format gate of the extractor (ZIP EOCD / OLE magic / '{\\rtf' / '%PDF' / 'From ' line / any text), "
        "or is cross-routed; distinct by input digest x extractor. The thorough tier adds coverage-guided fuzzing (atheris) of every extractor with the same oracle.")
ASSUMPTIONS = ["logging is silenced (NullHandler) so that only the CLI's own prints count as its stderr", "termination is bounded (60 s CPU for inputs <= 1 MiB), not proved",
               "the property asks for results or an ExtractionError; whether an archive swallows a member failure is C10's matter, not judged here"]

FIX = os.path.join(REPO, "sharepoint2text", "tests", "resources")
EXTS = ["docx", "pptx", "xlsx", "doc", "ppt", "xls", "rtf", "odt", "ods", "odp", "odg", "odf", "pdf", "html", "mhtml", "epub", "txt", "eml", "mbox", "msg", "zip", "7z", "tar.gz", "csv", "json", "md"]
CONTAINER = {"docx": "zip", "pptx": "zip", "xlsx": "zip", "odt": "zip", "ods": "zip", "odp": "zip", "odg": "zip", "odf": "zip", "epub": "zip", "zip": "zip", "doc": "ole", "ppt": "ole", "xls": "ole", "msg": "ole"}
ALIAS = {"docm": "docx", "pptm": "pptx", "xlsm": "xlsx", "tsv": "csv", "tar": "tar.gz", "mht": "mhtml", "htm": "html"}


def seeds() -> dict[str, list[tuple[str, bytes]]]:
    out: dict[str, list[tuple[str, bytes]]] = {e: [] for e in EXTS}
    for root, _, files in os.walk(FIX):
        for f in sorted(files):
            p = os.path.join(root, f)
            if os.path.getsize(p) > (2200 if f.endswith(".msg") else 400) * 1024 or os.path.getsize(p) == 0:
                continue
            ext = "tar.gz" if f.endswith(".tar.gz") else f.rsplit(".", 1)[-1].lower()
            ext = ALIAS.get(ext, ext)
            if ext in out:
                with open(p, "rb") as fh:
                    out[ext].append((os.path.relpath(p, FIX), fh.read()))
    from vf.gen import amplify, cidpdf
    gen = [("ods-repeat", 10, "cols"), ("odt-space-count", 10, "s"), ("xlsx-sparse", 10, "far-cell"), ("docx-image-reuse", 3, 0), ("nesting", 10, "docx-tables"), ("nesting", 10, "html-table"),
           ("nesting", 10, "rtf-groups"), ("epub-spine-reuse", 2, 0), ("ole-property-count", 10, "doc"), ("ole-property-count", 10, "xls"), ("ole-property-count", 10, "ppt"), ("7z-ratio", 1, "lzma-wanted"),
           ("tar-ratio", 1, "gz"), ("pdf-loops", 3, "contents-array"), ("mbox-from-lines", 3, "in-body"), ("eml-nesting", 3, "multipart"), ("html-span-attrs", 3, "both"),
           # deep nesting: the recursion limit is a source of exceptions that are not ValueError/KeyError/OSError
           ("nesting", 3000, "html-div"), ("nesting", 3000, "html-table"), ("nesting", 3000, "docx-unknown"), ("nesting", 3000, "odt-spans"), ("nesting", 3000, "odt-lists"), ("nesting", 60000, "rtf-groups"),
           ("nesting", 60000, "json-arrays"), ("nesting", 3000, "epub-div"), ("eml-nesting", 1000, "multipart"), ("eml-nesting", 1000, "rfc822"), ("mbox-from-lines", 1000, "bare")]
    for name, m, v in gen:
        raw, ext, _ = amplify.build(name, m, v)
        if len(raw) < 400 * 1024:
            out[ALIAS.get(ext, ext)].append((f"gen/{name}/{v}", raw))
    out["json"].append(("gen/json", b'{"title": "ZB00001", "items": [1, 2.5, null, true, {"k": "v \\u00e4"}], "nested": {"a": ["x", "y"]}}'))
    out["json"].append(("gen/json-lines", b'[{"id": 1, "text": "first ZB00002"}, {"id": 2, "text": "second"}]'))
    out["md"].append(("gen/md", b"# Title ZB00003\n\nSome *text* with a [link](http://example.org).\n\n| a | b |\n|---|---|\n| 1 | 2 |\n"))
    # inputs with several results of which a later one fails: the CLI must not have printed the earlier ones
    out["mbox"].append(("gen/mbox-second-undated", b"From a@b.c Thu Jan  1 00:00:00 2024\nSubject: first ZB00011\nFrom: a@b.c\nTo: d@e.f\nDate: Thu, 01 Jan 2024 00:00:00 +0000\n\nBody of the first message.\n\n"
                        b"From a@b.c Thu Jan  1 00:00:01 2024\nSubject: second ZB00012\nFrom: a@b.c\nTo: d@e.f\n\nBody of the second message, which has no Date header.\n\n"))
    from vf.props.c08 import build_zip
    out["zip"].append(("gen/zip-second-member-unreadable", build_zip({"mech": "zip", "comment": "", "members": [
        {"name": "a.txt", "text": "text ZB00013", "enc": False, "deflate": False, "flags": 0, "method": None},
        {"name": "b.txt", "text": "text ZB00014", "enc": False, "deflate": False, "flags": 0, "method": 9}]})[0]))
    import tarfile as _tar
    tb = io.BytesIO()
    with _tar.open(fileobj=tb, mode="w:gz", format=_tar.GNU_FORMAT, encoding="latin-1") as tf:
        for nm, data in (("caf\xe9.txt", b"text ZB00015 in a member whose name is not UTF-8"), ("plain.txt", b"text ZB00016")):
            ti = _tar.TarInfo(nm)
            ti.size = len(data)
            tf.addfile(ti, io.BytesIO(data))
    out["tar.gz"].append(("gen/tar-latin1-member-name", tb.getvalue()))
    # legacy workbooks with a picture store: one picture, the same picture twice (stored once per use by some writers), two different ones
    from vf.gen import biff8, imgenc
    pa, pb = imgenc.png(3, 2, 1), imgenc.png(2, 2, 5)
    for nm, pics in (("one", [("png", pa)]), ("same-twice", [("png", pa), ("png", pa)]), ("two", [("png", pa), ("png", pb)]), ("same-thrice-mixed", [("png", pa), ("png", pb), ("png", pa), ("png", pa)])):
        out["xls"].append((f"gen/xls-pictures-{nm}", biff8.write_xls([{"name": "S1", "rows": [["colA", "colB"], ["ZB00017", 4]]}], pictures=pics)))
    font, _ = cidpdf.digit_font()
    out["pdf"].append(("gen/cid", cidpdf.cid_pdf(font, [3, 11, 12, 4], {3: "A", 4: "B", 11: None, 12: None})))
    for e in EXTS:
        out[e].sort(key=lambda t: t[0])
        assert out[e], e
    return out


def gate(ext: str, data: bytes) -> bool:
    c = CONTAINER.get(ext)
    if c == "zip":
        return b"PK\x05\x06" in data[-70000:] and data[:2] == b"PK"
    if c == "ole":
        return data[:8] == b"\xd0\xcf\x11\xe0\xa1\xb1\x1a\xe1"
    if ext == "rtf":
        return data.lstrip()[:5] == b"{\\rtf"
    if ext == "pdf":
        return b"%PDF" in data[:1024]
    if ext == "mbox":
        return data.startswith(b"From ") or b"\nFrom " in data
    if ext == "7z":
        return data[:6] == b"7z\xbc\xaf\x27\x1c"
    if ext == "tar.gz":
        return data[:2] == b"\x1f\x8b"
    return len(data) > 0


# ---------------------------------------------------------------------------------------------------------------
# worker side
# ---------------------------------------------------------------------------------------------------------------
def _bucket(exc: BaseException) -> str:
    frames = traceback.extract_tb(exc.__traceback__)
    own = [f for f in frames if "sharepoint2text" in f.filename and "/tests/" not in f.filename]
    f = (own or frames)[-1] if frames else None
    where = f"{os.path.basename(f.filename)}:{f.name}" if f else "?"
    return f"{type(exc).__name__}@{where}"


def _consume(make_gen):
    from sharepoint2text.parsing.exceptions import ExtractionError
    try:
        n = 0
        for _ in make_gen():
            n += 1
        return ("results", n)
    except ExtractionError as e:
        return ("extraction-error", type(e).__name__)
    except Exception as e:  # noqa
        return ("other", _bucket(e), str(e)[:200])


class _StrictStdout(io.TextIOWrapper):
    pass


def _cli(path: str, mode: list[str]):
    from sharepoint2text import cli
    # file-descriptor level capture (this runs in a forked worker): whatever reaches fd 1 / fd 2 counts, also from libraries that kept a reference
    # to the interpreter's original stdout; the Python-level stdout is a strict UTF-8 text stream on the same descriptor, as in a real terminal session
    fo, fe = tempfile.TemporaryFile(), tempfile.TemporaryFile()
    try:
        sys.__stdout__.flush()
        sys.__stderr__.flush()
    except Exception:  # noqa
        pass
    old1, old2 = os.dup(1), os.dup(2)
    os.dup2(fo.fileno(), 1)
    os.dup2(fe.fileno(), 2)
    out = io.TextIOWrapper(os.fdopen(os.dup(1), "wb"), encoding="utf-8", errors="strict", newline="\n", write_through=False)
    err_stream = io.TextIOWrapper(os.fdopen(os.dup(2), "wb"), encoding="utf-8", errors="backslashreplace", newline="\n", write_through=True)
    code = None
    crashed = None
    try:
        with contextlib.redirect_stdout(out), contextlib.redirect_stderr(err_stream):
            try:
                code = cli.main(mode + [path])
            except SystemExit as e:
                code = e.code
            except BaseException as e:  # noqa
                crashed = _bucket(e)
            try:
                out.flush()
            except Exception as e:  # noqa
                crashed = crashed or ("flush:" + _bucket(e))
        try:
            err_stream.flush()
        except Exception:  # noqa
            pass
        for st_ in (sys.__stdout__, sys.__stderr__):
            try:
                st_.flush()
            except Exception:  # noqa
                pass
    finally:
        os.dup2(old1, 1)
        os.dup2(old2, 2)
        os.close(old1)
        os.close(old2)
    fo.seek(0)
    fe.seek(0)
    stdout = fo.read()

    class _E:
        def getvalue(self, _v=fe.read().decode("utf-8", "replace")):
            return _v
    err = _E()
    problems = []
    if crashed:
        problems.append(f"cli.main raised {crashed}")
    elif code == 0:
        if not stdout or not stdout.endswith(b"\n"):
            problems.append(f"exit 0 but stdout is {'empty' if not stdout else 'not newline-terminated'}")
    elif code == 1:
        if stdout:
            problems.append(f"exit 1 but stdout has {len(stdout)} bytes: {stdout[:60]!r}")
        lines = err.getvalue().split("\n")
        if not (len(lines) == 2 and lines[1] == "" and lines[0].startswith("sharepoint2text: ")):
            problems.append(f"exit 1 but stderr is not one 'sharepoint2text: ' line: {err.getvalue()[:200]!r}")
    else:
        problems.append(f"exit code {code!r}")
    return problems


def run_case(raw: bytes, ext: str, full: bool):
    """Executed in the forked worker. -> list of (entry, outcome tuple)"""
    import logging
    logging.getLogger().addHandler(logging.NullHandler())
    logging.lastResort = None
    from sharepoint2text.parsing.router import get_extractor
    path = "case." + ext
    obs = [("direct", _consume(lambda: get_extractor(path)(io.BytesIO(raw), path)))]
    if not full:
        return obs
    import sharepoint2text
    d = tempfile.mkdtemp(prefix="vf-c01-")
    try:
        p = os.path.join(d, path)
        with open(p, "wb") as f:
            f.write(raw)
        obs.append(("read_file", _consume(lambda: sharepoint2text.read_file(p))))
        # as a ZIP member (followed by a harmless member)
        buf = io.BytesIO()
        with zipfile.ZipFile(buf, "w", zipfile.ZIP_STORED) as z:
            z.writestr("dir/" + path, raw)
            z.writestr("after.txt", "sentinel ZB00001")
        obs.append(("archive-member", _consume(lambda: get_extractor("outer.zip")(io.BytesIO(buf.getvalue()), "outer.zip"))))
        # as an e-mail attachment
        from email.message import EmailMessage
        msg = EmailMessage()
        msg["Subject"], msg["From"], msg["To"] = "carrier", "a@example.org", "b@example.org"
        msg.set_content("body")
        # declared with the type of its format: only attachments of a supported declared type are handed to an extractor
        from sharepoint2text.parsing.mime_types import MIME_TYPE_MAPPING
        base_ext = {"tar.gz": "tgz", "mhtml": "html"}.get(ext, ext)
        mime = next((k for k, v in MIME_TYPE_MAPPING.items() if v == base_ext), "application/octet-stream")
        if mime.startswith("text/") or mime == "message/rfc822":
            mime = "application/octet-stream" if mime == "message/rfc822" else mime
        maintype, subtype = mime.split("/", 1)
        if maintype == "text":
            msg.add_attachment(raw.decode("latin-1"), subtype=subtype, charset="latin-1", filename=path)        # any byte string survives latin-1
        else:
            msg.add_attachment(raw, maintype=maintype, subtype=subtype, filename=path)

        def attach():
            for mail in get_extractor("carrier.eml")(io.BytesIO(msg.as_bytes()), "carrier.eml"):
                yield mail
                yield from mail.iterate_supported_attachments()
        obs.append(("attachment", _consume(attach)))
        for mode in ([], ["--json"], ["--json-unit"], ["--json", "--binary"]):
            probs = _cli(p, mode)
            obs.append(("cli" + "".join(mode), ("cli-ok",) if not probs else ("cli-contract", "; ".join(probs))))
    finally:
        shutil.rmtree(d, ignore_errors=True)
    return obs


# ---------------------------------------------------------------------------------------------------------------
# harness side
# ---------------------------------------------------------------------------------------------------------------
def judge(raw: bytes, ext: str, full: bool):
    res = measured(run_case, raw, ext, full, cpu_limit_s=60)
    fails = []
    if res.get("killed"):
        res2 = measured(run_case, raw, ext, full, cpu_limit_s=60)
        if res2.get("killed"):
            kind = "unbounded-work" if res["killed"] in ("SIGXCPU", "SIGKILL") else "worker-died"
            fails.append((kind, f"{kind}:{res2['killed']}", f"worker killed by {res['killed']} and again by {res2['killed']} ({len(raw)} bytes as .{ext})"))
            return fails, res
        res = res2
    if res["out"][0] != "ok":
        fails.append(("worker-raised", f"worker:{res['out'][1]}", f"harness worker raised {res['out'][1:]}"))
        return fails, res
    for entry, o in res["out"][1]:
        if o[0] == "other":
            fails.append(("wrong-exception-type", f"{entry.split('--')[0]}:{o[1]}", f"[{entry} .{ext}] {o[1]}: {o[2]}"))
        elif o[0] == "cli-contract":
            fails.append(("cli-contract", f"cli:{o[1][:40]}", f"[{entry} .{ext}] {o[1]}"))
    return fails, res


def build_input(S, case) -> tuple[bytes, str, bytes]:
    src_ext = case["ext"]
    name, seed = S[src_ext][case["seed"] % len(S[src_ext])]
    others = [S[e][case["seed"] % len(S[e])][1] for e in ("rtf", "pdf", "docx", "xls", "eml")]
    data = mutate.apply(seed, case["mutation"], others) if case["mutation"] else seed
    if case.get("degenerate") is not None:
        data = [b"", b"\x00", seed[:4], seed[:8], b"PK\x03\x04", b"\xd0\xcf\x11\xe0\xa1\xb1\x1a\xe1", b"%PDF-1.4\n", b"{\\rtf1", b"From x\n", b"7z\xbc\xaf\x27\x1c\x00\x04"][case["degenerate"] % 10]
    return data[:3 * 1024 * 1024], case.get("route") or src_ext, seed


def evaluate(ctx: Ctx, S, case, part: Partial | None):
    assert case["ext"] in EXTS and (case.get("route") is None or case["route"] in EXTS)
    data, ext, seed = build_input(S, case)
    full = bool(case.get("full"))
    fails, res = judge(data, ext, full)
    crossed = ext != case["ext"]
    nontrivial = crossed or (data != seed and len(data) >= 8 and gate(ext, data))
    if part is not None:
        oc = "killed" if res.get("killed") else (res["out"][1][0][1][0] if res["out"][0] == "ok" else "worker-error")
        part.case(digest([ext, data]), nontrivial, sample={"ext": ext, "seed_format": case["ext"], "bytes": len(data), "mutation": case["mutation"][:2] if case["mutation"] else None, "outcome": oc}
                  if part.evaluations % 131 == 0 else None, ext=ext, outcome=oc, crossed=crossed, full=full)
    open_sigs = ctx.open_signatures()
    out = []
    for clause, key, detail in fails[:1]:
        sig = f"C01:{ext}:{clause}:{key}"
        if sig in open_sigs:
            if part is not None:
                part.known_hits[open_sigs[sig]["id"]] += 1
            continue
        out.append(Violation(clause, sig, detail, {"kind": "case", "case": case}))
    return out


def _strategy(ext_pool):
    @st.composite
    def case(draw):
        ext = draw(st.sampled_from(ext_pool))
        kind = draw(st.sampled_from(["mut", "mut", "mut", "mut", "mut", "cross", "seed", "degenerate"]))
        c = {"ext": ext, "seed": draw(st.integers(0, 30)), "mutation": None, "route": None, "full": draw(st.sampled_from([False, False, True]))}
        if kind == "mut":
            c["mutation"] = draw(mutate.recipes(CONTAINER.get(ext), ext))
        elif kind == "cross":
            c["route"] = draw(st.sampled_from([e for e in EXTS if e != ext]))
            if draw(st.booleans()):
                c["mutation"] = draw(mutate.recipes(CONTAINER.get(ext), ext))
        elif kind == "degenerate":
            c["degenerate"] = draw(st.integers(0, 9))
        return c
    return case()


def shard(ctx: Ctx):
    part = Partial()
    S = seeds()
    mine = [e for i, e in enumerate(EXTS) if i % ctx.nshards == ctx.shard] or EXTS
    n = ctx.n(5200, 240000) // ctx.nshards + 1
    hyp_search(ctx, "bytes", _strategy(mine), lambda c: evaluate(ctx, S, c, part), n, part, model_shrink=False, shrink_budget_s=45)
    return part


def seeds_shard(ctx: Ctx):
    """Every seed through every entry point, unmutated (the CLI contract on well-formed input) and routed to every other extractor."""
    part = Partial()
    S = seeds()
    cases = []
    for e in EXTS:
        for i in range(len(S[e])):
            cases.append({"ext": e, "seed": i, "mutation": None, "route": None, "full": True})
            cases.append({"ext": e, "seed": i, "mutation": None, "route": EXTS[(EXTS.index(e) + 1 + i) % len(EXTS)], "full": False})
    # numeric attributes of the XML parts (repeat counts, sizes, indexes) set to extreme values, part by part: allocation and conversion
    # failures (MemoryError, OverflowError, ValueError) must come out as extraction errors like everything else
    import re
    import zipfile
    sweep = 0
    kinds = sorted(mutate._NUMBER_KINDS) if ctx.thorough else ["number-huge", "number-negative"]
    for e in EXTS:
        if CONTAINER.get(e) != "zip":
            continue
        picked = [i for i, (nm, _) in enumerate(S[e]) if nm.startswith("gen/")] + [i for i, (nm, _) in enumerate(S[e]) if not nm.startswith("gen/")][:1 if not ctx.thorough else 4]
        for i in picked:
            try:
                z = zipfile.ZipFile(io.BytesIO(S[e][i][1]))
                members = [zi.filename for zi in z.infolist() if zi.filename.endswith((".xml", ".opf", ".xhtml")) and zi.file_size < 2_000_000 and re.search(rb'="\d{1,9}"', z.read(zi.filename))]
            except Exception:  # noqa
                continue
            for m in sorted(members, key=lambda n: (n.count("/"), n))[:3 if not ctx.thorough else 8]:
                for k in kinds:
                    cases.append({"ext": e, "seed": i, "mutation": [{"op": "zip-xml", "member": 0.0, "name": m, "kind": k}], "route": None, "full": False})
                    sweep += 1
    for i, c in enumerate(cases):
        if i % ctx.nshards == ctx.shard:
            part.violations += evaluate(ctx, S, c, part)
    part.exhaustive["every seed through all entry points + one cross-routing each"] = len(cases) - sweep
    part.exhaustive["numeric attributes of XML parts set to extreme values (seed x part x value)"] = sweep
    return part


def run(ctx: Ctx) -> Partial:
    part = Partial()
    part.merge(shard_map(ctx, "vf.props.c01", "seeds_shard", 16))
    part.merge(shard_map(ctx, "vf.props.c01", "shard", 26))
    if ctx.thorough:
        from vf import fuzz_c01
        part.merge(fuzz_c01.campaign(ctx))
    return part


def replay(ctx: Ctx, payload: dict):
    if payload.get("kind") == "bytes":
        raw = bytes.fromhex(payload["hex"])
        fails, _ = judge(raw, payload["ext"], True)
        return [Violation(c, f"C01:{payload['ext']}:{c}:{k}", d, payload) for c, k, d in fails[:1]]
    return evaluate(ctx, seeds(), payload["case"], None)
