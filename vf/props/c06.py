"""C06 — Extraction is a deterministic, side-effect-free function of its input."""
from __future__ import annotations

import glob
import hashlib
import io
import json
import os
import subprocess
import sys
import tempfile

from hypothesis import strategies as st

from vf.runner import HERE, REPO, Ctx, HarnessError, Partial, Violation, digest, hyp_search, shard_map

RULE = ("inputs = every repository fixture + generated documents of every format (token documents with many styles/links/lists, typed spreadsheets, image-bearing documents). "
        "(a) each input is extracted twice in one process and once in fresh interpreters started with PYTHONHASHSEED in {0, 1, 2, a seed derived from VERIF_SEED}, each going through the inputs in a different order (forward, reversed, rotated): the sha256 of "
        "json.dumps(to_json(), sort_keys=True) must agree everywhere, and the caller's buffer must be byte-identical afterwards. (b) observer histories: Hypothesis-drawn sequences of "
        "full_text / units (text, images, tables, metadata) / images (partial and full reads of get_bytes) / tables / metadata / to_json / serialize(no binary) / json.dumps calls on one "
        "result (incl. the observers with every boolean option flipped); after every step each observer must return what its first call returned AND what it returns on a result nobody has observed before, and to_json() must equal the initial snapshot. "
        "(c) later calls: a result is serialised, then the same bytes and sibling documents are extracted under other paths and without a path; the first result must still serialise to the same JSON. "
        "Inputs include ordered pairs that differ in an optional part (comments, content-type declarations, missing core.xml / meta.xml, missing timestamps) and documents whose picture part fails its CRC. Non-trivial = result with >=2 collections of "
        ">=2 elements or >=1 image; histories with >=3 distinct observers; distinct by input digest / history digest.")
ASSUMPTIONS = ["hash seeds sampled, not exhausted", "extraction failures are compared by exception type only (their messages are C01's business)"]

OBSERVERS = ["full_text", "units", "unit_texts", "unit_images", "unit_tables", "unit_meta", "images_full", "images_partial", "images_meta", "tables", "dims", "metadata", "to_json",
             "no_binary", "dumps", "unit_json", "full_text_flipped", "unit_texts_flipped"]


def _flipped(fn):
    """Call an observer with every boolean keyword option set to the opposite of its default (e.g. include_image_captions=True)."""
    import inspect
    kw = {n: (not p.default) for n, p in inspect.signature(fn).parameters.items() if isinstance(p.default, bool)}
    return fn(**kw)


def _extract(ext, data):
    from sharepoint2text.parsing.router import get_extractor
    return list(get_extractor("x." + ext)(io.BytesIO(data), "x." + ext))


def _digest(results):
    return hashlib.sha256(json.dumps([r.to_json() for r in results], sort_keys=True, default=repr).encode()).hexdigest()


def observe(r, name):
    from sharepoint2text.parsing.extractors.serialization import serialize_extraction
    if name == "full_text":
        return r.get_full_text()
    if name == "full_text_flipped":
        return _flipped(r.get_full_text)
    if name == "unit_texts_flipped":
        return [_flipped(u.get_text) for u in _flipped(r.iterate_units)]
    if name == "units":
        return len(list(r.iterate_units()))
    if name == "unit_texts":
        return [u.get_text() for u in r.iterate_units()]
    if name == "unit_images":
        return [[hashlib.md5(i.get_bytes().read()).hexdigest() for i in u.get_images()] for u in r.iterate_units()]
    if name == "unit_tables":
        return [[t.get_table() for t in u.get_tables()] for u in r.iterate_units()]
    if name == "unit_meta":
        return [repr(u.get_metadata()) for u in r.iterate_units()]
    if name == "images_full":
        return [hashlib.md5(i.get_bytes().read()).hexdigest() for i in r.iterate_images()]
    if name == "images_partial":
        return [i.get_bytes().read(3).hex() for i in r.iterate_images()]
    if name == "images_meta":
        return [(i.get_content_type(), i.get_caption(), i.get_description(), json.dumps(dict(i.get_metadata()), sort_keys=True)) for i in r.iterate_images()]
    if name == "tables":
        return [t.get_table() for t in r.iterate_tables()]
    if name == "dims":
        return [(t.get_dim().rows, t.get_dim().columns) for t in r.iterate_tables()]
    if name == "metadata":
        return repr(r.get_metadata())
    if name == "to_json":
        return json.dumps(r.to_json(), sort_keys=True, default=repr)
    if name == "no_binary":
        return json.dumps(serialize_extraction(r, include_binary=False), sort_keys=True, default=repr)
    if name == "dumps":
        return len(json.dumps(r.to_json(), default=repr))
    if name == "unit_json":
        return [json.dumps(u.to_json(), sort_keys=True, default=repr) for u in r.iterate_units()]
    raise ValueError(name)


_REF_CACHE: dict = {}


def fresh_reference(ext, data):
    """{(result index, observer): value on a result object nobody has observed before} - one extraction per observer."""
    key = hashlib.sha256(ext.encode() + data).hexdigest()
    if key not in _REF_CACHE:
        ref = {}
        for name in OBSERVERS:
            try:
                for ri, r in enumerate(_extract(ext, data)):
                    ref[(ri, name)] = observe(r, name)
            except Exception:  # noqa
                pass
        if len(_REF_CACHE) > 64:
            _REF_CACHE.clear()
        _REF_CACHE[key] = ref
    return _REF_CACHE[key]


def judge_history(ext, data, history):
    """history: list of observer names. -> fails"""
    try:
        results = _extract(ext, data)
    except Exception:  # noqa
        return []
    fails = []
    ref = fresh_reference(ext, data)
    for ri, r in enumerate(results):
        try:
            snap = json.dumps(r.to_json(), sort_keys=True, default=repr)
        except Exception as e:  # noqa
            return []
        first = {}
        for step, name in enumerate(history):
            try:
                val = observe(r, name)
            except Exception as e:  # noqa
                fails.append(("observer-raises", f"{name} at step {step}: {type(e).__name__}: {e}"))
                return fails
            if name in first and first[name] != val:
                fails.append(("idempotent", f"observer {name} returned something different at step {step} than at its first call (history {history[:step + 1]})"))
                return fails
            first.setdefault(name, val)
            if (ri, name) in ref and ref[(ri, name)] != val:
                fails.append(("observation-order", f"observer {name} at step {step} returned something different from what it returns on a result nobody has observed before (history {history[:step + 1]})"))
                return fails
            now = json.dumps(r.to_json(), sort_keys=True, default=repr)
            if now != snap:
                fails.append(("observation-changes-result", f"to_json() changed after observer {name} at step {step} (history {history[:step + 1]})"))
                return fails
    return fails


# ---- inputs -------------------------------------------------------------------------------------------------------------
def fixture_inputs():
    root = os.path.join(REPO, "sharepoint2text/tests/resources")
    out = []
    for path in sorted(glob.glob(root + "/**/*", recursive=True)):
        if not os.path.isfile(path) or os.path.getsize(path) == 0 or os.path.getsize(path) > 3_000_000:
            continue
        rel = os.path.relpath(path, root)
        name = os.path.basename(path).lower()
        ext = next((e for e in ("tar.gz",) if name.endswith("." + e)), name.rsplit(".", 1)[-1])
        out.append({"name": "fixture:" + rel, "ext": ext, "data": open(path, "rb").read()})
    return out


def _damage_member(data: bytes, suffixes) -> bytes | None:
    """Flip one byte in the middle of the stored data of the first ZIP member with one of the suffixes (the directory stays intact)."""
    import struct
    import zipfile
    z = zipfile.ZipFile(io.BytesIO(data))
    for zi in z.infolist():
        if zi.filename.lower().endswith(suffixes) and zi.compress_size > 8:
            fn, ex = struct.unpack_from("<HH", data, zi.header_offset + 26)
            pos = zi.header_offset + 30 + fn + ex + zi.compress_size // 2
            return data[:pos] + bytes([data[pos] ^ 0x5A]) + data[pos + 1:]
    return None


_OFFICE = None


def _gen_office_cached():
    global _OFFICE
    if _OFFICE is None:
        from vf.props.c15 import _gen_office
        _OFFICE = _gen_office()
    return _OFFICE


def generated_inputs(ctx: Ctx, per_format: int):
    """deterministic (seeded) sample of generated documents of every format."""
    import hypothesis
    from hypothesis import HealthCheck, given, settings
    from vf.gen import model, sheets
    from vf.gen.profiles import PROFILES
    from vf.props import c14
    from vf.gen.tokens import make as _mk0
    out = []

    def collect(label, strat, render, ext, n):
        bag = []

        @hypothesis.seed(ctx.derive("inputs", label))
        @settings(max_examples=n, database=None, deadline=None, suppress_health_check=list(HealthCheck), phases=[hypothesis.Phase.generate])
        @given(strat)
        def t(x):
            if len(bag) < n:
                bag.append(x)
        t()
        for i, x in enumerate(bag):
            try:
                out.append({"name": f"gen:{label}:{i}", "ext": ext, "data": render(x)})
            except Exception as e:  # noqa
                raise HarnessError(f"renderer {label} failed: {e}")
    for fmt, prof in sorted(PROFILES.items()):
        collect(fmt, model.documents(prof, max_blocks=6), prof["render"], prof["ext"], per_format)
    def _wide_table(d):
        return any(b["k"] == "tbl" and len(b["rows"]) >= 2 and max(len(r) for r in b["rows"]) >= 2 for u in d["units"] for b in model.walk_blocks(u["blocks"]))
    for fmt in ("odt", "odp"):
        # tables whose first row is one merged cell: the extractor stores ragged rows, which an observer must not normalise in place
        prof = PROFILES[fmt]
        collect(fmt + "-span", model.documents(prof, max_blocks=6).filter(_wide_table), lambda d, prof=prof: prof["render"](d, opts={"span_first_cell": True, "run_space": True}), prof["ext"], max(3, per_format // 2))
    for fmt, fn in (("xlsx", sheets.render_xlsx), ("ods", sheets.render_ods), ("xls", sheets.render_xls)):
        collect("grid-" + fmt, sheets.grids(fmt, headers="any"), fn, fmt, per_format)
    for fmt in c14.FORMATS_IMG:
        ext = PROFILES[fmt]["ext"] if fmt in PROFILES else fmt
        collect("img-" + fmt, c14.cases(fmt), lambda c: c14.build(c)[0], ext, max(2, per_format // 2))
    # pictures with alternative text next to body text: observers with options (include_image_captions) have something to differ in
    for fmt in ("pptx", "docx", "odt", "odp"):
        if fmt in c14.FORMATS_IMG:
            case = {"format": fmt, "opts": {}, "units": [[{"k": "p", "tok": _mk0("B", 8700)}, {"k": "img", "type": "png", "w": 9, "h": 7, "seed": 3, "alt": "caption " + _mk0("M", 8701)},
                                                          {"k": "p", "tok": _mk0("B", 8702)}, {"k": "img", "type": "jpeg", "w": 11, "h": 5, "seed": 4, "alt": "caption " + _mk0("M", 8703)}]]}
            out.append({"name": f"alt:{fmt}", "ext": PROFILES[fmt]["ext"], "data": c14.build(case)[0]})
    # packages that declare their image types differently ([Content_Types].xml Defaults under other registered names, then per-part Overrides only):
    # a declaration must stay with its own document
    for fmt in ("docx", "pptx"):
        for ct in ("alias", "override"):
            case = {"format": fmt, "opts": {"ct": ct}, "units": [[{"k": "p", "tok": _mk0("B", 8710)}, {"k": "img", "type": "jpeg", "w": 9, "h": 7, "seed": 5}, {"k": "img", "type": "png", "w": 6, "h": 7, "seed": 6},
                                                                   {"k": "img", "type": "bmp", "w": 5, "h": 4, "seed": 7}]]}
            out.append({"name": f"pair:ct-{ct}.{fmt}", "ext": fmt, "data": c14.build(case)[0]})
    # a picture part whose stored bytes are damaged (CRC mismatch on read): whatever the extractor reports for it must not depend on the process
    for fmt in ("odt", "odp", "ods", "docx", "pptx", "xlsx", "epub"):
        if fmt in c14.FORMATS_IMG:
            case = {"format": fmt, "opts": {}, "units": [[{"k": "p", "tok": _mk0("B", 8720)}, {"k": "img", "type": "png", "w": 23, "h": 17, "seed": 9}, {"k": "p", "tok": _mk0("B", 8721)}]]}
            raw = _damage_member(c14.build(case)[0], (".png",))
            if raw is not None:
                out.append({"name": f"damaged-picture:{fmt}", "ext": PROFILES[fmt]["ext"] if fmt in PROFILES else fmt, "data": raw})
    # mail whose attachment parts declare no file name (a forwarded message, a nameless text part): whatever name they are given must be the same every time
    from email import policy as _policy
    from email.message import EmailMessage as _EM
    inner = _EM()
    inner["Subject"], inner["From"], inner["To"] = "inner", "x@example.org", "y@example.org"
    inner.set_content("forwarded text ZX08730\n")
    outer = _EM()
    outer["Subject"], outer["From"], outer["To"], outer["Date"], outer["Message-ID"] = "outer", "a@example.org", "b@example.org", "Fri, 01 Mar 2024 12:00:00 +0000", "<vf-fwd@example.org>"
    outer.set_content("outer body ZB08731\n")
    outer.add_attachment(inner)
    outer.add_attachment(b"nameless bytes ZB08732", maintype="application", subtype="octet-stream")
    raw = outer.as_bytes(policy=_policy.SMTP)
    import re as _re
    bnd = _re.search(rb'boundary="([^"]+)"', raw).group(1)
    raw = raw.replace(bnd, b"vf-boundary-0001")          # the generator's boundary is random; the input must not be
    out.append({"name": "nameless-attachments:eml", "ext": "eml", "data": raw})
    out.append({"name": "nameless-attachments:mbox", "ext": "mbox", "data": b"From a@example.org Fri Mar  1 12:00:00 2024\n" + raw.replace(b"\r\n", b"\n") + b"\n"})
    # packages without the optional properties part
    for name in ("gen/nocore-a.pptx", "gen/nopath-nocore-b.pptx", "gen/nocore-a.docx", "gen/nometa-a.odt", "gen/nometa-a.odp"):
        out.append({"name": "pair:" + name, "ext": name.rsplit(".", 1)[-1], "data": _gen_office_cached()[name]})
    # office documents whose core properties lack one or both timestamps (nothing may be filled in from the clock)
    from vf.gen import ooxml
    from vf.gen.tokens import make as _mk
    for dates in ("created", "modified", "none"):
        g = {"props": {"title": "T", "_dates": dates}, "sheets": [{"name": "S1", "origin": [0, 0], "hdr_rows": 0, "rows": [[{"t": "s", "v": _mk("B", 8800)}, {"t": "n", "v": 4}]]}]}
        out.append({"name": f"dates:{dates}.xlsx", "ext": "xlsx", "data": sheets.render_xlsx(g)})
        d = {"units": [{"blocks": [{"k": "p", "inl": [{"k": "t", "tok": _mk("B", 8801), "sty": 0}], "h": None}], "notes": None}], "props": {"title": "T", "_dates": dates}}
        out.append({"name": f"dates:{dates}.docx", "ext": "docx", "data": ooxml.render_docx(d)})
        out.append({"name": f"dates:{dates}.pptx", "ext": "pptx", "data": ooxml.render_pptx(d)})
    # pairs that differ in an optional part (comments), richer one first: the in-process digest of the second must still equal its
    # fresh-interpreter digest (nothing of the first may stick to a class or module)
    from vf.props.c15 import _gen_office
    pairs = _gen_office()
    for name in ("gen/comments.pptx", "gen/plain.pptx", "gen/comments.docx", "gen/plain.docx", "gen/plain.odp", "gen/plain.odt"):
        out.append({"name": "pair:" + name, "ext": name.rsplit(".", 1)[-1], "data": pairs[name]})
    return out


# ---- (a) repeat / fresh process / hash seeds ------------------------------------------------------------------------------
def process_leg(ctx: Ctx, part: Partial, inputs):
    hashseeds = ["0", "1", "2", str(ctx.derive("hashseed") % 4294967295)]
    with tempfile.TemporaryDirectory(prefix="vf-c06-") as td:
        man = []
        for i, it in enumerate(inputs):
            p = os.path.join(td, f"f{i}.bin")
            with open(p, "wb") as fh:
                fh.write(it["data"])
            man.append({"name": it["name"], "ext": it["ext"], "file": p})
        mpath = os.path.join(td, "manifest.json")
        json.dump(man, open(mpath, "w"))
        procs = []
        for hs, order in zip(hashseeds, ["fwd", "rev", "rot", "fwd"]):
            env = dict(os.environ, PYTHONHASHSEED=hs, PYTHONDONTWRITEBYTECODE="1")
            procs.append((hs, subprocess.Popen([sys.executable, "-B", "-m", "vf.digest_worker", mpath, order], cwd=HERE, env=env, stdout=subprocess.PIPE, stderr=subprocess.PIPE)))
        # in-process: twice, with buffer check
        local = {}
        for it in inputs:
            buf = io.BytesIO(it["data"])
            from sharepoint2text.parsing.router import get_extractor
            try:
                ex = get_extractor("x." + it["ext"])
                d1 = _digest(list(ex(buf, "x." + it["ext"])))
                unchanged = buf.getvalue() == it["data"]
                d2 = _digest(list(ex(io.BytesIO(it["data"]), "x." + it["ext"])))
            except Exception as e:  # noqa
                d1 = d2 = f"EXC:{type(e).__name__}"
                unchanged = buf.getvalue() == it["data"]
            local[it["name"]] = (d1, d2, unchanged)
        remote = {}
        for hs, pr in procs:
            o, e = pr.communicate(timeout=1800)
            if pr.returncode != 0:
                raise HarnessError(f"digest worker (hash seed {hs}) failed: {e.decode()[-800:]}")
            remote[hs] = json.loads(o)
    for it in inputs:
        name = it["name"]
        d1, d2, unchanged = local[name]
        views = {"in-process #1": d1, "in-process #2": d2, **{f"fresh process PYTHONHASHSEED={hs}": remote[hs].get(name) for hs in hashseeds}}
        try:
            res = _extract(it["ext"], it["data"])
            nt = any(len(list(r.iterate_images())) >= 1 for r in res) or len(json.dumps([r.to_json() for r in res], default=repr)) > 4000
        except Exception:  # noqa
            nt = False
        part.case(digest(["proc", name, hashlib.md5(it["data"]).hexdigest()]), nt, sample={"input": name, "bytes": len(it["data"])} if len(part.samples) < 3 else None, leg="process",
                  fixture=name.startswith("fixture:"))
        fails = []
        if not unchanged:
            fails.append(("buffer-modified", f"{name}: the caller's BytesIO content changed during extraction"))
        if len(set(views.values())) != 1:
            groups = {}
            for k, v in views.items():
                groups.setdefault(v, []).append(k)
            fails.append(("nondeterministic", f"{name}: to_json digests differ: " + "; ".join(f"{v[:10]}..: {ks}" for v, ks in groups.items())))
        for c, d in fails:
            sig = f"C06:{c}:{name.split(':')[1] if name.startswith('gen:') else name}"
            known = [k for k in ctx.known if k.get("status") == "open" and k.get("signature") == sig]
            if known:
                part.known_hits[known[0]["id"]] += 1
            else:
                part.violations.append(Violation(c, sig, d, {"kind": "bytes", "name": name, "ext": it["ext"], "bytes_b64": __import__("base64").b64encode(it["data"]).decode() if len(it["data"]) < 200000 else None}))
    return part


# ---- (b) observer histories ---------------------------------------------------------------------------------------------------
def history_shard(ctx: Ctx, inputs):
    part = Partial()
    mine = [it for i, it in enumerate(inputs) if i % ctx.nshards == ctx.shard]
    hist = st.lists(st.sampled_from(OBSERVERS), min_size=3, max_size=10)
    n = ctx.n(12, 150)
    for it in mine:
        def ev(h, it=it):
            fails = judge_history(it["ext"], it["data"], h)
            part.case(digest(["hist", it["name"], h]), len(set(h)) >= 3, sample={"input": it["name"], "history": h} if part.evaluations % 400 == 0 else None, leg="history")
            out = []
            for c, d in fails[:1]:
                sig = f"C06:{c}:{it['name'].split(':')[1] if it['name'].startswith('gen:') else it['name']}"
                if any(k.get("status") == "open" and k.get("signature") == sig for k in ctx.known):
                    part.known_hits[[k["id"] for k in ctx.known if k.get("signature") == sig][0]] += 1
                    continue
                out.append(Violation(c, sig, f"[{it['name']}] {d}", {"kind": "history", "name": it["name"], "ext": it["ext"], "history": h,
                                                                      "bytes_b64": __import__("base64").b64encode(it["data"]).decode() if len(it["data"]) < 200000 else None}))
            return out
        hyp_search(ctx, "hist-" + it["name"], hist, ev, n, part, model_shrink=False, shrink_budget_s=8)
        ref = fresh_reference(it["ext"], it["data"])
        if any(ref.get((ri, "full_text")) != ref.get((ri, "full_text_flipped")) for ri in range(4)):
            # the observer options matter for this result: histories over the option-taking observers and their plain twins
            few = st.lists(st.sampled_from(["full_text", "full_text_flipped", "unit_texts", "unit_texts_flipped", "to_json", "units"]), min_size=2, max_size=6)
            hyp_search(ctx, "hist-options-" + it["name"], few, ev, n, part, model_shrink=False, shrink_budget_s=8)
    return part


_INPUTS = None


def _history_entry(ctx: Ctx):
    return history_shard(ctx, _INPUTS)


# ---- (c) a result is not rewritten by later extractions ---------------------------------------------------------------------
def judge_later_calls(ext, data, later: list):
    """Extract `data` under one path, serialise it, then run the `later` extractions [(ext, data, path)] in the same process: the first
    result must still serialise to the same JSON (results share no mutable object with later calls)."""
    from sharepoint2text.parsing.router import get_extractor
    try:
        first = list(get_extractor("x." + ext)(io.BytesIO(data), "/srv/in/first." + ext))
        snap = [json.dumps(r.to_json(), sort_keys=True, default=repr) for r in first]
    except Exception:  # noqa
        return []
    for i, (e2, d2, p2) in enumerate(later):
        try:
            keep = list(get_extractor("x." + e2)(io.BytesIO(d2), p2))      # noqa: F841  (kept alive on purpose)
        except Exception:  # noqa
            continue
        now = [json.dumps(r.to_json(), sort_keys=True, default=repr) for r in first]
        if now != snap:
            k = next(j for j, (a, b) in enumerate(zip(snap, now)) if a != b)
            diff = next((f"{x!r} -> {y!r}" for x, y in zip(snap[k].split(","), now[k].split(",")) if x != y), "")
            return [("later-call-changes-result", f"to_json() of an extracted .{ext} result changed after a later extraction (#{i + 1}: .{e2}, path {p2!r}): {diff[:200]}")]
    return []


def later_calls_shard(ctx: Ctx, inputs):
    part = Partial()
    mine = [it for i, it in enumerate(inputs) if i % ctx.nshards == ctx.shard and len(it["data"]) < 600_000]
    by_ext = {}
    for it in inputs:
        by_ext.setdefault(it["ext"], []).append(it)
    for it in mine:
        sib = [x for x in by_ext[it["ext"]] if x is not it and len(x["data"]) < 600_000][:2]
        later = [(it["ext"], it["data"], "/srv/in/second." + it["ext"]), (it["ext"], it["data"], None)] + [(x["ext"], x["data"], f"/srv/other/{n}." + x["ext"]) for n, x in enumerate(sib)]
        fails = judge_later_calls(it["ext"], it["data"], later)
        part.case(digest(["later", it["name"]]), True, sample={"input": it["name"], "later": [p for _, _, p in later]} if part.evaluations % 40 == 0 else None, leg="later-calls")
        for c, d in fails[:1]:
            part.violations.append(Violation(c, f"C06:{c}:{it['ext']}", f"[{it['name']}] {d}", {"kind": "later", "name": it["name"], "ext": it["ext"],
                                                                                                  "bytes_b64": __import__("base64").b64encode(it["data"]).decode() if len(it["data"]) < 200000 else None}))
    return part


def _later_entry(ctx: Ctx):
    return later_calls_shard(ctx, _INPUTS)


def run(ctx: Ctx) -> Partial:
    global _INPUTS
    part = Partial()
    inputs = fixture_inputs() + generated_inputs(ctx, ctx.n(4, 40))
    _INPUTS = inputs  # inherited by the forked shards
    process_leg(ctx, part, inputs)
    part.merge(shard_map(ctx, "vf.props.c06", "_history_entry", 16))
    part.merge(shard_map(ctx, "vf.props.c06", "_later_entry", 16))
    return part


def replay(ctx: Ctx, payload: dict):
    import base64
    if not payload.get("bytes_b64"):
        return []
    data = base64.b64decode(payload["bytes_b64"])
    if payload.get("kind") == "later":
        ext = payload["ext"]
        fails = judge_later_calls(ext, data, [(ext, data, "/srv/in/second." + ext), (ext, data, None)])
        return [Violation(c, f"C06:{c}:{ext}", d, payload) for c, d in fails[:1]]
    if payload.get("kind") == "history":
        fails = judge_history(payload["ext"], data, payload["history"])
        return [Violation(c, f"C06:{c}", d, payload) for c, d in fails[:1]]
    p = Partial()
    process_leg(ctx, p, [{"name": payload["name"], "ext": payload["ext"], "data": data}])
    return p.violations
