"""C14 — Images are returned bit-exact, numbered, on the right unit."""
from __future__ import annotations

import glob
import io
import os

from hypothesis import strategies as st

from vf.gen import imgenc, sheets
from vf.gen.profiles import PROFILES
from vf.gen.tokens import make
from vf.runner import REPO, Ctx, Partial, Violation, digest, hyp_search, shard_map

RULE = ("documents embedding 0..5 generated PNG/JPEG/GIF/BMP images of random pixel sizes, spread over 1..3 pages/slides/sheets/chapters, with every package reference form "
        "(relative, parent-relative, absolute, './'), display size equal to or different from the pixel size, RTF hex data on one line or wrapped; rendered to docx, pptx, xlsx, odt, odp, "
        "ods, odg, epub, pdf, rtf. Oracle: iterate_images() yields exactly the placed images in document order with identical bytes, the matching content type, the file's pixel size, "
        "numbers 1..n, each on the unit it was placed on (unit views; metadata unit number where the format carries one); unit views are contained in / concatenate to the document view. "
        "All repository fixtures are checked for the unit/document inclusion clause. Non-trivial = >=2 images with a non-default reference form or >=2 units carrying images; "
        "distinct by (format, model digest).")
ASSUMPTIONS = ["a medium shared by several anchors and external/missing images are not generated (the property does not say how many results they should give)",
               "pixel size is taken from the embedded file's own header"]

MIME = {"png": "image/png", "jpeg": "image/jpeg", "gif": "image/gif", "bmp": "image/bmp"}
FORMATS_IMG = {
    "docx": dict(types=["png", "jpeg", "gif", "bmp"], units=1, unit_attr=False, opts={"img_ref": ["relative", "relative", "absolute", "dot", "parent"]}),
    "pptx": dict(types=["png", "jpeg", "gif", "bmp"], units=3, unit_attr=True, opts={"img_ref": ["parent", "parent", "absolute", "relative"], "permute_parts": [False, True]}),
    "xlsx": dict(types=["png", "jpeg", "gif", "bmp"], units=3, unit_attr=False, opts={"img_ref": ["parent", "absolute"], "permute_parts": [False, False, True], "disp": [False, False, True], "vml_first": [False, True]}),
    "odt": dict(types=["png", "jpeg", "gif", "bmp"], units=1, unit_attr=False, opts={"img_ref": ["relative", "relative", "dot"], "disp": [False, False, True]}),
    "odp": dict(types=["png", "jpeg", "gif", "bmp"], units=3, unit_attr=True, opts={"img_ref": ["relative", "relative", "dot"], "disp": [False, False, True], "share_media": [False, True]}),
    "ods": dict(types=["png", "jpeg", "gif", "bmp"], units=3, unit_attr=False, opts={"img_ref": ["relative", "relative", "dot"], "disp": [False, False, True]}),
    "odg": dict(types=["png", "jpeg", "gif", "bmp"], units=2, unit_attr=False, opts={"img_ref": ["relative", "relative", "dot"]}),
    "epub": dict(types=["png", "jpeg", "gif", "bmp"], units=3, unit_attr=False, opts={"ghost_image": [False, False, True]}),
    "pdf": dict(types=["jpeg"], units=3, unit_attr=True, opts={"flate_images": [False, False, True]}),
    "rtf": dict(types=["png", "jpeg"], units=3, unit_attr=True, opts={"hex_wrap": [0, 64, 128]}),
}
UNIT_VIEW = {"pptx", "odp", "pdf", "xlsx", "ods", "rtf"}  # page/slide/sheet formats: unit views concatenate to the document view


def extract(ext, data: bytes):
    from sharepoint2text.parsing.router import get_extractor
    return list(get_extractor("x." + ext)(io.BytesIO(data), "x." + ext))


def build(case):
    """case = {"format", "units": [[item]], "opts"} ; item = {"k":"p","tok"} | {"k":"img","type","w","h","seed"} -> (bytes, placed images in order [(unit, data, type, w, h)])"""
    fmt = case["format"]
    opts = dict(case.get("opts") or {})
    images, placed = [], []
    enc = {"png": imgenc.png, "jpeg": imgenc.jpeg, "gif": imgenc.gif, "bmp": imgenc.bmp}
    for ui, unit in enumerate(case["units"]):
        for it in unit:
            if it["k"] == "img":
                if it.get("thumb") and it["type"] == "jpeg":
                    data = imgenc.jpeg(it["w"], it["h"], it["seed"], thumbnail=(it["w"] % 7 + 41, it["h"] % 5 + 43))
                else:
                    data = enc[it["type"]](it["w"], it["h"], it["seed"])
                im = {"data": data, "ext": it["type"], "w": it["w"], "h": it["h"], "alt": "", "unit": ui}
                if opts.get("disp"):
                    im["disp_w"], im["disp_h"] = it["w"] * 3 + 7, it["h"] * 2 + 5
                    im["disp_w_odf"], im["disp_h_odf"] = f"{(it['w'] * 3 + 7) / 96 * 2.54:.4f}cm", f"{(it['h'] * 2 + 5) / 96 * 2.54:.4f}cm"
                images.append(im)
                placed.append((ui, data, it["type"], it["w"], it["h"]))
    ropts = {k: v for k, v in opts.items() if k != "disp" and v not in (False, None)}
    if fmt in ("xlsx", "ods"):
        grid = {"props": {}, "sheets": [{"name": f"Sheet{ui + 1}", "origin": [0, 0], "hdr_rows": 0,
                                          "rows": [[{"t": "s", "v": it["tok"]}] for it in unit if it["k"] == "p"] or [[{"t": "s", "v": make("M", 900 + ui)}]]}
                                         for ui, unit in enumerate(case["units"])]}
        data = (sheets.render_xlsx if fmt == "xlsx" else sheets.render_ods)(grid, opts=ropts, images=images)
        return data, placed
    idx = [0]

    def blocks(unit):
        out = []
        for it in unit:
            if it["k"] == "p":
                out.append({"k": "p", "inl": [{"k": "t", "tok": it["tok"], "sty": 0}], "h": None})
            else:
                out.append({"k": "img", "id": idx[0]})
                idx[0] += 1
        return out
    doc = {"props": {}, "units": [{"name": None, "blocks": blocks(u), "notes": None} for u in case["units"]], "header": None, "footer": None, "comments": []}
    if opts.get("disp"):
        for im in images:
            im["disp_w"], im["disp_h"] = im["disp_w_odf"], im["disp_h_odf"]
    data = PROFILES[fmt]["render"](doc, images=images, opts=ropts)
    return data, placed


def judge(case):
    fmt = case["format"]
    spec = FORMATS_IMG[fmt]
    data, placed = build(case)
    try:
        results = extract(PROFILES[fmt]["ext"] if fmt in PROFILES else fmt, data)
        r = results[0]
        imgs = list(r.iterate_images())
        got = []
        for im in imgs:
            b = im.get_bytes()
            pos = b.tell()
            raw = b.read()
            meta = im.get_metadata()
            got.append({"bytes": raw, "pos": pos, "ctype": im.get_content_type(), "num": meta.image_number, "unit": meta.unit_number, "w": meta.width, "h": meta.height})
        unit_views = [[i.get_bytes().read() for i in u.get_images()] for u in r.iterate_units()]
    except Exception as e:  # noqa
        return [("raised", f"{type(e).__name__}: {e}")]
    fails = []
    want_bytes = [p[1] for p in placed]
    if [g["bytes"] for g in got] != want_bytes:
        if sorted(g["bytes"] for g in got) == sorted(want_bytes):
            fails.append(("order", f"images come back in a different order than they are placed ({[want_bytes.index(g['bytes']) + 1 for g in got]})"))
        else:
            missing = sum(1 for b in want_bytes if b not in [g["bytes"] for g in got])
            extra = sum(1 for g in got if g["bytes"] not in want_bytes)
            fails.append(("bytes", f"{len(got)} images returned for {len(placed)} placed; {missing} placed images not returned bit-exact (sizes {[len(g['bytes']) for g in got]} vs {[len(b) for b in want_bytes]}), {extra} returned images not in the document"))
    if any(g["pos"] != 0 for g in got):
        fails.append(("stream", "get_bytes() stream is not positioned at 0"))
    by_bytes = {p[1]: p for p in placed}
    for g in got:
        p = by_bytes.get(g["bytes"])
        if p is None:
            continue
        if g["ctype"] != MIME[p[2]]:
            fails.append(("content-type", f"content type {g['ctype']!r} for an embedded {p[2]} image"))
            break
        if (g["w"], g["h"]) != (p[3], p[4]):
            fails.append(("pixel-size", f"size {(g['w'], g['h'])} reported for a {p[3]}x{p[4]} {p[2]} file"))
            break
    nums = [g["num"] for g in got]
    if nums != list(range(1, len(got) + 1)):
        fails.append(("numbering", f"image numbers {nums} are not the running numbers 1..{len(got)}"))
    if fmt in UNIT_VIEW or spec["units"] == 1:
        want_views = [[p[1] for p in placed if p[0] == ui] for ui in range(len(case["units"]))] if fmt in UNIT_VIEW else [want_bytes]
        if fmt in UNIT_VIEW and (placed or unit_views) and [v for v in unit_views] != want_views and not fails:
            fails.append(("unit-attribution", f"units carry {[len(v) for v in unit_views]} images, placed {[len(v) for v in want_views]} (or different images)"))
        if spec["unit_attr"] and not fails:
            same_order = [g["bytes"] for g in got] == want_bytes       # then the i-th returned image is the i-th placement (two placements may carry the same bytes)
            for gi, g in enumerate(got):
                p = placed[gi] if same_order else by_bytes.get(g["bytes"])
                if p and g["unit"] != p[0] + 1:
                    fails.append(("unit-attribution", f"image on source unit {p[0] + 1} reports unit_number {g['unit']}"))
                    break
    # every image reachable from a unit is reachable from the document
    docset = [g["bytes"] for g in got]
    for v in unit_views:
        for b in v:
            if b not in docset:
                fails.append(("unit-subset", "a unit holds an image that iterate_images() does not yield"))
                break
    if fmt in UNIT_VIEW and [b for v in unit_views for b in v] != docset and not any(c in ("bytes", "order") for c, _ in fails):
        fails.append(("unit-subset", "concatenated unit views differ from the document-level view"))
    return fails


def features(case):
    f = set()
    opts = case.get("opts") or {}
    for k, v in opts.items():
        if v not in (False, None, 0) and not (k == "img_ref" and v == {"pptx": "parent", "xlsx": "parent"}.get(case["format"], "relative")):
            f.add(f"opt.{k}" + (f"={v}" if isinstance(v, str) else ""))
    n_img_units = sum(1 for u in case["units"] if any(i["k"] == "img" for i in u))
    if n_img_units >= 2:
        f.add("image.multi-unit")
    types = {i["type"] for u in case["units"] for i in u if i["k"] == "img"}
    for t in types:
        f.add("image." + t)
    if any(not any(i["k"] == "img" for i in u) for u in case["units"]) and n_img_units:
        f.add("image.unit-without-image")
    return f


def neutralise(case, feature):
    import copy
    c = copy.deepcopy(case)
    if feature.startswith("opt."):
        key = feature[4:].split("=")[0]
        c["opts"] = {k: v for k, v in (c.get("opts") or {}).items() if k != key}
    elif feature == "image.multi-unit":
        imgs = [i for u in c["units"] for i in u if i["k"] == "img"]
        c["units"] = [[i for i in u if i["k"] != "img"] for u in c["units"]]
        c["units"][0].extend(imgs)
    elif feature == "image.unit-without-image":
        c["units"] = [u for u in c["units"] if any(i["k"] == "img" for i in u)] or c["units"][:1]
    elif feature.startswith("image."):
        t = feature.split(".")[1]
        for u in c["units"]:
            for i in u:
                if i["k"] == "img" and i["type"] == t:
                    i["type"] = FORMATS_IMG[c["format"]]["types"][0] if t != FORMATS_IMG[c["format"]]["types"][0] else t
    return c


def validate(case):
    spec = FORMATS_IMG[case["format"]]
    assert 1 <= len(case["units"]) <= max(spec["units"], 1)
    seeds = set()
    for u in case["units"]:
        for i in u:
            if i["k"] == "img":
                assert i["type"] in spec["types"] and 1 <= i["w"] <= 64 and 1 <= i["h"] <= 64 and isinstance(i["seed"], int) and (i["seed"] not in seeds or i.get("dup"))
                seeds.add(i["seed"])
            else:
                assert i["k"] == "p" and len(i["tok"]) == 7
    for k, v in (case.get("opts") or {}).items():
        assert k in spec["opts"] and v in spec["opts"][k]
    return True


@st.composite
def cases(draw, fmt):
    spec = FORMATS_IMG[fmt]
    ctr = [draw(st.integers(0, 10**5)) * 50]

    def tok():
        ctr[0] += 1
        return make("B", ctr[0] % (36 ** 5))
    nunits = draw(st.integers(1, spec["units"]))
    total = [0]
    units = []
    for _ in range(nunits):
        items = []
        for _ in range(draw(st.integers(0, 4))):
            if draw(st.booleans()) and total[0] < 5:
                total[0] += 1
                ctr[0] += 1
                items.append({"k": "img", "type": draw(st.sampled_from(spec["types"])), "w": draw(st.integers(1, 40)), "h": draw(st.integers(1, 40)), "seed": ctr[0], "thumb": draw(st.sampled_from([False, False, True]))})
            else:
                items.append({"k": "p", "tok": tok()})
        units.append(items)
    if "share_media" in spec["opts"] and len(units) >= 2:
        # the same picture again on a later slide
        firsts = [it for it in units[0] if it["k"] == "img"]
        if firsts and draw(st.booleans()):
            units[-1].append(dict(firsts[0], dup=True))
    if fmt in ("docx", "odt") and not any(units):
        units[0].append({"k": "p", "tok": tok()})
    opts = {k: draw(st.sampled_from(v)) for k, v in spec["opts"].items()}
    return {"format": fmt, "units": units, "opts": opts}


def evaluate(ctx: Ctx, case, part: Partial | None = None):
    validate(case)
    fmt = case["format"]
    feats = features(case)
    fails = judge(case)
    nimg = sum(1 for u in case["units"] for i in u if i["k"] == "img")
    if part is not None:
        nt = nimg >= 2 and ("image.multi-unit" in feats or any(f.startswith("opt.img_ref") for f in feats))
        part.case(digest(case), nt, sample={"format": fmt, "images": nimg, "features": sorted(feats)} if part.evaluations % 41 == 0 else None, fmt=fmt, images=min(nimg, 3))
        for f in feats:
            part.hist[f"{fmt}:{f}"] += 1
    if not fails:
        return []
    clauses = {c for c, _ in fails}
    known = [k for k in ctx.known if k.get("status") == "open" and k.get("format") == fmt and k.get("feature") in feats]
    if known:
        ncase = case
        for k in known:
            ncase = neutralise(ncase, k["feature"])
        nfails = judge(ncase)
        allowed = set().union(*[set(k.get("clauses", [])) for k in known])
        if not nfails and clauses <= allowed:
            if part is not None:
                for k in known:
                    part.known_hits[k["id"]] += 1
            return []
        if nfails:
            case, fails = ncase, nfails
    c, d = fails[0]
    return [Violation(c, f"C14:{fmt}:{c}", f"[{fmt}] {d}; failing clauses {sorted({x for x, _ in fails})}; features {sorted(features(case))}", {"kind": "images", "format": fmt, "model": case})]


FORMATS = [f for f in FORMATS_IMG if not os.environ.get("VF_FORMATS") or f in os.environ["VF_FORMATS"].split(",")]


def shard(ctx: Ctx, fmt: str):
    part = Partial()
    hyp_search(ctx, f"c14-{fmt}", cases(fmt), lambda c: evaluate(ctx, c, part), ctx.n(150, 3000), part)
    return part


def fixtures(ctx: Ctx, part: Partial):
    """unit/document inclusion on every repository fixture."""
    from sharepoint2text import read_file
    from sharepoint2text.parsing.exceptions import ExtractionError
    root = os.path.join(REPO, "sharepoint2text/tests/resources")
    for path in sorted(glob.glob(root + "/**/*", recursive=True)):
        if not os.path.isfile(path) or "password_protected" in path or os.path.getsize(path) == 0:
            continue
        rel = os.path.relpath(path, root)
        try:
            results = list(read_file(path))
        except ExtractionError:
            continue
        for r in results:
            try:
                doc_imgs = [i.get_bytes().read() for i in r.iterate_images()]
                doc_tabs = [t.get_table() for t in r.iterate_tables()]
                bad = None
                for u in r.iterate_units():
                    for i in u.get_images():
                        if i.get_bytes().read() not in doc_imgs:
                            bad = "image"
                    for t in u.get_tables():
                        if t.get_table() not in doc_tabs and [[None if c is None else str(c) for c in row] for row in t.get_table()] not in [[[None if c is None else str(c) for c in row] for row in d] for d in doc_tabs]:
                            bad = "table"
            except Exception as e:  # noqa
                bad = f"raised {type(e).__name__}"
            part.case(digest(["fixture", rel]), bool(doc_imgs), fixture=True)
            if bad:
                sig = f"C14:fixture:{rel}:unit-subset"
                known = [k for k in ctx.known if k.get("status") == "open" and k.get("signature") == sig]
                if known:
                    part.known_hits[known[0]["id"]] += 1
                else:
                    part.violations.append(Violation("unit-subset", sig, f"[fixture {rel}] a unit holds a {bad} that the document-level iterator does not yield", {"kind": "fixture", "path": rel}))


def run(ctx: Ctx) -> Partial:
    part = Partial()
    fixtures(ctx, part)
    part.merge(shard_map(ctx, "vf.props.c14", "shard", len(FORMATS), extra_per_shard=[[f] for f in FORMATS]))
    return part


def replay(ctx: Ctx, payload: dict):
    if payload.get("kind") == "fixture":
        p = Partial()
        fixtures(ctx, p)
        return [v for v in p.violations if v.replay.get("path") == payload["path"]]
    return evaluate(ctx, payload["model"])
