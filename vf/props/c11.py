"""C11 — ZIP-container bomb guard decides exactly and runs before any read."""
from __future__ import annotations

import io
import itertools
import os
import struct
import zipfile
from fractions import Fraction

from hypothesis import strategies as st

from vf.runner import REPO, Ctx, Partial, Violation, digest, hyp_search, shard_map

RULE = ("(A) vectors of entries (file_size, compress_size, is_dir) and ZipBombLimits with every quantity drawn from {T-1,T,T+1} around each threshold (plus 0/1), "
        "presented to validate_zipfile as ZipInfo lists; the single-clause lattice (each of the 5 thresholds x {-1,0,+1}, others far away) is enumerated exhaustively, "
        "combinations are Hypothesis-drawn. (B) real packages (docx/docm/pptx/pptm/xlsx/xlsm/odt/ods/odp/odg/odf/epub) with extra members whose central-directory "
        "sizes are forged to sit on either side of the DEFAULT limits, fed to the extractors with a monitor on ZipFile.open / validate_zipfile. Oracle: independent "
        "reference predicate (exact rationals); extractor raises ExtractionZipBombError iff reference rejects; no member opened before the first validation nor after a "
        "rejection; validate_zip_bytesio preserves tell(). (D) one BytesIO opened several times (open_zipfile / validate_zip_bytesio / an extractor) under changing limits and refilled with other packages: every open is judged on its own. Non-trivial = some quantity exactly on a threshold and its +/-1 neighbour has the other verdict; distinct by digest.")
ASSUMPTIONS = ["entry count: whether directory entries count towards max_entries is not stated by the property; cases where the two readings differ are not judged on that clause",
               "ratio limits are drawn from dyadic rationals so float and exact comparison coincide"]

FAR = dict(max_entries=10**6, max_total_uncompressed_bytes=10**15, max_single_uncompressed_bytes=10**15,
           max_total_compression_ratio=1e12, max_entry_compression_ratio=1e12)


def reference(entries, lim) -> tuple[bool | None, str]:
    """entries: list of (file_size, compress_size, is_dir). -> (reject?, reason).  None = unspecified (entry-count reading)."""
    files = [(f, c) for f, c, d in entries if not d]
    n_all, n_files = len(entries), len(files)
    reasons = []
    if n_files > lim["max_entries"]:
        reasons.append("entries")
    for f, c in files:
        if f > lim["max_single_uncompressed_bytes"]:
            reasons.append("single")
        if f > 0 and c <= 0:
            reasons.append("zero-compressed")
        if f > 0 and c > 0 and Fraction(f, c) > Fraction(lim["max_entry_compression_ratio"]):
            reasons.append("entry-ratio")
    tu, tc = sum(f for f, _ in files), sum(c for _, c in files)
    if tu > lim["max_total_uncompressed_bytes"]:
        reasons.append("total")
    if tu > 0 and tc > 0 and Fraction(tu, tc) > Fraction(lim["max_total_compression_ratio"]):
        reasons.append("total-ratio")
    if reasons:
        return True, ",".join(sorted(set(reasons)))
    if n_all > lim["max_entries"]:
        return None, "entry-count-reading"
    return False, ""


class _StubZip:
    def __init__(self, infos):
        self._infos = infos

    def infolist(self):
        return self._infos


def _infos(entries, attrs=(), same_name=()):
    """attrs[i]: external_attr given to entry i. A *file* name with directory attribute bits (MS-DOS 0x10, Unix S_IFDIR) is still a file to
    zipfile (it decides by the trailing slash alone), so it is decompressed like any other member and must be judged like one."""
    out = []
    for i, (f, c, d) in enumerate(entries):
        # same_name[i] = j: entry i carries the name of entry j (a ZIP may list one name several times; every listed entry is counted and can be read)
        j = same_name[i] if i < len(same_name) and same_name[i] is not None and same_name[i] < len(entries) and bool(entries[same_name[i]][2]) == bool(d) else i
        zi = zipfile.ZipInfo(f"d{j}/" if d else f"f{j}.bin")
        zi.file_size, zi.compress_size = f, c
        if i < len(attrs) and attrs[i]:
            zi.external_attr = attrs[i]
        out.append(zi)
    return out


def judge_vector(entries, lim, attrs=(), same_name=()):
    from sharepoint2text.parsing.exceptions import ExtractionZipBombError
    from sharepoint2text.parsing.extractors.util.zip_bomb import ZipBombLimits, validate_zipfile
    want, why = reference(entries, lim)
    try:
        validate_zipfile(_StubZip(_infos(entries, attrs, same_name)), limits=ZipBombLimits(**lim), source="vf")
        got = False
    except ExtractionZipBombError:
        got = True
    except Exception as e:  # noqa
        return [("guard-raises-other", f"validate_zipfile raised {type(e).__name__}: {e} for {entries} {lim}")], want
    if want is not None and got != want:
        return [("exact-decision", f"entries={entries} limits={lim}: guard {'rejects' if got else 'accepts'}, reference {'rejects (' + why + ')' if want else 'accepts'}")], want
    return [], want


def _viol(fails, replay):
    return [Violation(c, f"C11:{c}", d, replay) for c, d in fails[:1]]


# ---- (A) exhaustive single-clause lattice ----------------------------------------------------------------
def lattice(part: Partial):
    out = []
    n = 0
    for T in (0, 1, 2, 7, 1000):
        for delta in (-1, 0, 1):
            cases = []
            # entry count: T files (+delta)
            k = max(0, T + delta) if T <= 7 else None
            if k is not None:
                cases.append(([(1, 1, False)] * k, dict(FAR, max_entries=T), "entries"))
                cases.append(([(1, 1, False)] * k + [(0, 0, True)] * 2, dict(FAR, max_entries=T), "entries+dirs"))
            v = T + delta
            if v >= 0:
                cases.append(([(v, max(v, 1), False)], dict(FAR, max_single_uncompressed_bytes=T), "single"))
                cases.append(([(v, max(v, 1), False), (10**16, 1, True)], dict(FAR, max_single_uncompressed_bytes=T), "single+hugedir"))
                a, b = v // 2, v - v // 2
                cases.append(([(a, max(a, 1), False), (b, max(b, 1), False)], dict(FAR, max_total_uncompressed_bytes=T), "total"))
                cases.append(([(a, max(a, 1), False), (5, 5, True), (b, max(b, 1), False)], dict(FAR, max_total_uncompressed_bytes=T), "total+dir"))
            for c in (1, 3, 8):
                f = T * c + delta
                if f >= 0 and T > 0:
                    cases.append(([(f, c, False)], dict(FAR, max_entry_compression_ratio=float(T)), "entry-ratio"))
                    cases.append(([(f, c, False), (f // 2, c, False)], dict(FAR, max_entry_compression_ratio=float(T)), "entry-ratio2"))
                    cases.append(([(f, c, False)], dict(FAR, max_total_compression_ratio=float(T)), "total-ratio"))
                    cases.append(([(f - f // 3, c - c // 2, False), (f // 3, c // 2, False)] if c // 2 else [(f, c, False)],
                                  dict(FAR, max_total_compression_ratio=float(T)), "total-ratio-split"))
            for entries, lim, label in cases:
                fails, want = judge_vector(entries, lim)
                n += 1
                part.case(digest([entries, lim]), delta == 0 and want is not None, sample={"entries": entries[:4], "limits": {k_: v_ for k_, v_ in lim.items() if v_ != FAR[k_]}},
                          clause=label, verdict="reject" if want else "accept")
                if fails:
                    out += _viol(fails, {"kind": "zipvector", "entries": entries, "limits": lim})
    # zero compressed size
    for f, c in itertools.product((0, 1, 5), (0, 1)):
        for d in (False, True):
            fails, want = judge_vector([(f, c, d), (3, 3, False)], dict(FAR))
            n += 1
            part.case(digest(["z", f, c, d]), f > 0 and c == 0, clause="zero-compressed")
            if fails:
                out += _viol(fails, {"kind": "zipvector", "entries": [(f, c, d), (3, 3, False)], "limits": dict(FAR)})
    part.exhaustive["single-clause boundary lattice"] = n
    return out


# ---- (A) random combinations --------------------------------------------------------------------------------
def _vector_strategy():
    T = st.sampled_from([0, 1, 2, 3, 10, 64, 1000])
    ratio = st.sampled_from([0.5, 1.0, 2.0, 2.5, 10.0, 200.0, 500.0])
    around = lambda t: st.sampled_from([-1, 0, 1]).flatmap(lambda d: st.just(max(0, 0 + d)))  # noqa

    @st.composite
    def vec(draw):
        lim = dict(max_entries=draw(st.sampled_from([0, 1, 2, 3, 4, 6, 10**6])),
                   max_single_uncompressed_bytes=draw(st.one_of(T, st.just(10**15))),
                   max_total_uncompressed_bytes=draw(st.one_of(T, st.just(10**15))),
                   max_entry_compression_ratio=draw(st.one_of(ratio, st.just(1e12))),
                   max_total_compression_ratio=draw(st.one_of(ratio, st.just(1e12))))
        n = draw(st.integers(0, 6))
        entries = []
        for _ in range(n):
            d = draw(st.integers(0, 5)) == 0
            c = draw(st.sampled_from([0, 1, 2, 3, 4, 8, 100]))
            base = draw(st.sampled_from(["single", "total", "eratio", "tratio", "small"]))
            delta = draw(st.sampled_from([-1, 0, 1]))
            if base == "single":
                f = lim["max_single_uncompressed_bytes"] + delta
            elif base == "total":
                f = lim["max_total_uncompressed_bytes"] - sum(e[0] for e in entries if not e[2]) + delta
            elif base == "eratio":
                f = int(lim["max_entry_compression_ratio"] * c) + delta
            elif base == "tratio":
                f = int(lim["max_total_compression_ratio"] * (c + sum(e[1] for e in entries if not e[2]))) - sum(e[0] for e in entries if not e[2]) + delta
            else:
                f = draw(st.integers(0, 3))
            f = max(0, min(f, 10**14))
            entries.append((f, c, d))
        attrs = [draw(st.sampled_from([0, 0, 0, 0x10, 0x41ED0010, 0x81A40000, 0x20])) for _ in entries]
        same = [draw(st.sampled_from([None, None, None, 0, 1])) for _ in entries]
        return {"entries": entries, "limits": lim, "attrs": attrs, "same_name": same}
    return vec()


def _on_threshold(entries, lim):
    files = [(f, c) for f, c, d in entries if not d]
    tu, tc = sum(f for f, _ in files), sum(c for _, c in files)
    hit = len(files) == lim["max_entries"] or tu == lim["max_total_uncompressed_bytes"] or any(f == lim["max_single_uncompressed_bytes"] for f, _ in files)
    hit = hit or any(c > 0 and Fraction(f, c) == Fraction(lim["max_entry_compression_ratio"]) for f, c in files)
    hit = hit or (tc > 0 and Fraction(tu, tc) == Fraction(lim["max_total_compression_ratio"]))
    return hit


def random_shard(ctx: Ctx):
    part = Partial()

    def ev(m):
        entries = [tuple(e) for e in m["entries"]]
        fails, want = judge_vector(entries, m["limits"], m.get("attrs") or (), m.get("same_name") or ())
        part.case(digest(m), _on_threshold(entries, m["limits"]), sample=m, dir_attr_on_file=any(a & 0x10 and not e[2] for a, e in zip(m.get("attrs") or (), entries)), verdict={True: "reject", False: "accept", None: "unspecified"}[want],
                  has_dir=any(e[2] for e in entries), n=len(entries))
        return _viol(fails, {"kind": "zipvector", **m})
    hyp_search(ctx, "vectors", _vector_strategy(), ev, ctx.n(20000, 400000) // ctx.nshards + 1, part, model_shrink=False)
    return part


# ---- (B) forged real packages -----------------------------------------------------------------------------------
_RES = "sharepoint2text/tests/resources"
BASES = {
    "docx": "modern_ms/headings.docx", "docm": "modern_ms/sample.docm", "pptx": "modern_ms/pptx_table.pptx", "pptm": "modern_ms/sample.pptm",
    "xlsx": "modern_ms/mwe.xlsx", "xlsm": "modern_ms/sample.xlsm", "odt": "open_office/headings.odt", "ods": "open_office/sample_spreadsheet.ods",
    "odp": "open_office/odp_with_table.odp", "odg": "open_office/drawing.odg", "odf": "open_office/formular.odf", "epub": "epub/sample.epub",
}
DEF = dict(max_entries=50_000, max_total_uncompressed_bytes=4 * 2**30, max_single_uncompressed_bytes=2**30,
           max_total_compression_ratio=200.0, max_entry_compression_ratio=500.0)


def build_forged(base_bytes: bytes, dummies: list, n_pad_entries: int = 0) -> tuple[bytes, list]:
    """Re-pack `base_bytes`, append dummy members (name, forged_file_size, forged_compress_size, is_dir) and pad entries,
    forge the dummies' central-directory size fields. Returns (zip bytes, entries as the central directory states them)."""
    src = zipfile.ZipFile(io.BytesIO(base_bytes))
    buf = io.BytesIO()
    with zipfile.ZipFile(buf, "w") as out:
        for zi in src.infolist():
            data = src.read(zi.filename)
            comp = zipfile.ZIP_STORED if zi.filename == "mimetype" else zipfile.ZIP_DEFLATED
            out.writestr(zipfile.ZipInfo(zi.filename, date_time=(2020, 1, 1, 0, 0, 0)), data, compress_type=comp)
        for i, (f, c, d) in enumerate(dummies):
            name = f"vf-dummy/{i}/" if d else f"vf-dummy/{i}.bin"
            out.writestr(zipfile.ZipInfo(name, date_time=(2020, 1, 1, 0, 0, 0)), b"" if d else b"x", compress_type=zipfile.ZIP_STORED)
        for i in range(n_pad_entries):
            out.writestr(zipfile.ZipInfo(f"vf-pad/{i}", date_time=(2020, 1, 1, 0, 0, 0)), b"", compress_type=zipfile.ZIP_STORED)
    raw = bytearray(buf.getvalue())
    forge = {(f"vf-dummy/{i}/" if d else f"vf-dummy/{i}.bin").encode(): (f, c) for i, (f, c, d) in enumerate(dummies)}
    eocd = raw.rfind(b"PK\x05\x06")
    cd_size, cd_off = struct.unpack_from("<II", raw, eocd + 12)
    pos = cd_off
    while pos < cd_off + cd_size:
        assert raw[pos:pos + 4] == b"PK\x01\x02"
        nlen, elen, clen = struct.unpack_from("<HHH", raw, pos + 28)
        name = bytes(raw[pos + 46:pos + 46 + nlen])
        if name in forge:
            f, c = forge[name]
            struct.pack_into("<II", raw, pos + 20, c, f)
        pos += 46 + nlen + elen + clen
    raw = bytes(raw)
    zf = zipfile.ZipFile(io.BytesIO(raw))  # self-check: the forged central directory is what zipfile reports
    entries = [(zi.file_size, zi.compress_size, zi.is_dir()) for zi in zf.infolist()]
    return raw, entries


class Monitor:
    """Event monitor on zipfile.ZipFile.open (read() goes through it) and zip_bomb.validate_zipfile."""

    def __init__(self):
        self.events = []

    def __enter__(self):
        from sharepoint2text.parsing.extractors.util import zip_bomb
        self.zb = zip_bomb
        self.orig_open, self.orig_validate = zipfile.ZipFile.open, zip_bomb.validate_zipfile
        mon = self

        def open_(zself, name, *a, **k):
            mon.events.append(("open", getattr(name, "filename", name)))
            return mon.orig_open(zself, name, *a, **k)

        def validate(zf, **k):
            try:
                mon.orig_validate(zf, **k)
            except BaseException:  # noqa
                mon.events.append(("validate", "reject"))
                raise
            mon.events.append(("validate", "ok"))
        zipfile.ZipFile.open = open_
        zip_bomb.validate_zipfile = validate
        return self

    def __exit__(self, *exc):
        zipfile.ZipFile.open = self.orig_open
        self.zb.validate_zipfile = self.orig_validate


def judge_package(ext: str, raw: bytes, entries, lim=DEF):
    from sharepoint2text.parsing.exceptions import ExtractionZipBombError
    from sharepoint2text.parsing.router import get_extractor
    want, why = reference(entries, lim)
    extractor = get_extractor("x." + ext)
    with Monitor() as mon:
        try:
            res = list(extractor(io.BytesIO(raw), "x." + ext))
            for r in res:
                r.get_full_text()
            got = "ok"
        except ExtractionZipBombError:
            got = "bomb"
        except Exception as e:  # noqa
            got = f"other:{type(e).__name__}"
    fails = []
    if want is True and got != "bomb":
        fails.append(("exact-decision", f".{ext}: reference rejects ({why}) but extractor outcome is {got}"))
    if want is False and got == "bomb":
        fails.append(("exact-decision", f".{ext}: reference accepts but extractor raised ExtractionZipBombError"))
    ev = mon.events
    first_validate = next((i for i, e in enumerate(ev) if e[0] == "validate"), None)
    first_open = next((i for i, e in enumerate(ev) if e[0] == "open"), None)
    if first_open is not None and (first_validate is None or first_open < first_validate):
        fails.append(("validate-before-read", f".{ext}: member {ev[first_open][1]!r} opened before any validation; events={ev[:6]}"))
    first_reject = next((i for i, e in enumerate(ev) if e == ("validate", "reject")), None)
    if first_reject is not None and any(e[0] == "open" for e in ev[first_reject:]):
        fails.append(("validate-before-read", f".{ext}: members opened after the guard rejected; events={ev[first_reject:first_reject + 6]}"))
    return fails, want, got


def _boundary_scenarios():
    G = 2**30
    sc = []
    for d in (-1, 0, 1):
        sc.append((f"single{d:+d}", [(G + d, G // 100, False), (G, G, False)]))
        sc.append((f"entry-ratio{d:+d}", [(500 * 1000 + d, 1000, False), (10**7, 10**7, False)]))
        sc.append((f"zero-compressed{d:+d}", [(max(0, 1 + d), 0, False), (10, 10, False)]))
    sc.append(("hugedir", [(4 * G - 1, 1, True), (10, 10, False)]))
    return sc


def package_shard(ctx: Ctx):
    part = Partial()
    exts = sorted(BASES)
    mine = [e for i, e in enumerate(exts) if i % ctx.nshards == ctx.shard]
    for ext in mine:
        base = open(os.path.join(REPO, _RES, BASES[ext]), "rb").read()
        base_entries = build_forged(base, [])[1]
        bu, bc = sum(f for f, _, d in base_entries if not d), sum(c for f, c, d in base_entries if not d)
        scen = list(_boundary_scenarios())
        G = 2**30
        for d in (-1, 0, 1):
            # total size exactly on the limit: 3 x 1GiB + remainder, compressed sizes large enough to keep every ratio legal
            rest = 4 * G - bu - 3 * G + d
            scen.append((f"total{d:+d}", [(G, G, False)] * 3 + [(rest, rest, False)]))
            # total ratio exactly 200: add one dummy (f, c) with (bu+f) = 200*(bc+c)+d and f/c <= 500
            c = 10**6
            f = 200 * (bc + c) - bu + d
            scen.append((f"total-ratio{d:+d}", [(f, c, False)]))
        for label, dummies in scen:
            raw, entries = build_forged(base, dummies)
            fails, want, got = judge_package(ext, raw, entries)
            part.case(digest([ext, label]), label.endswith("+0") or label.endswith("-1") or label.endswith("+1"),
                      sample={"ext": ext, "scenario": label, "forged": dummies, "reference": "reject" if want else "accept", "outcome": got},
                      fmt=ext, verdict="reject" if want else "accept")
            part.violations += _viol(fails, {"kind": "zippackage", "ext": ext, "dummies": dummies, "pad": 0})
        # entry count 50_000 / 50_001 (files only, so both readings of the count agree)
        for d in (0, 1) if (ctx.thorough or ext in ("docx", "ods", "epub")) else ():
            pad = 50_000 - len(base_entries) + d
            raw, entries = build_forged(base, [], n_pad_entries=pad)
            if any(e[2] for e in entries):
                continue
            fails, want, got = judge_package(ext, raw, entries)
            part.case(digest([ext, "entries", d]), True, sample={"ext": ext, "scenario": f"entries{d:+d}", "reference": "reject" if want else "accept", "outcome": got},
                      fmt=ext, verdict="reject" if want else "accept")
            part.violations += _viol(fails, {"kind": "zippackage", "ext": ext, "dummies": [], "pad": pad})
    return part


def tell_preserved(ctx: Ctx, part: Partial):
    from sharepoint2text.parsing.exceptions import ExtractionZipBombError
    from sharepoint2text.parsing.extractors.util.zip_bomb import ZipBombLimits, validate_zip_bytesio
    base = open(os.path.join(REPO, _RES, BASES["docx"]), "rb").read()
    out = []
    for pos in (0, 1, 17, len(base) // 2, len(base) - 1, len(base)):
        for lim in (ZipBombLimits(), ZipBombLimits(max_entries=1)):
            b = io.BytesIO(base)
            b.seek(pos)
            try:
                validate_zip_bytesio(b, limits=lim, source="vf")
            except ExtractionZipBombError:
                pass
            part.case(digest(["tell", pos, lim.max_entries]), True, clause="tell")
            if b.tell() != pos or b.getvalue() != base:
                out += _viol([("stream-position", f"validate_zip_bytesio moved the stream from {pos} to {b.tell()}")], {"kind": "zipvector", "entries": [], "limits": DEF})
    return out


# ---- (D) one stream object opened several times --------------------------------------------------------------------------
REUSE_PKGS = [("good", []), ("single+1", [(2**30 + 1, 2**30 // 100, False), (2**30, 2**30, False)]), ("entry-ratio+1", [(500 * 1000 + 1, 1000, False), (10**7, 10**7, False)]),
              ("zero-compressed", [(1, 0, False), (10, 10, False)]), ("single-0", [(2**30, 2**30 // 100, False), (2**30, 2**30, False)])]
REUSE_LIMITS = {"default": {}, "one-entry": {"max_entries": 1}, "tiny-total": {"max_total_uncompressed_bytes": 64}, "ratio-1": {"max_entry_compression_ratio": 1.0}}


def judge_reuse(ext: str, steps: list[dict]):
    """steps: [{"pkg": i, "via": "open"|"validate"|"extractor", "limits": name}] - all on ONE BytesIO object, refilled when the package changes."""
    from sharepoint2text.parsing.exceptions import ExtractionZipBombError
    from sharepoint2text.parsing.extractors.util.zip_bomb import ZipBombLimits, open_zipfile, validate_zip_bytesio
    from sharepoint2text.parsing.router import get_extractor
    base = open(os.path.join(REPO, _RES, BASES[ext]), "rb").read()
    built = {}
    buf = io.BytesIO()
    current = None
    for i, s in enumerate(steps):
        k = s["pkg"] % len(REUSE_PKGS)
        if k not in built:
            built[k] = build_forged(base, REUSE_PKGS[k][1])
        raw, entries = built[k]
        if current != k:           # the caller reuses its buffer for the next document
            buf.seek(0)
            buf.truncate()
            buf.write(raw)
            current = k
        buf.seek(0)
        limname = "default" if s["via"] == "extractor" else s["limits"]
        lim = dict(DEF, **REUSE_LIMITS[limname])
        want, why = reference(entries, lim)
        try:
            if s["via"] == "open":
                open_zipfile(buf, limits=ZipBombLimits(**lim), source="vf").close()
            elif s["via"] == "validate":
                validate_zip_bytesio(buf, limits=ZipBombLimits(**lim), source="vf")
            else:
                for r in get_extractor("x." + ext)(buf, "x." + ext):
                    r.get_full_text()
            got = False
        except ExtractionZipBombError:
            got = True
        except Exception as e:  # noqa
            if s["via"] != "extractor":
                return [("guard-raises-other", f"step {i} ({REUSE_PKGS[k][0]} via {s['via']}, limits {limname}): {type(e).__name__}: {e}")]
            got = False       # forged members make the document unreadable for other reasons; only the bomb verdict is judged here
        if buf.getvalue() != raw:
            return [("stream-position", f"step {i}: the caller's buffer was modified")]
        if want is not None and got != want:
            hist = [(REUSE_PKGS[x["pkg"] % len(REUSE_PKGS)][0], x["via"], x["limits"]) for x in steps[:i + 1]]
            return [("exact-decision", f".{ext} step {i}: guard {'rejects' if got else 'accepts'}, reference {'rejects (' + why + ')' if want else 'accepts'}; one stream object, history {hist}")]
    return []


def reuse_shard(ctx: Ctx):
    part = Partial()
    exts = ["docx", "odt", "epub", "xlsx", "odp"]
    step = st.fixed_dictionaries({"pkg": st.integers(0, len(REUSE_PKGS) - 1), "via": st.sampled_from(["open", "validate", "extractor"]), "limits": st.sampled_from(sorted(REUSE_LIMITS))})
    cases = st.fixed_dictionaries({"ext": st.sampled_from(exts), "steps": st.lists(step, min_size=2, max_size=6)})

    def ev(case):
        fails = judge_reuse(case["ext"], case["steps"])
        verdicts = {reference(build_forged_cached(case["ext"], s["pkg"])[1], dict(DEF, **REUSE_LIMITS["default" if s["via"] == "extractor" else s["limits"]]))[0] for s in case["steps"]}
        part.case(digest(["reuse", case]), len(verdicts - {None}) == 2, sample={"ext": case["ext"], "steps": [(REUSE_PKGS[s["pkg"]][0], s["via"], s["limits"]) for s in case["steps"]]} if part.evaluations % 37 == 0 else None, leg="reuse")
        return _viol(fails, {"kind": "zipreuse", "ext": case["ext"], "steps": case["steps"]})
    hyp_search(ctx, "reuse", cases, ev, ctx.n(150, 3000), part)
    return part


_FORGED_CACHE: dict = {}


def build_forged_cached(ext, k):
    k %= len(REUSE_PKGS)
    if (ext, k) not in _FORGED_CACHE:
        base = open(os.path.join(REPO, _RES, BASES[ext]), "rb").read()
        _FORGED_CACHE[(ext, k)] = build_forged(base, REUSE_PKGS[k][1])
    return _FORGED_CACHE[(ext, k)]


def run(ctx: Ctx) -> Partial:
    part = Partial()
    part.merge(shard_map(ctx, "vf.props.c11", "reuse_shard", 2))
    part.violations += lattice(part)
    part.violations += tell_preserved(ctx, part)
    part.merge(shard_map(ctx, "vf.props.c11", "random_shard", 4))
    part.merge(shard_map(ctx, "vf.props.c11", "package_shard", 12))
    return part


def replay(ctx: Ctx, payload: dict):
    if payload.get("kind") == "zipreuse":
        return _viol(judge_reuse(payload["ext"], payload["steps"]), payload)
    if payload.get("kind") == "zippackage":
        base = open(os.path.join(REPO, _RES, BASES[payload["ext"]]), "rb").read()
        raw, entries = build_forged(base, [tuple(d) for d in payload["dummies"]], payload.get("pad", 0))
        fails, _, _ = judge_package(payload["ext"], raw, entries)
    else:
        fails, _ = judge_vector([tuple(e) for e in payload["entries"]], payload["limits"], payload.get("attrs") or (), payload.get("same_name") or ())
    return _viol(fails, payload)
