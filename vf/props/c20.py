"""C20 — Built-in AES equals FIPS-197 AES in ECB/CBC for every key and block."""
from __future__ import annotations

from hypothesis import strategies as st

from vf.gen import refaes
from vf.runner import Ctx, Partial, Violation, digest, hyp_search

RULE = ("exhaustive: all 256 entries of _SBOX/_INV_SBOX/_MUL{2,3,9,11,13,14}, all 16 positions of (inv)ShiftRows, all 128 unit "
        "vectors of (inv)MixColumns + inverse identity; FIPS-197/SP800-38A known answers; Hypothesis-drawn operation sequences "
        "(ecb/cbc enc/dec, key schedule) over a pool of keys (so the round-key cache is exercised) compared with an independently "
        "written reference AES; stream wrapper for all lengths 0..64 x 3 key sizes; bad key/iv/data lengths. Non-trivial = a random "
        "operation with >= 2 blocks (CBC chaining / multi-block ECB) or a sequence re-using a key after >= 4 other keys; distinct by digest.")
ASSUMPTIONS = ["the reference AES in vf/gen/refaes.py (self-checked against FIPS-197 App. C and SP 800-38A vectors at start-up) is correct",
               "pypdf uses its fallback crypto provider in this environment (needed for the stream-wrapper clause)"]


def _mod():
    from sharepoint2text.parsing.extractors.pdf import _pypdf_aes_fallback as m
    return m


def _viol(sub, detail, replay):
    return Violation(clause=sub, signature=f"C20:{sub}", detail=detail, replay=dict(kind="aes", **replay))


# ------------------------------------------------------------------------------------------------
def tables(part: Partial):
    m = _mod()
    out = []
    for name, ref in (("_SBOX", refaes.SBOX), ("_INV_SBOX", refaes.INV_SBOX)):
        tab = getattr(m, name)
        if len(tab) != 256:
            out.append(_viol("table", f"{name} has {len(tab)} entries", {"op": "table", "name": name}))
            continue
        for i in range(256):
            part.case(f"{name}{i}", True)
            if tab[i] != ref[i]:
                out.append(_viol("table", f"{name}[{i:#x}]={tab[i]:#x} expected {ref[i]:#x}", {"op": "table", "name": name, "index": i}))
                break
    for mult in (2, 3, 9, 11, 13, 14):
        tab = getattr(m, f"_MUL{mult}")
        for i in range(256):
            part.case(f"mul{mult}-{i}", True)
            if len(tab) != 256 or tab[i] != refaes.gmul(i, mult):
                out.append(_viol("table", f"_MUL{mult}[{i:#x}]={tab[i] if i < len(tab) else None} expected {refaes.gmul(i, mult):#x}",
                                 {"op": "table", "name": f"_MUL{mult}", "index": i}))
                break
    part.exhaustive["byte tables"] = 8 * 256
    # ShiftRows: all 16 positions
    for fn, ref in ((m._shift_rows, refaes.shift_rows), (m._inv_shift_rows, refaes.inv_shift_rows)):
        s = list(range(16))
        fn(s)
        part.case(fn.__name__, True)
        if s != ref(list(range(16))):
            out.append(_viol("shiftrows", f"{fn.__name__}(0..15)={s} expected {ref(list(range(16)))}", {"op": fn.__name__}))
    part.exhaustive["shiftrows positions"] = 32
    # MixColumns: GF(2)-basis of the whole 128-bit state (covers the 32-bit column map in each of the 4 column slots)
    for fn, ref in ((m._mix_columns, refaes.mix_columns), (m._inv_mix_columns, refaes.inv_mix_columns)):
        for bit in range(128):
            s = [0] * 16
            s[bit // 8] = 1 << (bit % 8)
            exp = ref(list(s))
            fn(s)
            part.case(f"{fn.__name__}{bit}", True)
            if s != exp:
                out.append(_viol("mixcolumns", f"{fn.__name__}(e{bit})={s} expected {exp}", {"op": fn.__name__, "bit": bit}))
                break
    for bit in range(128):
        s = [0] * 16
        s[bit // 8] = 1 << (bit % 8)
        orig = list(s)
        m._mix_columns(s)
        m._inv_mix_columns(s)
        if s != orig:
            out.append(_viol("mixcolumns", f"inv_mix(mix(e{bit})) != e{bit}", {"op": "mix-inv", "bit": bit}))
            break
    part.exhaustive["mixcolumns basis"] = 256
    # the state update functions must also work on full random-looking states (non-linearity would show here)
    import hashlib
    for i in range(64):
        s = list(hashlib.sha256(bytes([i])).digest()[:16])
        for fn, ref in ((m._mix_columns, refaes.mix_columns), (m._inv_mix_columns, refaes.inv_mix_columns),
                        (m._shift_rows, refaes.shift_rows), (m._inv_shift_rows, refaes.inv_shift_rows)):
            t = list(s)
            fn(t)
            part.case(None, False)
            if t != ref(list(s)):
                out.append(_viol("state-fn", f"{fn.__name__}({s})={t} expected {ref(list(s))}", {"op": fn.__name__, "state": s}))
    return out


def kats(part: Partial):
    m = _mod()
    out = []
    for k, p, c in refaes.KAT_BLOCK + refaes.KAT_ECB:
        part.case(digest([k, p]), True)
        got = m.aes_ecb_encrypt(bytes.fromhex(k), bytes.fromhex(p)).hex()
        back = m.aes_ecb_decrypt(bytes.fromhex(k), bytes.fromhex(c)).hex()
        if got != c or back != p:
            out.append(_viol("kat", f"ECB key={k}: enc={got} expected {c}; dec={back} expected {p}", {"op": "ecb", "key": k, "data": p}))
    for k, iv, p, c in refaes.KAT_CBC:
        part.case(digest([k, iv, p]), True)
        got = m.aes_cbc_encrypt(bytes.fromhex(k), bytes.fromhex(iv), bytes.fromhex(p)).hex()
        back = m.aes_cbc_decrypt(bytes.fromhex(k), bytes.fromhex(iv), bytes.fromhex(c)).hex()
        if got != c or back != p:
            out.append(_viol("kat", f"CBC key={k}: enc={got} expected {c}; dec={back} expected {p}", {"op": "cbc", "key": k, "iv": iv, "data": p}))
    return out


# ------------------------------------------------------------------------------------------------
def _apply_op(m, op, key, iv, data):
    """returns (impl_result, ref_result) where results are bytes or the string 'ValueError'."""
    def call(f, *a):
        try:
            return f(*a)
        except ValueError:
            return "ValueError"
    if op == "ecb_enc":
        return call(m.aes_ecb_encrypt, key, data), refaes.ecb_encrypt(key, data)
    if op == "ecb_dec":
        return call(m.aes_ecb_decrypt, key, data), refaes.ecb_decrypt(key, data)
    if op == "cbc_enc":
        return call(m.aes_cbc_encrypt, key, iv, data), refaes.cbc_encrypt(key, iv, data)
    if op == "cbc_dec":
        return call(m.aes_cbc_decrypt, key, iv, data), refaes.cbc_decrypt(key, iv, data)
    if op == "expand":
        r = call(m._expand_key, key)
        return (b"".join(r) if r != "ValueError" else r), b"".join(refaes.expand_key(key))
    raise AssertionError(op)


def eval_sequence(seq, part: Partial | None = None):
    """seq: list of dicts {op, key(hex), iv(hex), data(hex)}; each op compared with the reference, plus inverse law."""
    m = _mod()
    m._ROUND_KEY_CACHE.clear()
    out = []
    seen_keys = []
    for idx, o in enumerate(seq):
        key, iv, data = bytes.fromhex(o["key"]), bytes.fromhex(o["iv"]), bytes.fromhex(o["data"])
        try:
            got, exp = _apply_op(m, o["op"], key, iv, data)
        except Exception as e:  # noqa
            out.append(_viol("reference", f"step {idx} {o['op']}: raised {type(e).__name__}: {e}", {"seq": seq[: idx + 1]}))
            break
        reuse = key in seen_keys and len(set(seen_keys[len(seen_keys) - 1 - seen_keys[::-1].index(key):])) >= 4
        seen_keys.append(key)
        if part is not None:
            part.case(digest(o), len(data) >= 32 or reuse, sample={"op": o["op"], "keybits": len(key) * 8, "blocks": len(data) // 16},
                      **{"op": o["op"], "keybits": len(key) * 8, "multiblock": len(data) >= 32, "cache_reuse_after_eviction": reuse})
        if got != exp:
            out.append(_viol("reference", f"step {idx} {o['op']} key={o['key']} iv={o['iv']} data={o['data']}: "
                             f"got {got.hex() if isinstance(got, bytes) else got} expected {exp.hex()}", {"seq": seq[: idx + 1]}))
            break
        if o["op"] in ("ecb_enc", "cbc_enc") and isinstance(got, bytes):
            inv = m.aes_ecb_decrypt(key, got) if o["op"] == "ecb_enc" else m.aes_cbc_decrypt(key, iv, got)
            if inv != data:
                out.append(_viol("inverse", f"step {idx}: decrypt(encrypt(m)) != m for key={o['key']}", {"seq": seq[: idx + 1]}))
                break
    return out


def _seq_strategy():
    keys = st.lists(st.sampled_from([16, 24, 32]).flatmap(lambda n: st.binary(min_size=n, max_size=n)), min_size=1, max_size=7)

    def ops(pool):
        one = st.fixed_dictionaries({
            "op": st.sampled_from(["ecb_enc", "ecb_dec", "cbc_enc", "cbc_dec", "expand"]),
            "key": st.sampled_from(pool).map(bytes.hex),
            "iv": st.binary(min_size=16, max_size=16).map(bytes.hex),
            "data": st.integers(0, 8).flatmap(lambda b: st.binary(min_size=16 * b, max_size=16 * b)).map(bytes.hex),
        })
        return st.lists(one, min_size=1, max_size=10)
    return keys.flatmap(ops)


def random_shard(ctx: Ctx):
    part = Partial()
    n = ctx.n(2000, 40000) // max(1, ctx.nshards) + 1
    hyp_search(ctx, "seq", _seq_strategy(), lambda s: eval_sequence(s, part), n, part)
    return part


# ------------------------------------------------------------------------------------------------
def bad_lengths(part: Partial):
    m = _mod()
    out = []
    good_key, good_iv = bytes(16), bytes(16)

    def expect_valueerror(label, f, *a):
        part.case(label, True)
        try:
            f(*a)
        except ValueError:
            return
        except BaseException as e:  # noqa
            out.append(_viol("bad-length", f"{label}: raised {type(e).__name__} instead of ValueError", {"op": label}))
            return
        out.append(_viol("bad-length", f"{label}: accepted", {"op": label}))

    for klen in range(0, 41):
        if klen in (16, 24, 32):
            continue
        m._ROUND_KEY_CACHE.clear()
        for name, f, a in (("expand", m._expand_key, ()), ("ecb_enc", m.aes_ecb_encrypt, (bytes(16),)), ("ecb_dec", m.aes_ecb_decrypt, (bytes(16),)),
                           ("cbc_enc", m.aes_cbc_encrypt, (good_iv, bytes(16))), ("cbc_dec", m.aes_cbc_decrypt, (good_iv, bytes(16)))):
            expect_valueerror(f"{name}:keylen={klen}", f, bytes(klen), *a)
    for dlen in range(1, 50):
        if dlen % 16 == 0:
            continue
        expect_valueerror(f"ecb_enc:datalen={dlen}", m.aes_ecb_encrypt, good_key, bytes(dlen))
        expect_valueerror(f"ecb_dec:datalen={dlen}", m.aes_ecb_decrypt, good_key, bytes(dlen))
        expect_valueerror(f"cbc_enc:datalen={dlen}", m.aes_cbc_encrypt, good_key, good_iv, bytes(dlen))
        expect_valueerror(f"cbc_dec:datalen={dlen}", m.aes_cbc_decrypt, good_key, good_iv, bytes(dlen))
    for ivlen in list(range(0, 16)) + list(range(17, 34)):
        expect_valueerror(f"cbc_enc:ivlen={ivlen}", m.aes_cbc_encrypt, good_key, bytes(ivlen), bytes(16))
        expect_valueerror(f"cbc_dec:ivlen={ivlen}", m.aes_cbc_decrypt, good_key, bytes(ivlen), bytes(16))
    return out


def stream_wrapper(ctx: Ctx, part: Partial):
    import hashlib
    m = _mod()
    out = []
    if not m.patch_pypdf_fallback_aes():
        part.notes.append("pypdf is not on its fallback provider: stream-wrapper clause not exercised")
        return out
    import pypdf._crypt_providers._fallback as fb
    for klen in (16, 24, 32):
        key = hashlib.sha256(f"{ctx.seed}-{klen}".encode()).digest()[:klen]
        for n in range(0, 65):
            msg = hashlib.shake_128(f"{ctx.seed}-{klen}-{n}".encode()).digest(n)
            part.case(f"stream-{klen}-{n}", True, **{"stream": True})
            rep = {"op": "stream", "key": key.hex(), "data": msg.hex()}
            c = fb.CryptAES(key)
            e1, e2 = c.encrypt(msg), c.encrypt(msg)
            want_len = 16 + 16 * ((n + 1 + 15) // 16)
            if len(e1) != want_len:
                out.append(_viol("stream", f"len(encrypt({n} bytes))={len(e1)} expected {want_len}", rep))
                continue
            if e1[:16] == e2[:16]:
                out.append(_viol("stream", f"two encryptions of the same {n}-byte message share the IV", rep))
            padded = refaes.cbc_decrypt(key, e1[:16], e1[16:])
            pad = 16 - n % 16
            if padded != msg + bytes([pad]) * pad:
                out.append(_viol("stream", f"ciphertext is not IV||CBC(PKCS7(m)) for n={n} keylen={klen}", rep))
            if c.decrypt(e1) != msg:
                out.append(_viol("stream", f"decrypt(encrypt(m)) != m for n={n} keylen={klen}", rep))
            # differential the other way: a ciphertext produced by the reference decrypts to m
            iv = hashlib.md5(msg + key).digest()
            ref_ct = iv + refaes.cbc_encrypt(key, iv, msg + bytes([pad]) * pad)
            if c.decrypt(ref_ct) != msg:
                out.append(_viol("stream", f"decrypt(reference ciphertext) != m for n={n} keylen={klen}", rep))
    part.exhaustive["stream lengths 0..64 x 3 key sizes"] = 195
    return out


def bindings(ctx: Ctx, part: Partial):
    """After patch_pypdf_fallback_aes() every name pypdf resolves its AES primitives through - in the fallback module, in the provider package
    and in pypdf._encryption - must be the primitive of that name (checked against the reference cipher, not against each other)."""
    import hashlib
    m = _mod()
    out = []
    if not m.patch_pypdf_fallback_aes():
        part.notes.append("pypdf is not on its fallback provider: binding clause not exercised")
        return out
    import pypdf._crypt_providers as providers
    import pypdf._crypt_providers._fallback as fb
    import pypdf._encryption as enc
    ref = {"aes_ecb_encrypt": lambda k, iv, d: refaes.ecb_encrypt(k, d), "aes_ecb_decrypt": lambda k, iv, d: refaes.ecb_decrypt(k, d),
           "aes_cbc_encrypt": lambda k, iv, d: refaes.cbc_encrypt(k, iv, d), "aes_cbc_decrypt": lambda k, iv, d: refaes.cbc_decrypt(k, iv, d)}
    for nsname, ns in (("pypdf._crypt_providers._fallback", fb), ("pypdf._crypt_providers", providers), ("pypdf._encryption", enc)):
        for fname, rf in ref.items():
            fn = getattr(ns, fname, None)
            if fn is None:
                continue      # this pypdf version does not export the name there
            for klen in (16, 24, 32):
                for nblocks in (1, 2, 5):
                    key = hashlib.sha256(f"{ctx.seed}-{nsname}-{klen}".encode()).digest()[:klen]
                    iv = hashlib.md5(f"{ctx.seed}-{fname}-{nblocks}".encode()).digest()
                    data = hashlib.shake_128(f"{ctx.seed}-{fname}-{klen}-{nblocks}".encode()).digest(16 * nblocks)
                    part.case(f"binding-{nsname}-{fname}-{klen}-{nblocks}", True, **{"binding": nsname})
                    try:
                        got = fn(key, data) if "ecb" in fname else fn(key, iv, data)
                    except Exception as e:  # noqa
                        got = f"{type(e).__name__}: {e}"
                    if got != rf(key, iv, data):
                        out.append(_viol("binding", f"{nsname}.{fname} (key {klen * 8} bit, {nblocks} block(s)) does not compute {fname}", {"op": "binding", "ns": nsname, "fn": fname, "klen": klen, "nblocks": nblocks}))
                        break
                else:
                    continue
                break
    # the password check of AES-256 documents goes through pypdf's own bindings (ECB decrypt of /Perms, CBC of the key envelopes)
    try:
        from pypdf._encryption import AlgV5
        key = hashlib.sha256(f"{ctx.seed}-perms".encode()).digest()
        for p in (0xFFFFFFFC, 0xFFFFF0C0, 0x7FFFF0C4):      # /P as the unsigned 32-bit value pypdf works with
            perms = AlgV5.compute_Perms_value(key, p, True)
            part.case(f"binding-perms-{p}", True, **{"binding": "AlgV5"})
            if not AlgV5.verify_perms(key, perms, p, True):
                out.append(_viol("binding", f"AlgV5.verify_perms rejects the /Perms value AlgV5.compute_Perms_value produced for P={p}", {"op": "binding-perms", "p": p}))
    except ImportError:
        pass
    return out


def _guard(name, fn, *a):
    """The code under test raising inside a deterministic sub-check is a failure of that sub-check, not a harness error."""
    import traceback
    try:
        return fn(*a)
    except Exception as e:  # noqa
        tb = traceback.extract_tb(e.__traceback__)[-1]
        return [_viol(name, f"{name}: {type(e).__name__}: {e} at {tb.name}:{tb.lineno}", {"op": name})]


def run(ctx: Ctx) -> Partial:
    from vf.runner import shard_map
    refaes.selfcheck()
    part = Partial()
    part.violations += _guard("table", tables, part)
    part.violations += _guard("kat", kats, part)
    part.violations += _guard("bad-length", bad_lengths, part)
    part.violations += _guard("stream", stream_wrapper, ctx, part)
    part.violations += _guard("binding", bindings, ctx, part)
    part.merge(shard_map(ctx, "vf.props.c20", "random_shard", ctx.n(8, 16)))
    return part


def replay(ctx: Ctx, payload: dict):
    part = Partial()
    if "seq" in payload:
        return eval_sequence(payload["seq"])
    return tables(part) + kats(part) + bad_lengths(part) + stream_wrapper(ctx, part) + bindings(ctx, part)
