"""C17 — Removed markup is removed completely and takes nothing else with it."""
from __future__ import annotations

import io

from vf.gen import htmlgen, wrappers
from vf.gen.tokens import check_sequence, find
from vf.runner import Ctx, Partial, Violation, digest, hyp_search, shard_map

RULE = ("HTML documents from a grammar: visible blocks (p/div/h1-6/blockquote/pre/lists/tables/inline formatting/br/img, entities, full document / fragment / no-body shells, "
        "trailing text) interleaved at block and inline level with script/style/noscript/iframe/object/embed/applet elements and comments whose content ranges over text, void "
        "children, self-closing forms, nested removable elements, unclosed children, stray end tags, comments, CDATA sections, JS/CSS text with markup inside, mixed-case tag "
        "names. Each body is extracted as .html, .mhtml (quoted-printable / base64 / 8bit, the encoding's name in any spelling), as an EPUB chapter (XHTML rendering, well-formed documents only; also as the "
        "first of two chapters, ending inside an unclosed removable element) and through the MSG body helper _html_to_text behind the call site's HTML test (incl. an Office-style shell: no doctype, 3 KB conditional comment first). Oracle: no X (hidden) token in the text; every B (visible) token exactly once, in source order (EPUB: table-cell tokens in the "
        "chapter's tables instead). Non-trivial = >=1 removed element with non-text content and >=1 visible token after it; distinct by document digest x wrapper.")
ASSUMPTIONS = ["all seven element kinds hide their content regardless of scripting support, as the property states", "tokens are ASCII; output compared on tokens only"]


def extract_html(data: bytes, ext: str):
    from sharepoint2text.parsing.router import get_extractor
    res = list(get_extractor("x." + ext)(io.BytesIO(data), "x." + ext))
    return res


def judge(doc, wrapper: str):
    """-> list of (clause, detail)"""
    feats = htmlgen.features(doc)
    toks, table_toks = htmlgen.visible_tokens(doc)
    try:
        if wrapper == "html":
            res = extract_html(wrappers.html_bytes(htmlgen.render(doc)), "html")
            text = res[0].get_full_text()
        elif wrapper.startswith("mhtml"):
            cte = {"mhtml-qp": "quoted-printable", "mhtml-b64": "base64", "mhtml-8bit": "8bit", "mhtml-qp-caps": "quoted-printable", "mhtml-b64-caps": "base64"}[wrapper]
            spelling = {"mhtml-qp-caps": ["Quoted-Printable", "QUOTED-PRINTABLE", "quoted-Printable"], "mhtml-b64-caps": ["Base64", "BASE64", "base64 "]}.get(wrapper)
            spelling = spelling[sum(map(ord, digest(doc))) % 3] if spelling else None
            res = extract_html(wrappers.mhtml_bytes(htmlgen.render(dict(doc, shell="full")), cte=cte, cte_spelling=spelling), "mhtml")
            text = res[0].get_full_text()
        elif wrapper == "epub":
            if not feats["xml_ok"]:
                return None
            ch = htmlgen.render(doc, xhtml=True)
            res = extract_html(wrappers.epub_bytes([("ch1.xhtml", ch)]), "epub")
            text = res[0].get_full_text()
            tab_text = " ".join(" ".join(" ".join(r) for r in t.get_table()) for t in res[0].iterate_tables())
            exp_text = [t for t in toks if t not in set(table_toks)]
            fails = check_sequence(exp_text, text)
            fails += [("table-" + c, d) for c, d in check_sequence(table_toks, tab_text)]
            return fails
        elif wrapper == "epub-2ch":
            # a book of two chapters: the first ends inside a removable element that is never closed (a chapter cut short, a stray <iframe>);
            # what a chapter leaves open must not reach into the next one
            if not feats["xml_ok"]:
                return None
            tails = ['<iframe src="about:blank">', '<script type="text/javascript">var a = 1;', "<noscript>", '<object data="movie.swf">', "<style>p { color: red }", ""]
            tail = tails[sum(map(ord, digest(doc))) % len(tails)]
            ch1 = htmlgen.render(doc, xhtml=True)
            i = ch1.rfind("</body>")
            ch1 = ch1[:i] + tail + ch1[i:]
            ch2 = '<?xml version="1.0" encoding="utf-8"?>\n<html xmlns="http://www.w3.org/1999/xhtml"><head><title>two</title></head><body><p>ZB09900 second chapter</p></body></html>'
            res = extract_html(wrappers.epub_bytes([("ch1.xhtml", ch1), ("ch2.xhtml", ch2)]), "epub")
            text = res[0].get_full_text()
            exp_text = [t for t in toks if t not in set(table_toks)] + ["ZB09900"]
            return check_sequence(exp_text, text)
        elif wrapper == "msgbody":
            from sharepoint2text.parsing.extractors.mail.msg_email_extractor import _html_to_text, _looks_like_html
            raw = htmlgen.render(doc)
            # the call site converts a body only when it recognises it as HTML; a body that has an <html> element is HTML whatever precedes it
            text = _html_to_text(raw) if (doc.get("shell", "full") not in ("full", "office") or _looks_like_html(raw)) else raw
        else:
            raise ValueError(wrapper)
    except Exception as e:  # noqa
        return [("raised", f"{type(e).__name__}: {e}")]
    return check_sequence(toks, text)


WRAPPERS = ["html", "mhtml-qp", "mhtml-b64", "mhtml-8bit", "mhtml-qp-caps", "mhtml-b64-caps", "epub", "epub-2ch", "msgbody"]


def evaluate(ctx: Ctx, doc, part: Partial | None = None, wrappers_=WRAPPERS):
    feats = htmlgen.features(doc)
    toks, _ = htmlgen.visible_tokens(doc)
    out = []
    for w in wrappers_:
        fails = judge(doc, w)
        if fails is None:
            continue
        nontrivial = feats["nontext_content"] and feats["n_visible"] >= 1 and feats["n_rem"] >= 1
        if part is not None:
            part.case(digest([doc, w]), nontrivial, sample={"wrapper": w, "html": htmlgen.render(doc)[:600]} if part.evaluations % 211 == 0 else None,
                      wrapper=w, void_child=feats["void_child"], unclosed_child=feats["unclosed_child"], stray_end=feats["stray_end"], nested_rem=feats["nested_rem"],
                      embed=feats["embed"], trailing_text=feats["trailing_text"], shell=feats["shell"])
            for t in feats["rem_tags"]:
                part.hist[f"rem={t}"] += 1
        for c, d in fails[:1]:
            group = "html-family" if not w.startswith("epub") else "epub"
            out.append(Violation(c, f"C17:{group}:{c}", f"[{w}] {d}\n  html={htmlgen.render(doc, xhtml=w.startswith('epub'))[:1500]!r}", {"kind": "model", "model": doc, "wrapper": w}))
        if out:
            break
    return out


def shard(ctx: Ctx):
    part = Partial()
    n = ctx.n(8000, 200000) // ctx.nshards + 1
    hyp_search(ctx, "html", htmlgen.docs(), lambda d: evaluate(ctx, d, part), n, part)
    return part


def run(ctx: Ctx) -> Partial:
    return shard_map(ctx, "vf.props.c17", "shard", 16)


def replay(ctx: Ctx, payload: dict):
    ws = [payload["wrapper"]] if payload.get("wrapper") else WRAPPERS
    return evaluate(ctx, payload["model"], None, ws)
