"""C03 — Units mirror pages / slides / sheets / chapters / messages."""
from __future__ import annotations

import glob
import io
import os

from hypothesis import strategies as st

from vf.gen import model, neutral
from vf.gen.profiles import PROFILES
from vf.gen.tokens import find
from vf.runner import REPO, Ctx, Partial, Violation, digest, hyp_search, shard_map

RULE = ("multi-unit abstract documents (1..8 pages / slides / chapters / messages incl. empty units; flow documents with heading structures) rendered to pptx, odp, pdf, epub, rtf, mbox "
        "(one unit per source unit) and docx, odt, html, mhtml, txt, md, csv, tsv, json, eml, odg (single unit or heading sections), spreadsheets via the grid model (xlsx, ods, xls: one unit "
        "per sheet). Oracle: unit count, unit numbers are the 1-based source positions (strictly increasing), every body token is found in the unit it belongs to (text, unit tables or "
        "heading path) and in no other, get_full_text() == trimmed newline-join of unit texts for the formats documented that way. Plus every repository fixture for numbering and the join "
        "clause. Non-trivial = >=2 units, or a flow document with >=2 headings; distinct by (format, model digest).")
ASSUMPTIONS = ["for heading-sectioned flow formats the number of units is not prescribed; only numbering and partition are judged there", "tokens only"]

JOIN_FORMATS = {"pdf", "pptx", "odp", "xlsx", "ods", "epub", "html", "mhtml", "txt", "md", "csv", "tsv", "json", "eml", "mbox", "odg", "odf"}
PER_UNIT = {"slide", "page", "chapter", "sheet"}


def _unit_tokens(u):
    toks = set(find(u.get_text()))
    for t in u.get_tables():
        for row in t.get_table():
            for c in row:
                toks |= set(find(str(c)))
    meta = u.get_metadata()
    for h in getattr(meta, "heading_path", None) or []:
        toks |= set(find(h))
    for h in getattr(meta, "location", None) or []:
        toks |= set(find(str(h)))
    return toks


def judge_results(results, fmt, expected_units: list[list[str]] | None, kind: str):
    """expected_units: per source unit the body tokens (None for fixtures)."""
    fails = []
    all_units = []
    for r in results:
        units = list(r.iterate_units())
        nums = []
        for u in units:
            n = getattr(u.get_metadata(), "unit_number", None)
            nums.append(n)
        if any(not isinstance(n, int) or isinstance(n, bool) or n < 1 for n in nums):
            fails.append(("numbering", f"unit numbers {nums} are not all integers >= 1"))
        elif any(b <= a for a, b in zip(nums, nums[1:])):
            fails.append(("numbering", f"unit numbers {nums} are not strictly increasing"))
        if fmt in JOIN_FORMATS:
            want = "\n".join(u.get_text() for u in units).strip()
            if r.get_full_text() != want:
                fails.append(("full-text-join", f"get_full_text() differs from the trimmed newline-join of the unit texts: {r.get_full_text()[:80]!r} vs {want[:80]!r}"))
        all_units.append((units, nums))
    if expected_units is None:
        return fails
    if not any(expected_units) and not (kind in PER_UNIT and len(expected_units) >= 2):
        return fails  # a document without any body text: nothing to attribute (several empty pages / slides / sheets still are that many units)
    n_src = len(expected_units)
    if kind in PER_UNIT:
        units, nums = all_units[0] if all_units else ([], [])
        if len(units) != n_src:
            fails.append(("unit-count", f"{len(units)} units for {n_src} source {kind}s (numbers {nums})"))
        got = {n: _unit_tokens(u) for u, n in zip(units, nums)}
        for k, toks in enumerate(expected_units, start=1):
            for t in toks:
                holders = sorted(n for n, s in got.items() if t in s)
                if holders != [k]:
                    fails.append(("partition", f"token {t} of source {kind} {k} is found in units {holders}"))
                    break
            else:
                continue
            break
    elif kind == "message":
        if len(results) != n_src:
            fails.append(("unit-count", f"{len(results)} results for {n_src} messages"))
        for k, ((units, nums), toks) in enumerate(zip(all_units, expected_units), start=1):
            if len(units) != 1:
                fails.append(("unit-count", f"message {k} yields {len(units)} units"))
            have = set().union(*[_unit_tokens(u) for u in units]) if units else set()
            others = set().union(*[_unit_tokens(u) for j, (us, _) in enumerate(all_units, start=1) if j != k for u in us]) if len(all_units) > 1 else set()
            bad = [t for t in toks if t not in have or t in others]
            if bad:
                fails.append(("partition", f"tokens {bad[:3]} of message {k} are not exactly in its unit"))
                break
    else:  # flow / single / page-merged: one unit, or heading sections
        units, nums = all_units[0] if all_units else ([], [])
        flat = [t for toks in expected_units for t in toks]
        got = [(n, _unit_tokens(u)) for u, n in zip(units, nums)]
        if kind != "flow" and len(units) != 1:
            fails.append(("unit-count", f"{len(units)} units for a single-unit format"))
        for t in flat:
            holders = [n for n, s in got if t in s]
            if len(holders) != 1:
                fails.append(("partition", f"token {t} is found in units {holders} (expected exactly one)"))
                break
        # source order of tokens must be consistent with unit order
        pos = {t: n for n, s in got for t in s}
        seq = [pos[t] for t in flat if t in pos]
        if any(b < a for a, b in zip(seq, seq[1:])):
            fails.append(("unit-order", "units are not in source order"))
    return fails


def extract(fmt, data: bytes):
    from sharepoint2text.parsing.router import get_extractor
    ext = PROFILES[fmt]["ext"]
    return list(get_extractor("x." + ext)(io.BytesIO(data), "x." + ext))


def judge(doc, fmt, render_kw=None):
    prof = PROFILES[fmt]
    data = prof["render"](doc, **(render_kw or {}))
    try:
        results = extract(fmt, data)
        e = model.expect(doc, prof)
        per_unit = e.per_unit
        if prof["unit_kind"] == "flow":
            # heading text is covered by the heading path of a section unit *if* the section owns body text; it is not required on its own
            per_unit = [[t for t in toks if t not in set(h)] for toks, h in zip(e.per_unit, e.headings_per_unit)]
        return judge_results(results, fmt, per_unit, prof["unit_kind"])
    except Exception as ex:  # noqa
        return [("raised", f"{type(ex).__name__}: {ex}")]


def _opt_feats(render_kw):
    return {"opt." + k for k, v in ((render_kw or {}).get("opts") or {}).items() if v}


def evaluate(ctx: Ctx, doc, fmt, part: Partial | None = None, render_kw=None):
    from vf.props.c02 import _neutralise
    model.validate(doc)
    feats = model.features(doc) | _opt_feats(render_kw)
    fails = judge(doc, fmt, render_kw)
    nheads = sum(1 for u in doc["units"] for b in model.walk_blocks(u["blocks"]) if b["k"] == "p" and b.get("h"))
    if part is not None:
        part.case(digest([fmt, doc, render_kw]), len(doc["units"]) >= 2 or nheads >= 2, sample={"format": fmt, "units": len(doc["units"]), "features": sorted(feats)} if part.evaluations % 61 == 0 else None,
                  fmt=fmt, empty_unit="unit.empty" in feats, multi="unit.multi" in feats, headings=nheads >= 2)
    if not fails:
        return []
    clauses = {c for c, _ in fails}
    known = [k for k in ctx.known if k.get("status") == "open" and k.get("format") == fmt and set(k.get("feature", "").split("+")) <= feats]
    if known:
        ndoc, nkw = doc, render_kw
        for k in known:
            ndoc, nkw = _neutralise(ndoc, nkw, k["feature"].split("+")[-1])
        nfails = judge(ndoc, fmt, nkw)
        allowed = set().union(*[set(k.get("clauses", [])) for k in known])
        if not nfails and clauses <= allowed:
            if part is not None:
                for k in known:
                    part.known_hits[k["id"]] += 1
            return []
        if nfails:
            doc, render_kw, fails = ndoc, nkw, nfails
    c, d = fails[0]
    return [Violation(c, f"C03:{fmt}:{c}", f"[{fmt}] {d}; failing clauses {sorted({x for x, _ in fails})}; features {sorted(model.features(doc) | _opt_feats(render_kw))}",
                      {"kind": "model", "format": fmt, "model": doc, "render_kw": render_kw or {}})]


FORMATS = [f for f in sorted(PROFILES) if not os.environ.get("VF_FORMATS") or f in os.environ["VF_FORMATS"].split(",")]


def shard(ctx: Ctx, fmt: str):
    part = Partial()
    prof = PROFILES[fmt]
    n = ctx.n(250, 4000)
    optst = st.fixed_dictionaries({k: st.sampled_from(v) for k, v in prof.get("opts", {}).items()})
    cases = st.tuples(model.documents(prof, max_units=ctx.n(8, 30) if "unit.multi" in prof["features"] else 1, max_blocks=3), optst).map(lambda t: {"doc": t[0], "opts": t[1]})
    # deterministic part: feature-rich multi-unit documents x every combination of the renderer's options
    fixed = 0
    rich = model.rich_sample(prof, 4, key="c03-" + fmt, strategy=model.documents(prof, max_units=6 if "unit.multi" in prof["features"] else 1, max_blocks=3))
    for d in rich:
        for combo in model.option_combos(prof):
            if len(part.violations) < 3:
                part.violations += [v for v in evaluate(ctx, d, fmt, part, {"opts": combo} if combo else None) if v.signature not in {x.signature for x in part.violations}]
            fixed += 1
    part.exhaustive[f"{fmt}: 4 feature-rich documents x renderer option combinations"] = fixed
    hyp_search(ctx, f"c03-{fmt}", cases, lambda c: evaluate(ctx, c["doc"], fmt, part, {"opts": c["opts"]} if c.get("opts") else None), n, part)
    return part


_FIXTURE_SKIP = ("password_protected",)


def fixtures(ctx: Ctx, part: Partial):
    """numbering and full-text-join clauses on every repository fixture."""
    from sharepoint2text import read_file
    from sharepoint2text.parsing.exceptions import ExtractionError
    root = os.path.join(REPO, "sharepoint2text/tests/resources")
    for path in sorted(glob.glob(root + "/**/*", recursive=True)):
        if not os.path.isfile(path) or any(s in path for s in _FIXTURE_SKIP) or os.path.getsize(path) == 0:
            continue
        rel = os.path.relpath(path, root)
        try:
            results = list(read_file(path))
        except ExtractionError:
            continue
        ext = rel.rsplit(".", 1)[-1].lower()
        fmt = {"htm": "html", "xlsm": "xlsx", "docm": "docx", "pptm": "pptx"}.get(ext, ext)
        if fmt in ("zip", "tar", "gz", "7z"):
            continue
        fails = judge_results(results, fmt, None, "fixture")
        part.case(digest(["fixture", rel]), any(len(list(r.iterate_units())) >= 2 for r in results), fixture=True)
        for c, d in fails[:1]:
            sig = f"C03:fixture:{rel}:{c}"
            known = [k for k in ctx.known if k.get("status") == "open" and k.get("signature") == sig]
            if known:
                part.known_hits[known[0]["id"]] += 1
            else:
                part.violations.append(Violation(c, sig, f"[fixture {rel}] {d}", {"kind": "fixture", "path": rel}))


def run(ctx: Ctx) -> Partial:
    part = Partial()
    fixtures(ctx, part)
    part.merge(shard_map(ctx, "vf.props.c03", "shard", len(FORMATS), extra_per_shard=[[f] for f in FORMATS]))
    try:
        from vf.props import c13
        part.merge(c13.units_leg(ctx))
    except (ImportError, AttributeError):
        part.notes.append("spreadsheet leg (xlsx/ods/xls) not available in this revision")
    return part


def replay(ctx: Ctx, payload: dict):
    if payload.get("kind") == "fixture":
        p = Partial()
        fixtures(ctx, p)
        return [v for v in p.violations if v.replay.get("path") == payload["path"]]
    return evaluate(ctx, payload["model"], payload["format"], None, payload.get("render_kw"))
