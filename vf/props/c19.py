"""C19 — OMML to LaTeX conversion is total, order-preserving and balanced."""
from __future__ import annotations

import copy
import re
from xml.etree import ElementTree as ET

from vf.gen import omml
from vf.runner import Ctx, Partial, Violation, digest, hyp_search, shard_map

RULE = ("OMML trees rendered to XML and converted by omml_to_latex. Exhaustive part: every structural element with every optional child/"
        "attribute present or absent (leaf variants), alone and between runs, plus every (outer variant, operand slot, inner representative) nesting; "
        "random part: Hypothesis trees to depth 6 with property elements interleaved, text over all mapped symbols and bracket characters, "
        "malformed radicals, oMathPara roots. Oracle: totality, determinism, each run's unique token exactly once and mapped texts in source order, "
        "brace balance (trees without literal braces), and full match against an independently written reference renderer (regex over the "
        "whitespace-free output; trees without malformed radicals). Non-trivial = >= 2 structural elements with one nested in an operand of another, "
        "or a missing optional child/attribute; distinct by tree digest.")
ASSUMPTIONS = ["generated trees follow the OMML schema's child order; a missing m:val is treated as 'default or nothing' (either is accepted)",
               "output is compared modulo whitespace; the documented forms are those of the module docstring and README"]

_WS = re.compile(r"\s+")
_BR = re.compile(r"[()\[\]{}]")


def convert(xml: str):
    from sharepoint2text.parsing.extractors.util.omml_to_latex import omml_to_latex
    elem = ET.fromstring(xml)
    a = omml_to_latex(elem)
    b = omml_to_latex(elem)
    c = omml_to_latex(ET.fromstring(xml))
    return a, b, c


def judge(root) -> list[tuple[str, str]]:
    """-> list of (clause, detail)."""
    xml = omml.root_xml(root)
    feats = omml.features(root)
    try:
        a, b, c = convert(xml)
    except Exception as e:  # noqa
        return [("total", f"raised {type(e).__name__}: {e}")]
    out = []
    if not isinstance(a, str):
        return [("total", f"returned {type(a).__name__}")]
    if a != b or a != c:
        out.append(("deterministic", f"{a!r} / {b!r} / {c!r}"))
    flat = _WS.sub("", a)
    # (3) run texts exactly once, in order (brackets exempt: the malformed-radical rule consumes them)
    hay = _BR.sub("", flat)
    pos = 0
    for t in omml.run_texts(root):
        want = _BR.sub("", _WS.sub("", omml.map_text(t)))
        if not want:
            continue
        i = hay.find(want, pos)
        if i < 0:
            out.append(("run-text", f"run text {t!r} (as {want!r}) missing or out of order in {a!r}"))
            break
        pos = i + len(want)
        for tok in re.findall(r"[a-z]\d{3}", t):
            if hay.count(tok) != 1:
                out.append(("run-text", f"token {tok} occurs {hay.count(tok)} times in {a!r}"))
    # (4) balance
    if not feats["literal_braces"]:
        depth = 0
        for ch in a:
            if ch == "{":
                depth += 1
            elif ch == "}":
                depth -= 1
                if depth < 0:
                    break
        if depth != 0:
            out.append(("balance", f"unbalanced braces in {a!r}"))
    # (5) documented form, operands in place
    if feats["malformed_rad"] == 0:
        rx = omml.ref_root_regex(root)
        if not re.fullmatch(rx, flat):
            out.append(("template", f"output {a!r} does not match the documented form /{rx}/"))
    return out


# ---- known-finding attribution by neutralisation -------------------------------------------------------
def _neutralise(root, feature):
    root = copy.deepcopy(root)
    if feature == "malformed-radical-overlap":
        seen = 0
        for n in omml.all_nodes(root):
            if omml.is_malformed_rad(n):
                seen += 1
                if seen > 1:
                    n["e"] = [{"k": "r", "t": "k777", "pr": False}]
    elif feature == "missing-val":
        for n in omml.all_nodes(root):
            for key in ("chr", "beg", "end"):
                if isinstance(n.get(key), dict) and n[key].get("val") is None:
                    n[key] = None
    elif feature == "nested-chr":
        # give every nary/acc/d its own explicit property so a descendant's can never be picked up
        for n in omml.all_nodes(root):
            if n["k"] == "nary" and n["chr"] is None:
                n["chr"] = {"val": "∑"}
            if n["k"] == "acc" and n["chr"] is None:
                n["chr"] = {"val": "̂"}
            if n["k"] == "d":
                if n["beg"] is None:
                    n["beg"] = {"val": "("}
                if n["end"] is None:
                    n["end"] = {"val": ")"}
    else:
        return None
    return root


def _has_feature(root, feature):
    f = omml.features(root)
    if feature == "malformed-radical-overlap":
        return f["malformed_rad"] >= 2
    if feature == "missing-val":
        return f["missing_val"]
    if feature == "nested-chr":
        return f["nested"]
    return False


def evaluate(ctx: Ctx, root, part: Partial | None = None) -> list[Violation]:
    fails = judge(root)
    feats = omml.features(root)
    if part is not None:
        nontrivial = (feats["structural"] >= 2 and feats["nested"]) or feats["missing_child"] or feats["missing_val"]
        part.case(digest(root), nontrivial, sample=omml.root_xml(root)[90:400] if part.evaluations % 97 == 0 else None,
                  nested=feats["nested"], missing_child=feats["missing_child"], missing_val=feats["missing_val"],
                  malformed_rad=feats["malformed_rad"] > 0, literal_braces=feats["literal_braces"], para=bool(root.get("para")))
    if not fails:
        return []
    clauses = {c for c, _ in fails}
    for k in ctx.known:
        if k.get("status") != "open":
            continue
        feat = k.get("feature")
        if not _has_feature(root, feat):
            continue
        neutral = _neutralise(root, feat)
        if neutral is not None and clauses <= set(k.get("clauses", [])) and not judge(neutral):
            if part is not None:
                part.known_hits[k["id"]] += 1
            return []
    return [Violation(clause=c, signature=f"C19:{c}", detail=d + "\n  xml=" + omml.root_xml(root),
                      replay={"kind": "omml", "model": root}) for c, d in fails[:1]]


# ---- shards -------------------------------------------------------------------------------------------
def exhaustive_shard(ctx: Ctx):
    part = Partial()
    reps = ctx.n(1, 3)
    n = 0
    for i, root in enumerate(omml.enumerate_roots(reps)):
        if i % ctx.nshards != ctx.shard:
            continue
        n += 1
        v = evaluate(ctx, root, part)
        if v and len(part.violations) < 5 and all(x.signature != v[0].signature for x in part.violations):
            part.violations.extend(v)
    part.exhaustive[f"leaf variants + nestings (reps per kind={reps})"] = n
    return part


def random_shard(ctx: Ctx):
    part = Partial()
    n = ctx.n(4000, 80000) // ctx.nshards + 1
    hyp_search(ctx, "random", omml.roots(max_depth=6), lambda r: evaluate(ctx, r, part), n, part)
    # a second campaign with literal braces allowed (balance clause off there) so bracket handling is exercised too
    hyp_search(ctx, "braces", omml.roots(max_depth=4, allow_braces=True), lambda r: evaluate(ctx, r, part), n // 4 + 1, part)
    return part


def known_replays(ctx: Ctx, part: Partial):
    """Stage 1: every open finding's stored reproducer must still fail in its clause (else it is simply not reported)."""
    import json, os
    from vf.runner import HERE
    for k in ctx.known:
        p = os.path.join(HERE, k.get("replay", ""))
        if not os.path.isfile(p):
            continue
        root = json.load(open(p))["model"]
        fails = judge(root)
        if k.get("status") == "open":
            if fails and {c for c, _ in fails} <= set(k.get("clauses", [])):
                part.known_hits[k["id"]] += 1
            elif fails:
                part.violations.append(Violation(fails[0][0], f"C19:{fails[0][0]}", fails[0][1], {"kind": "omml", "model": root}))
        elif fails:  # fixed entries suppress nothing
            part.violations.append(Violation(fails[0][0], f"C19:{fails[0][0]}:regressed:{k['id']}", fails[0][1], {"kind": "omml", "model": root}))
        part.case(digest(root), True)


def embedded(ctx: Ctx, part: Partial):
    """The call sites: a formula inside a DOCX paragraph / PPTX text box must reach get_full_text() unchanged."""
    try:
        from vf.gen import ooxml_min
    except ImportError:
        return
    ooxml_min.check_formula_call_sites(ctx, part)


def run(ctx: Ctx) -> Partial:
    part = Partial()
    known_replays(ctx, part)
    part.merge(shard_map(ctx, "vf.props.c19", "exhaustive_shard", 16))
    part.merge(shard_map(ctx, "vf.props.c19", "random_shard", 16))
    return part


def replay(ctx: Ctx, payload: dict):
    ctx.known = []  # replay judges the raw oracle
    return evaluate(ctx, payload["model"])
