"""C19 — OMML to LaTeX conversion is total, order-preserving and balanced."""
from __future__ import annotations

import copy
import re
from xml.etree import ElementTree as ET

from vf.gen import omml
from vf.runner import Ctx, Partial, Violation, digest, hyp_search, shard_map

RULE = ("OMML trees rendered to XML and converted by omml_to_latex. Exhaustive part: every structural element with every optional child/"
        "attribute present or absent (leaf variants), alone and between runs, plus every (outer variant, operand slot, inner representative) nesting; "
        "random part: Hypothesis trees to depth 6 with property elements interleaved, text over all mapped symbols and bracket characters, "
        "malformed radicals, oMathPara roots. Oracle: totality, determinism, each run's unique token exactly once and mapped texts in source order, "
        "brace balance (trees without literal braces), and full match against an independently written reference renderer (regex over the "
        "whitespace-free output; trees without malformed radicals). Non-trivial = >= 2 structural elements with one nested in an operand of another, "
        "or a missing optional child/attribute; distinct by tree digest. Call sites: 1-4 DOCX files with 1-12 formulas each (and a batch of 6 x 40), extracted one after another in one "
        "process; the formulas reported and the LaTeX inside get_full_text() must equal what the converter gives for the same element on its own, in source order.")
ASSUMPTIONS = ["generated trees follow the OMML schema's child order; a missing m:val is treated as 'default or nothing' (either is accepted)",
               "output is compared modulo whitespace; the documented forms are those of the module docstring and README"]

_WS = re.compile(r"\s+")
_BR = re.compile(r"[()\[\]{}]")


def convert(xml: str):
    from sharepoint2text.parsing.extractors.util.omml_to_latex import omml_to_latex
    elem = ET.fromstring(xml)
    a = omml_to_latex(elem)
    b = omml_to_latex(elem)
    c = omml_to_latex(ET.fromstring(xml))
    return a, b, c


def judge(root) -> list[tuple[str, str]]:
    """-> list of (clause, detail)."""
    xml = omml.root_xml(root)
    feats = omml.features(root)
    try:
        a, b, c = convert(xml)
    except Exception as e:  # noqa
        return [("total", f"raised {type(e).__name__}: {e}")]
    out = []
    if not isinstance(a, str):
        return [("total", f"returned {type(a).__name__}")]
    if a != b or a != c:
        out.append(("deterministic", f"{a!r} / {b!r} / {c!r}"))
    flat = _WS.sub("", a)
    # (3) run texts exactly once, in order (brackets exempt: the malformed-radical rule consumes them)
    hay = _BR.sub("", flat)
    pos = 0
    for t in omml.run_texts(root):
        want = _BR.sub("", _WS.sub("", omml.map_text(t)))
        if not want:
            continue
        i = hay.find(want, pos)
        if i < 0:
            out.append(("run-text", f"run text {t!r} (as {want!r}) missing or out of order in {a!r}"))
            break
        pos = i + len(want)
        for tok in re.findall(r"[a-z]\d{3}", t):
            if hay.count(tok) != 1:
                out.append(("run-text", f"token {tok} occurs {hay.count(tok)} times in {a!r}"))
    # (4) balance
    if not feats["literal_braces"]:
        depth = 0
        for ch in a:
            if ch == "{":
                depth += 1
            elif ch == "}":
                depth -= 1
                if depth < 0:
                    break
        if depth != 0:
            out.append(("balance", f"unbalanced braces in {a!r}"))
    # (5) documented form, operands in place
    if feats["malformed_rad"] == 0:
        rx = omml.ref_root_regex(root)
        if not re.fullmatch(rx, flat):
            out.append(("template", f"output {a!r} does not match the documented form /{rx}/"))
    return out


# ---- known-finding attribution by neutralisation -------------------------------------------------------
def _neutralise(root, feature):
    root = copy.deepcopy(root)
    if feature == "malformed-radical-overlap":
        seen = 0
        for n in omml.all_nodes(root):
            if omml.is_malformed_rad(n):
                seen += 1
                if seen > 1:
                    n["e"] = [{"k": "r", "t": "k777", "pr": False}]
    elif feature == "missing-val":
        for n in omml.all_nodes(root):
            for key in ("chr", "beg", "end"):
                if isinstance(n.get(key), dict) and n[key].get("val") is None:
                    n[key] = None
    elif feature == "nested-chr":
        # give every nary/acc/d its own explicit property so a descendant's can never be picked up
        for n in omml.all_nodes(root):
            if n["k"] == "nary" and n["chr"] is None:
                n["chr"] = {"val": "∑"}
            if n["k"] == "acc" and n["chr"] is None:
                n["chr"] = {"val": "̂"}
            if n["k"] == "d":
                if n["beg"] is None:
                    n["beg"] = {"val": "("}
                if n["end"] is None:
                    n["end"] = {"val": ")"}
    else:
        return None
    return root


def _has_feature(root, feature):
    f = omml.features(root)
    if feature == "malformed-radical-overlap":
        return f["malformed_rad"] >= 2
    if feature == "missing-val":
        return f["missing_val"]
    if feature == "nested-chr":
        return f["nested"]
    return False


def evaluate(ctx: Ctx, root, part: Partial | None = None) -> list[Violation]:
    fails = judge(root)
    feats = omml.features(root)
    if part is not None:
        nontrivial = (feats["structural"] >= 2 and feats["nested"]) or feats["missing_child"] or feats["missing_val"]
        part.case(digest(root), nontrivial, sample=omml.root_xml(root)[90:400] if part.evaluations % 97 == 0 else None,
                  nested=feats["nested"], missing_child=feats["missing_child"], missing_val=feats["missing_val"],
                  malformed_rad=feats["malformed_rad"] > 0, literal_braces=feats["literal_braces"], para=bool(root.get("para")))
    if not fails:
        return []
    clauses = {c for c, _ in fails}
    for k in ctx.known:
        if k.get("status") != "open":
            continue
        feat = k.get("feature")
        if not _has_feature(root, feat):
            continue
        neutral = _neutralise(root, feat)
        if neutral is not None and clauses <= set(k.get("clauses", [])) and not judge(neutral):
            if part is not None:
                part.known_hits[k["id"]] += 1
            return []
    return [Violation(clause=c, signature=f"C19:{c}", detail=d + "\n  xml=" + omml.root_xml(root),
                      replay={"kind": "omml", "model": root}) for c, d in fails[:1]]


# ---- shards -------------------------------------------------------------------------------------------
def exhaustive_shard(ctx: Ctx):
    part = Partial()
    reps = ctx.n(1, 3)
    n = 0
    for i, root in enumerate(omml.enumerate_roots(reps)):
        if i % ctx.nshards != ctx.shard:
            continue
        n += 1
        v = evaluate(ctx, root, part)
        if v and len(part.violations) < 5 and all(x.signature != v[0].signature for x in part.violations):
            part.violations.extend(v)
    part.exhaustive[f"leaf variants + nestings (reps per kind={reps})"] = n
    return part


def random_shard(ctx: Ctx):
    part = Partial()
    n = ctx.n(4000, 80000) // ctx.nshards + 1
    hyp_search(ctx, "random", omml.roots(max_depth=6), lambda r: evaluate(ctx, r, part), n, part)
    # a second campaign with literal braces allowed (balance clause off there) so bracket handling is exercised too
    hyp_search(ctx, "braces", omml.roots(max_depth=4, allow_braces=True), lambda r: evaluate(ctx, r, part), n // 4 + 1, part)
    return part


def known_replays(ctx: Ctx, part: Partial):
    """Stage 1: every open finding's stored reproducer must still fail in its clause (else it is simply not reported)."""
    import json, os
    from vf.runner import HERE
    for k in ctx.known:
        p = os.path.join(HERE, k.get("replay", ""))
        if not os.path.isfile(p):
            continue
        root = json.load(open(p))["model"]
        fails = judge(root)
        if k.get("status") == "open":
            if fails and {c for c, _ in fails} <= set(k.get("clauses", [])):
                part.known_hits[k["id"]] += 1
            elif fails:
                part.violations.append(Violation(fails[0][0], f"C19:{fails[0][0]}", fails[0][1], {"kind": "omml", "model": root}))
        elif fails:  # fixed entries suppress nothing
            part.violations.append(Violation(fails[0][0], f"C19:{fails[0][0]}:regressed:{k['id']}", fails[0][1], {"kind": "omml", "model": root}))
        part.case(digest(root), True)


def _docx_with_formulas(roots, seed):
    """One DOCX: per formula a paragraph 'ZB.. <formula> ZB..' (inline) or a display paragraph, in order."""
    from vf.gen import ooxml
    from vf.gen.tokens import make
    blocks = []
    for i, r in enumerate(roots):
        blocks.append({"k": "p", "inl": [{"k": "t", "tok": make("B", 9000 + seed * 100 + i), "sty": 0}], "h": None})
        blocks.append({"k": "math", "omml": {"para": False, "maths": [r["maths"][0]]}, "display": bool(r.get("para"))})
    return ooxml.render_docx({"props": {}, "units": [{"name": None, "blocks": blocks, "notes": None}], "header": None, "footer": None, "comments": []})


def _pptx_with_formulas(roots, seed):
    """One deck: a slide per formula; display formulas keep all their lines in one m:oMathPara (a multi-line display equation)."""
    from vf.gen import ooxml
    from vf.gen.tokens import make
    units = []
    for i, r in enumerate(roots):
        lines = r["maths"] if r.get("para") else r["maths"][:1]
        units.append({"name": None, "notes": None, "blocks": [{"k": "p", "inl": [{"k": "t", "tok": make("B", 9500 + seed * 100 + i), "sty": 0}], "h": None},
                                                               {"k": "math", "omml": {"para": False, "maths": lines}, "display": bool(r.get("para"))}]})
    return ooxml.render_pptx({"props": {}, "units": units, "header": None, "footer": None, "comments": []})


def judge_embedded_pptx(roots: list) -> list[tuple[str, str]]:
    """Formulas in PPTX text boxes: every m:oMath (every line of a display equation) is reported once, as the converter renders that element on its own."""
    import io
    from sharepoint2text.parsing.extractors.util.omml_to_latex import omml_to_latex
    from sharepoint2text.parsing.router import get_extractor
    want = []
    for r in roots:
        for L in (r["maths"] if r.get("para") else r["maths"][:1]):
            try:
                want.append(omml_to_latex(ET.fromstring(omml.omath_xml(L))))
            except Exception:  # noqa
                return []
    want = sorted(_WS.sub("", w) for w in want if w and w.strip())
    try:
        res = list(get_extractor("x.pptx")(io.BytesIO(_pptx_with_formulas(roots, 0)), "x.pptx"))
    except Exception as e:  # noqa
        return [("call-site", f"pptx: extraction raised {type(e).__name__}: {e}")]
    got = sorted(_WS.sub("", f.latex) for s in res[0].slides for f in s.formulas)
    if got != want:
        return [("call-site", f"pptx: formulas reported {[g for g in got if g not in want][:3]} are not what the converter gives for the deck's m:oMath elements ({[w for w in want if w not in got][:3]} expected instead); "
                              f"{len(got)} reported, {len(want)} in the source")]
    return []


def judge_embedded(docs: list[list]) -> list[tuple[str, str]]:
    """docs: several documents (each a list of OMML roots) extracted one after another in this process, earlier results released.
    The formulas the DOCX extractor reports must be what the converter gives for the same element on its own, in source order."""
    import gc
    import io
    from sharepoint2text.parsing.extractors.util.omml_to_latex import omml_to_latex
    from sharepoint2text.parsing.router import get_extractor
    for di, roots in enumerate(docs):
        data = _docx_with_formulas(roots, di)
        want = []
        for r in roots:
            try:
                want.append(omml_to_latex(ET.fromstring(omml.omath_xml(r["maths"][0]))))
            except Exception:  # noqa
                return []           # totality is judged by the tree legs
        want = [w for w in want if w and w.strip()]
        try:
            res = list(get_extractor("x.docx")(io.BytesIO(data), "x.docx"))
        except Exception as e:  # noqa
            return [("call-site", f"document {di + 1} of {len(docs)}: extraction raised {type(e).__name__}: {e}")]
        got = [f.latex for f in res[0].formulas]
        text = _WS.sub("", res[0].get_full_text())
        del res
        gc.collect()
        # the formulas list groups display formulas before inline ones; its order is not part of the property, so it is compared as a multiset
        gs, ws = sorted(_WS.sub("", g) for g in got), sorted(_WS.sub("", w) for w in want)
        if gs != ws:
            return [("call-site", f"document {di + 1} of {len(docs)} (extracted one after another): formulas reported {[g for g in gs if g not in ws][:3]} are not what the converter gives "
                                  f"for the document's elements ({[w for w in ws if w not in gs][:3]} expected instead); {len(gs)} reported, {len(ws)} in the source")]
        pos = 0
        for w in want:
            w = _WS.sub("", w)
            i = text.find(w, pos)
            if i < 0:
                return [("call-site", f"document {di + 1} of {len(docs)}: LaTeX {w!r} missing from get_full_text() or out of order")]
            pos = i + len(w)
    return []


def embedded_shard(ctx: Ctx):
    """The call sites: formulas inside DOCX paragraphs, several documents per process."""
    from hypothesis import strategies as st
    part = Partial()
    docs = st.lists(st.lists(omml.roots(max_depth=3, allow_malformed=False), min_size=1, max_size=12), min_size=1, max_size=4)

    from vf.props.c08 import in_fresh_fork

    def ev(ds):
        fails = in_fresh_fork(judge_embedded, ds)        # each history of documents starts in a process that has extracted nothing yet, so a reported history replays as it stands
        if not fails:
            fails = judge_embedded_pptx(ds[0])
        part.case(digest(["embedded", ds]), len(ds) >= 2 and sum(len(d) for d in ds) >= 4, sample={"documents": len(ds), "formulas": [len(d) for d in ds]} if part.evaluations % 23 == 0 else None, leg="embedded")
        return [Violation(c, f"C19:{c}", d, {"kind": "embedded", "docs": ds}) for c, d in fails[:1]]
    hyp_search(ctx, "embedded", docs, ev, ctx.n(64, 800) // ctx.nshards + 1, part)
    if ctx.shard:
        return part
    # many same-shaped documents in a row (what a batch job does): 6 documents x 40 one-run formulas
    big = [[{"para": False, "maths": [[{"k": "r", "t": f"{'abcdefghkmnpquvwxyz'[(d * 40 + i) % 19]}{d * 40 + i:03d}", "pr": False}]]} for i in range(40)] for d in range(6)]
    fails = in_fresh_fork(judge_embedded, big)
    part.case(digest(["embedded-batch"]), True, sample={"documents": 6, "formulas": [40] * 6}, leg="embedded")
    part.violations += [Violation(c, f"C19:{c}", d, {"kind": "embedded", "docs": big}) for c, d in fails[:1]]
    return part


def run(ctx: Ctx) -> Partial:
    part = Partial()
    known_replays(ctx, part)
    part.merge(shard_map(ctx, "vf.props.c19", "exhaustive_shard", 16))
    part.merge(shard_map(ctx, "vf.props.c19", "random_shard", 16))
    part.merge(shard_map(ctx, "vf.props.c19", "embedded_shard", 8))
    return part


def replay(ctx: Ctx, payload: dict):
    ctx.known = []  # replay judges the raw oracle
    if payload.get("kind") == "embedded":
        from vf.props.c08 import in_fresh_fork
        return [Violation(c, f"C19:{c}", d, payload) for c, d in (in_fresh_fork(judge_embedded, payload["docs"]) or judge_embedded_pptx(payload["docs"][0]))[:1]]
    return evaluate(ctx, payload["model"])
