"""C05 — to_json is JSON-serialisable and from_json restores the same object."""
from __future__ import annotations

import contextlib
import dataclasses
import glob
import io
import json
import os
import tempfile
import typing

from hypothesis import strategies as st

from vf.runner import REPO, Ctx, Partial, Violation, digest, hyp_search, shard_map

RULE = ("(A) extraction results (and each of their units) from generated documents of every format - token documents, typed spreadsheets incl. duration/error cells and cells/headers "
        "equal to the encoding's marker words, image-bearing documents, mailboxes - and from every repository fixture; (B) type-directed instances of every dataclass in the reflective "
        "type registry, each field populated from its type hint (Optional/List/Dict/Any/bytes/BytesIO/nested dataclasses/Protocol-typed fields), strings and dict keys drawn from the "
        "marker vocabulary {_type,_bytes,_bytesio,value,<class names>}. Oracle: json.dumps(to_json()) succeeds; from_json(json.loads(...)) has the same type and an identical to_json(), "
        "full text, unit texts, tables and image bytes; with binary excluded exactly the binary leaves become null; the CLI's --json/--json-unit output equals that JSON (object for "
        "one result, array for several). Non-trivial = object graph with a binary field, or nesting >= 2, or a marker string/key, or a non-str scalar in an Any field; distinct by digest.")
ASSUMPTIONS = ["floats are finite (NaN never equals itself)", "dict keys are strings (JSON has no other key type)"]

MARKERS = ["_type", "_bytes", "_bytesio", "value", "DocxRun", "TableData", "ImageMetadata", "XlsSheet", "EmailAddress"]


def _registry():
    import inspect
    from sharepoint2text.parsing.extractors.serialization import _get_type_registry
    # abstract interface dataclasses (TableInterface, UnitMetadataInterface ...) cannot be instantiated: they are no serialisable instances
    return {n: c for n, c in _get_type_registry().items() if not inspect.isabstract(c) and not getattr(c, "_is_protocol", False)}


# ---- oracle ----------------------------------------------------------------------------------------------------------
def _strip_binary(j):
    if isinstance(j, dict):
        if set(j) == {"_bytes"} or set(j) == {"_bytesio"}:
            return None
        return {k: _strip_binary(v) for k, v in j.items()}
    if isinstance(j, list):
        return [_strip_binary(v) for v in j]
    return j


def _has_binary(j):
    if isinstance(j, dict):
        return set(j) in ({"_bytes"}, {"_bytesio"}) or any(_has_binary(v) for v in j.values())
    if isinstance(j, list):
        return any(_has_binary(v) for v in j)
    return False


def _depth(j, d=0):
    if isinstance(j, dict):
        return max([_depth(v, d + ("_type" in j)) for v in j.values()] + [d + ("_type" in j)])
    if isinstance(j, list):
        return max([_depth(v, d) for v in j] + [d])
    return d


def _marker_use(j, in_key=False):
    """(marker as value?, marker as key of a plain dict?)"""
    val = key = False
    if isinstance(j, dict):
        is_dc = "_type" in j and isinstance(j.get("_type"), str)
        for k, v in j.items():
            if k in MARKERS and not (k == "_type" and is_dc) and set(j) not in ({"_bytes"}, {"_bytesio"}):
                key = True
            a, b = _marker_use(v)
            val, key = val or a, key or b
    elif isinstance(j, list):
        for v in j:
            a, b = _marker_use(v)
            val, key = val or a, key or b
    elif isinstance(j, str) and j in MARKERS:
        val = True
    return val, key


def judge_object(x, *, is_result: bool):
    """-> list of (clause, detail); also returns the json for classification."""
    from sharepoint2text.parsing.extractors.data_types import ExtractionInterface
    from sharepoint2text.parsing.extractors.serialization import serialize_extraction
    fails = []
    try:
        j = x.to_json() if hasattr(x, "to_json") else serialize_extraction(x)
    except Exception as e:  # noqa
        return [("to_json-raises", f"{type(x).__name__}.to_json(): {type(e).__name__}: {e}")], None
    try:
        s = json.dumps(j)
    except Exception as e:  # noqa
        return [("not-serialisable", f"json.dumps({type(x).__name__}.to_json()): {type(e).__name__}: {e}")], j
    try:
        y = ExtractionInterface.from_json(json.loads(s))
    except Exception as e:  # noqa
        return [("from_json-raises", f"from_json of {type(x).__name__}: {type(e).__name__}: {str(e)[:200]}")], j
    if type(y) is not type(x):
        fails.append(("type", f"from_json returned {type(y).__name__} for a {type(x).__name__}"))
        return fails, j
    try:
        j2 = y.to_json() if hasattr(y, "to_json") else serialize_extraction(y)
    except Exception as e:  # noqa
        return [("roundtrip", f"to_json of the restored {type(x).__name__} raises {type(e).__name__}: {e}")], j
    if j2 != j:
        fails.append(("roundtrip", f"to_json differs after from_json for {type(x).__name__}: {_first_diff(j, j2)}"))
    if is_result and not fails:
        try:
            if y.get_full_text() != x.get_full_text():
                fails.append(("roundtrip", "get_full_text() differs after from_json"))
            if [u.get_text() for u in y.iterate_units()] != [u.get_text() for u in x.iterate_units()]:
                fails.append(("roundtrip", "unit texts differ after from_json"))
            if [t.get_table() for t in y.iterate_tables()] != [t.get_table() for t in x.iterate_tables()]:
                fails.append(("roundtrip", "tables differ after from_json"))
            if [i.get_bytes().read() for i in y.iterate_images()] != [i.get_bytes().read() for i in x.iterate_images()]:
                fails.append(("roundtrip", "image bytes differ after from_json"))
            # the JSON form carries the whole payload wherever a consumer has left the read position of a binary stream
            for i in x.iterate_images():
                i.get_bytes().read(5)
            for a in getattr(x, "attachments", None) or []:
                if hasattr(getattr(a, "data", None), "read"):
                    a.data.read(7)
            j3 = x.to_json() if hasattr(x, "to_json") else serialize_extraction(x)
            if j3 != j:
                fails.append(("binary-position", f"to_json() differs once a binary stream has been read: {_first_diff(j, j3)}"))
        except Exception as e:  # noqa
            fails.append(("roundtrip", f"accessor on the restored object raises {type(e).__name__}: {e}"))
    try:
        nb = serialize_extraction(x, include_binary=False)
        if nb != _strip_binary(j):
            fails.append(("binary-null", f"include_binary=False is not 'same JSON with binary leaves null': {_first_diff(_strip_binary(j), nb)}"))
        json.dumps(nb)
    except Exception as e:  # noqa
        fails.append(("binary-null", f"serialize_extraction(include_binary=False): {type(e).__name__}: {e}"))
    return fails, j


def _first_diff(a, b, path="$"):
    if type(a) is not type(b):
        return f"{path}: {type(a).__name__} {str(a)[:60]!r} vs {type(b).__name__} {str(b)[:60]!r}"
    if isinstance(a, dict):
        for k in sorted(set(a) | set(b)):
            if k not in a or k not in b:
                return f"{path}.{k}: present on one side only"
            if a[k] != b[k]:
                return _first_diff(a[k], b[k], f"{path}.{k}")
    if isinstance(a, list):
        if len(a) != len(b):
            return f"{path}: lengths {len(a)} vs {len(b)}"
        for i, (x, y) in enumerate(zip(a, b)):
            if x != y:
                return _first_diff(x, y, f"{path}[{i}]")
    return f"{path}: {str(a)[:60]!r} vs {str(b)[:60]!r}"


# ---- (A) extractor results ----------------------------------------------------------------------------------------------
def _results_for(kind, payload):
    """-> (ext, bytes)"""
    from vf.gen import sheets
    from vf.gen.profiles import PROFILES
    from vf.props import c14
    if kind == "doc":
        fmt, doc = payload["format"], payload["doc"]
        return PROFILES[fmt]["ext"], PROFILES[fmt]["render"](doc)
    if kind == "grid":
        fmt = payload["format"]
        fn = {"xlsx": sheets.render_xlsx, "xlsx-openpyxl": sheets.render_xlsx_openpyxl, "ods": sheets.render_ods, "xls": sheets.render_xls}[fmt]
        return {"xlsx-openpyxl": "xlsx"}.get(fmt, fmt), fn(payload["grid"])
    if kind == "images":
        data, _ = c14.build(payload["case"])
        fmt = payload["case"]["format"]
        return PROFILES[fmt]["ext"] if fmt in PROFILES else fmt, data
    if kind == "bundle":            # several image-bearing documents in one ZIP: an input with more than one result, each with binary fields
        import zipfile
        buf = io.BytesIO()
        with zipfile.ZipFile(buf, "w", zipfile.ZIP_DEFLATED) as z:
            for i, c in enumerate(payload["cases"]):
                data, _ = c14.build(c)
                fmt = c["format"]
                z.writestr(f"dir/member{i + 1}." + (PROFILES[fmt]["ext"] if fmt in PROFILES else fmt), data)
        return "zip", buf.getvalue()
    if kind == "text":              # plain-text inputs given as bytes (line-ending and BOM variants)
        return payload["ext"], bytes.fromhex(payload["hex"])
    if kind == "tarnames":          # archive members whose names are not UTF-8 (they reach the metadata as surrogate-escaped strings)
        import tarfile
        buf = io.BytesIO()
        with tarfile.open(fileobj=buf, mode="w:gz", format=tarfile.GNU_FORMAT, encoding="latin-1") as tf:
            for nm, text in payload["members"]:
                data = text.encode()
                ti = tarfile.TarInfo(nm)
                ti.size = len(data)
                tf.addfile(ti, io.BytesIO(data))
        return "tar.gz", buf.getvalue()
    raise ValueError(kind)


def _extract(ext, data):
    from sharepoint2text.parsing.router import get_extractor
    return list(get_extractor("x." + ext)(io.BytesIO(data), "x." + ext))


def _cli_json(path, *flags):
    from sharepoint2text import cli
    raw, err = io.BytesIO(), io.StringIO()
    out = io.TextIOWrapper(raw, encoding="utf-8", errors="strict", newline="\n")      # what a UTF-8 terminal or pipe gives the CLI
    with contextlib.redirect_stdout(out), contextlib.redirect_stderr(err):
        rc = cli.main([path, *flags])
        try:
            out.flush()
        except Exception as e:  # noqa
            err.write(f"[flush: {type(e).__name__}: {e}]")
    return rc, raw.getvalue().decode("utf-8", "replace"), err.getvalue()


def judge_case(case, with_cli=False):
    from sharepoint2text.parsing.extractors.serialization import serialize_extraction
    kind = case["kind"]
    try:
        ext, data = _results_for(kind, case)
        results = _extract(ext, data)
    except Exception as e:  # noqa
        return [], None, f"skip:{type(e).__name__}"  # extraction failures are C01's business
    fails, jsons = [], []
    for r in results:
        f, j = judge_object(r, is_result=True)
        fails += f
        jsons.append(j)
        for u in r.iterate_units():
            f2, _ = judge_object(u, is_result=False)
            fails += [("unit-" + c, d) for c, d in f2]
    if with_cli and not fails:
        with tempfile.TemporaryDirectory(prefix="vf-c05-") as td:
            p = os.path.join(td, "x." + ext)
            with open(p, "wb") as fh:
                fh.write(data)
            for flags in (("--json",), ("--json", "--binary"), ("--json-unit",), ("--json-unit", "--binary")):
                rc, out, err = _cli_json(p, *flags)
                inc = "--binary" in flags
                import sharepoint2text
                results2 = list(sharepoint2text.read_file(p))      # the entry point the CLI itself uses
                if "--json" in flags:
                    want = [serialize_extraction(r, include_binary=inc) for r in results2]
                else:
                    want = [[serialize_extraction(u, include_binary=inc) for u in r.iterate_units()] for r in results2]
                want = want[0] if len(want) == 1 else want
                try:
                    got = json.loads(out)
                except Exception as e:  # noqa
                    fails.append(("cli", f"{' '.join(flags)}: exit {rc}, stdout is not JSON ({type(e).__name__}); stderr={err[:200]!r}"))
                    continue
                if rc != 0 or got != json.loads(json.dumps(want)):
                    fails.append(("cli", f"{' '.join(flags)}: exit {rc}; CLI JSON differs from serialize_extraction: {_first_diff(json.loads(json.dumps(want)), got)}"))
                elif json.dumps(got) != json.dumps(json.loads(json.dumps(want))):
                    # same members, other member order: header-keyed table rows (xls) take their column order from it
                    fails.append(("cli", f"{' '.join(flags)}: the CLI writes the members of JSON objects in another order than to_json() (column order of header-keyed rows is lost)"))
    return fails, jsons, None


# ---- (B) type-directed instances -------------------------------------------------------------------------------------------
_TEXT = st.one_of(st.sampled_from(MARKERS), st.text(alphabet="abcXYZ 09_-äé€\n\t\"\\/", max_size=8), st.just(""))
_KEYS_PLAIN = st.text(alphabet="abcxyz_09", min_size=1, max_size=6).filter(lambda k: k not in MARKERS)
_SCALAR = st.one_of(st.none(), st.booleans(), st.integers(-10**12, 10**12), st.floats(allow_nan=False, allow_infinity=False, width=64), _TEXT)


def _any_json(keys, depth=2):
    if depth <= 0:
        return _SCALAR
    return st.one_of(_SCALAR, st.lists(_any_json(keys, depth - 1), max_size=3), st.dictionaries(keys, _any_json(keys, depth - 1), max_size=3))


def strategy_for(tp, reg, keys, depth=3):
    import io as _io
    origin = typing.get_origin(tp)
    args = typing.get_args(tp)
    if tp is typing.Any or tp is object:
        return _any_json(keys)
    if origin is typing.Union or str(origin) == "<class 'types.UnionType'>" or origin is getattr(__import__("types"), "UnionType", None):
        return st.one_of(*[strategy_for(a, reg, keys, depth) for a in args])
    if tp is type(None):
        return st.none()
    if tp is str:
        return _TEXT
    if tp is bool:
        return st.booleans()
    if tp is int:
        return st.integers(-10**9, 10**9)
    if tp is float:
        return st.floats(allow_nan=False, allow_infinity=False, width=64)
    if tp is bytes:
        return st.binary(max_size=12)
    if tp is bytearray:
        return st.binary(max_size=12)  # restored as bytes either way; to_json identical
    if tp is _io.BytesIO:
        return st.binary(max_size=12).map(_io.BytesIO)
    if origin in (list, typing.List) or tp is list:
        item = args[0] if args else typing.Any
        return st.lists(strategy_for(item, reg, keys, depth - 1), max_size=2 if depth < 3 else 3)
    if origin in (dict, typing.Dict) or tp is dict:
        val = args[1] if len(args) > 1 else typing.Any
        return st.dictionaries(keys, strategy_for(val, reg, keys, depth - 1), max_size=3)
    if origin in (tuple, typing.Tuple):
        return st.lists(strategy_for(args[0] if args else typing.Any, reg, keys, depth - 1), max_size=2)
    if isinstance(tp, type) and dataclasses.is_dataclass(tp) and tp.__name__ in reg:
        if depth <= 0:
            return st.builds(lambda: _minimal(tp, reg))
        return instance_strategy(tp, reg, keys, depth - 1)
    if isinstance(tp, type):
        # Protocol / interface typed field: any registered dataclass that subclasses it
        impl = [c for c in reg.values() if isinstance(c, type) and c is not tp and tp in c.__mro__]
        if impl and depth > 0:
            return st.sampled_from(sorted(impl, key=lambda c: c.__name__)).flatmap(lambda c: instance_strategy(c, reg, keys, depth - 1))
    return st.none()


def _minimal(cls, reg):
    kwargs = {}
    for f in dataclasses.fields(cls):
        if f.default is dataclasses.MISSING and f.default_factory is dataclasses.MISSING and f.init:
            hints = typing.get_type_hints(cls)
            t = hints.get(f.name, typing.Any)
            kwargs[f.name] = _zero(t, reg)
    return cls(**kwargs)


def _zero(t, reg):
    origin = typing.get_origin(t)
    if t is str:
        return ""
    if t is int:
        return 1
    if t is float:
        return 0.0
    if t is bool:
        return False
    if origin in (list, typing.List):
        return []
    if origin in (dict, typing.Dict):
        return {}
    if isinstance(t, type) and dataclasses.is_dataclass(t):
        return _minimal(t, reg)
    return None


def instance_strategy(cls, reg, keys, depth=2):
    hints = typing.get_type_hints(cls)
    fields = [f for f in dataclasses.fields(cls) if f.init]
    strat = {f.name: strategy_for(hints.get(f.name, typing.Any), reg, keys, depth) for f in fields}
    return st.fixed_dictionaries(strat).map(lambda kw: cls(**kw))


def judge_instance(x):
    return judge_object(x, is_result=False)


# ---- evaluation --------------------------------------------------------------------------------------------------------------
def _known_for(ctx, feats):
    return [k for k in ctx.known if k.get("status") == "open" and k.get("feature") in feats]


def _classify(j):
    val, key = _marker_use(j)
    return {"binary": _has_binary(j), "deep": _depth(j) >= 2, "marker-value": val, "marker-key": key}


def _marker_key_harmful(x, registered) -> bool:
    """Is there a plain dict whose marker key can be misread: '_bytes' / '_bytesio', or '_type' naming a registered class?  ('_type': 'invoice' is ordinary content
    and must survive: the listed finding is about keys the decoder has a reading for.)"""
    if dataclasses.is_dataclass(x) and not isinstance(x, type):
        if isinstance(x, dict) and _marker_key_harmful(dict(dict.items(x)), registered):
            return True
        return any(_marker_key_harmful(getattr(x, f.name), registered) for f in dataclasses.fields(x))
    if isinstance(x, dict):
        if "_bytes" in x or "_bytesio" in x or (isinstance(x.get("_type"), str) and x.get("_type") in registered):
            return True
        return any(_marker_key_harmful(v, registered) for v in x.values())
    if isinstance(x, (list, tuple, set)):
        return any(_marker_key_harmful(v, registered) for v in x)
    return False


def _obj_marker_key(x) -> bool:
    """does the object graph hold a plain dict with a key from the marker vocabulary?"""
    if dataclasses.is_dataclass(x) and not isinstance(x, type):
        if isinstance(x, dict) and any(k in ("_type", "_bytes", "_bytesio") for k in dict.keys(x)):
            return True
        return any(_obj_marker_key(getattr(x, f.name)) for f in dataclasses.fields(x))
    if isinstance(x, dict):
        return any(k in ("_type", "_bytes", "_bytesio") for k in x) or any(_obj_marker_key(v) for v in x.values())
    if isinstance(x, (list, tuple, set)):
        return any(_obj_marker_key(v) for v in x)
    return False


def evaluate_instance(ctx, x, part, label):
    fails, j = judge_instance(x)
    cls = _classify(j) if j is not None else {}
    cls["marker-key"] = _obj_marker_key(x)
    feats = {k for k, v in cls.items() if v}
    if cls["marker-key"] and not _marker_key_harmful(x, set(_registry())):
        feats = (feats - {"marker-key"}) | {"marker-key-unreadable"}        # not covered by the listed finding
    if part is not None:
        part.case(digest([label, j]) if j is not None else None, bool(feats), sample={"class": type(x).__name__, "classes": sorted(feats)} if part.evaluations % 301 == 0 else None,
                  **{k: v for k, v in cls.items()})
        part.hist["class=" + type(x).__name__] += 1
    if not fails:
        return []
    known = _known_for(ctx, feats)
    clauses = {c for c, _ in fails}
    if known and clauses <= set().union(*[set(k.get("clauses", [])) for k in known]):
        for k in known:
            part.known_hits[k["id"]] += 1
        return []
    c, d = fails[0]
    return [Violation(c, f"C05:instance:{c}", f"[{type(x).__name__}] {d}", {"kind": "instance", "class": type(x).__name__, "json": j})]


def instances_shard(ctx: Ctx):
    part = Partial()
    reg = _registry()
    names = sorted(reg)
    mine = [n for i, n in enumerate(names) if i % ctx.nshards == ctx.shard]
    n = ctx.n(120, 2500)
    for name in mine:
        cls = reg[name]
        try:
            plain = instance_strategy(cls, reg, _KEYS_PLAIN)
            marked = instance_strategy(cls, reg, st.one_of(_KEYS_PLAIN, st.sampled_from(MARKERS)))
        except Exception as e:  # noqa
            part.notes.append(f"no strategy for {name}: {type(e).__name__}: {e}")
            continue
        hyp_search(ctx, f"inst-{name}", plain, lambda x: evaluate_instance(ctx, x, part, name), n, part, model_shrink=False)
        hyp_search(ctx, f"inst-mk-{name}", marked, lambda x: evaluate_instance(ctx, x, part, name), n // 3 + 1, part, model_shrink=False)
    return part


def results_shard(ctx: Ctx):
    from vf.gen import model, sheets
    from vf.gen.profiles import PROFILES
    from vf.props import c14
    part = Partial()
    fmts = sorted(PROFILES)
    my_fmts = [f for i, f in enumerate(fmts) if i % ctx.nshards == ctx.shard]
    n = ctx.n(25, 400)

    def ev(case, with_cli=False):
        fails, jsons, skip = judge_case(case, with_cli=with_cli)
        cls = {}
        for j in jsons or []:
            if j is not None:
                for k, v in _classify(j).items():
                    cls[k] = cls.get(k) or v
        feats = {k for k, v in cls.items() if v} | set(case.get("features", []))
        part.case(digest(case), bool(feats), sample={"kind": case["kind"], "format": case.get("format") or case.get("case", {}).get("format"), "classes": sorted(feats)} if part.evaluations % 37 == 0 else None,
                  kind=case["kind"], skipped=bool(skip), **cls)
        if not fails:
            return []
        known = _known_for(ctx, feats)
        clauses = {c.replace("unit-", "") for c, _ in fails}
        if known and clauses <= set().union(*[set(k.get("clauses", [])) for k in known]):
            for k in known:
                part.known_hits[k["id"]] += 1
            return []
        c, d = fails[0]
        return [Violation(c, f"C05:result:{c}", f"[{case['kind']} {case.get('format') or case.get('case', {}).get('format')}] {d}", {"kind": "case", "model": case})]

    for fmt in my_fmts:
        cases = model.documents(PROFILES[fmt], max_blocks=3).map(lambda d, fmt=fmt: {"kind": "doc", "format": fmt, "doc": d})
        hyp_search(ctx, f"res-{fmt}", cases, ev, n, part, model_shrink=False)
        hyp_search(ctx, f"cli-{fmt}", cases, lambda c: ev(c, True), max(3, n // 8), part, model_shrink=False)
    sheet_fmts = ["xlsx", "xlsx-openpyxl", "ods", "xls"]
    for i, fmt in enumerate(sheet_fmts):
        if i % ctx.nshards != ctx.shard % len(sheet_fmts) or ctx.shard >= len(sheet_fmts):
            continue

        def mk(g, fmt=fmt):
            feats = sorted(f for f in sheets.grid_features(g) if f in ("grid.typed.dur", "grid.typed.e"))
            return {"kind": "grid", "format": fmt, "grid": g, "features": feats}
        hyp_search(ctx, f"res-{fmt}", sheets.grids(fmt, headers="any").map(mk), ev, n * 2, part, model_shrink=False)
        hyp_search(ctx, f"cli-{fmt}", sheets.grids(fmt, headers="plain").map(mk), lambda c: ev(c, True), max(3, n // 8), part, model_shrink=False)
        # cells equal to the encoding's marker words
        def marker_grid(t, fmt=fmt):
            hdr, vals = t
            rows = [[{"t": "s", "v": h} for h in hdr], [{"t": "s", "v": v} for v in vals]]
            # the listed finding covers header cells the decoder has a reading for: _bytes, _bytesio, or _type over a cell that names a registered class
            harmful = any(h in ("_bytes", "_bytesio") or (h == "_type" and v in _registry()) for h, v in zip(hdr, vals))
            return {"kind": "grid", "format": fmt, "grid": {"props": {}, "sheets": [{"name": "Sheet1", "origin": [0, 0], "rows": rows, "hdr_rows": 0}]}, "features": ["marker-cells" if harmful else "marker-cells-unreadable"]}
        mk_cells = st.lists(st.sampled_from(MARKERS), min_size=2, max_size=2, unique=True)
        hyp_search(ctx, f"res-mk-{fmt}", st.tuples(mk_cells, mk_cells).map(marker_grid), ev, 30, part, model_shrink=False)
    img_fmts = sorted(c14.FORMATS_IMG)
    for i, fmt in enumerate(img_fmts):
        if i % ctx.nshards == ctx.shard:
            hyp_search(ctx, f"res-img-{fmt}", c14.cases(fmt).map(lambda c: {"kind": "images", "case": c}), ev, n, part, model_shrink=False)
            hyp_search(ctx, f"cli-img-{fmt}", c14.cases(fmt).map(lambda c: {"kind": "images", "case": c}), lambda c: ev(c, True), max(3, n // 8), part, model_shrink=False)
    if ctx.shard == 0:
        two = st.tuples(st.sampled_from(["docx", "pptx", "odt", "epub"]), st.sampled_from(["docx", "xlsx", "odp", "rtf"])).flatmap(lambda t: st.tuples(c14.cases(t[0]), c14.cases(t[1])))
        hyp_search(ctx, "cli-bundle", two.map(lambda t: {"kind": "bundle", "cases": list(t), "features": ["multi-result"]}), lambda c: ev(c, True), max(6, n // 3), part, model_shrink=False)
    if ctx.shard == 1 % ctx.nshards:
        eol = st.lists(st.tuples(st.sampled_from(["alpha line", "beta;line", "", "  indented", "Zeile mit ä", "tab\tsep"]), st.sampled_from(["\n", "\r\n", "\r", "\r\r\n", "\n\r", ""])), min_size=1, max_size=5)
        txt = st.tuples(st.sampled_from(["txt", "md", "csv", "tsv", "json"]), st.sampled_from(["", "\ufeff"]), eol, st.sampled_from(["utf-8", "utf-8", "utf-16", "latin-1"])).map(
            lambda t: {"kind": "text", "ext": t[0], "hex": (t[1] + "".join(a + b for a, b in t[2])).encode(t[3], "replace").hex(), "features": ["line-endings"]})
        names = st.lists(st.tuples(st.sampled_from(["caf\xe9.txt", "plain.txt", "na\xefve/r\xe9sum\xe9.md", "\xff\xfe.csv", "ok/data.json"]), st.sampled_from(["text ZB08901", "a,b\n1,2\n", "# t\n"])).map(list),
                         min_size=1, max_size=3, unique_by=lambda t: t[0])
        tn = names.map(lambda m: {"kind": "tarnames", "members": m, "features": ["non-utf8-names"]})
        hyp_search(ctx, "res-tarnames", tn, ev, n, part, model_shrink=False)
        hyp_search(ctx, "cli-tarnames", tn, lambda c: ev(c, True), max(6, n // 2), part, model_shrink=False)
        hyp_search(ctx, "res-text", txt, ev, n * 8, part, model_shrink=False)
        hyp_search(ctx, "cli-text", txt, lambda c: ev(c, True), n, part, model_shrink=False)
    return part


def fixtures(ctx: Ctx, part: Partial):
    from sharepoint2text import read_file
    from sharepoint2text.parsing.exceptions import ExtractionError
    root = os.path.join(REPO, "sharepoint2text/tests/resources")
    for path in sorted(glob.glob(root + "/**/*", recursive=True)):
        if not os.path.isfile(path) or "password_protected" in path or os.path.getsize(path) == 0:
            continue
        rel = os.path.relpath(path, root)
        try:
            results = list(read_file(path))
        except ExtractionError:
            continue
        for r in results:
            fails, j = judge_object(r, is_result=True)
            for u in r.iterate_units():
                f2, _ = judge_object(u, is_result=False)
                fails += [("unit-" + c, d) for c, d in f2]
            part.case(digest(["fixture", rel]), True, fixture=True)
            for c, d in fails[:1]:
                sig = f"C05:fixture:{rel}:{c}"
                known = [k for k in ctx.known if k.get("status") == "open" and k.get("signature") == sig]
                if known:
                    part.known_hits[known[0]["id"]] += 1
                else:
                    part.violations.append(Violation(c, sig, f"[fixture {rel}] {d}", {"kind": "fixture", "path": rel}))


def run(ctx: Ctx) -> Partial:
    part = Partial()
    fixtures(ctx, part)
    part.merge(shard_map(ctx, "vf.props.c05", "results_shard", 16))
    part.merge(shard_map(ctx, "vf.props.c05", "instances_shard", 16))
    return part


def replay(ctx: Ctx, payload: dict):
    if payload.get("kind") == "fixture":
        p = Partial()
        fixtures(ctx, p)
        return [v for v in p.violations if v.replay.get("path") == payload["path"]]
    if payload.get("kind") == "case":
        fails, _, _ = judge_case(payload["model"], with_cli=True)
        return [Violation(c, f"C05:result:{c}", d, payload) for c, d in fails[:1]]
    if payload.get("kind") == "instance":
        from sharepoint2text.parsing.extractors.data_types import ExtractionInterface
        try:
            y = ExtractionInterface.from_json(payload["json"])
            j2 = y.to_json() if hasattr(y, "to_json") else None
        except Exception as e:  # noqa
            return [Violation("from_json-raises", "C05:instance:from_json-raises", f"{type(e).__name__}: {e}", payload)]
        if j2 is not None and j2 != payload["json"]:
            return [Violation("roundtrip", "C05:instance:roundtrip", _first_diff(payload["json"], j2), payload)]
    return []
