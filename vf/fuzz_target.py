"""atheris target for C01: python -m vf.fuzz_target <ext> <corpus_dir> <artifact_dir> [libFuzzer flags...]
The oracle is inside the target: consuming the extractor's results must end in results or an ExtractionError; anything else is re-raised
(libFuzzer then stores the input under <artifact_dir>/crash-*)."""
import io
import logging
import sys

import atheris

ext, corpus, artifacts = sys.argv[1:4]
flags = sys.argv[4:]
logging.getLogger().addHandler(logging.NullHandler())
logging.lastResort = None
import warnings  # noqa: E402

warnings.simplefilter("ignore")
with atheris.instrument_imports(include=["sharepoint2text"]):
    import sharepoint2text  # noqa: F401
    from sharepoint2text.parsing.exceptions import ExtractionError
    from sharepoint2text.parsing.router import get_extractor
    extractor = get_extractor("case." + ext)

PATH = "case." + ext


def TestOneInput(data: bytes):
    try:
        for _ in extractor(io.BytesIO(data), PATH):
            pass
    except ExtractionError:
        pass


atheris.Setup([sys.argv[0], corpus, f"-artifact_prefix={artifacts}/"] + flags, TestOneInput)
atheris.Fuzz()
