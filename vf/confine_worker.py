"""C09 worker: runs read_archive on hostile archives inside a process with a private TMPDIR and an audit hook that classifies
every file-system event.  Protocol: one JSON object per line on stdin -> one JSON object per line on stdout.

request : {"archive_b64": str, "path": str|None, "consumer": {"kind": "exhaust"|"take-close"|"abandon"|"throw", "k": int}}
response: {"events": [...violating events...], "tmp_left": [...], "results": [to_json...], "outcome": str, "n_events": int}
"""
import base64
import gc
import io
import json
import os
import sys
import tempfile
import warnings

warnings.filterwarnings("ignore")
SCRATCH = sys.argv[1]
TMP = os.path.join(SCRATCH, "tmp")
os.makedirs(TMP, exist_ok=True)
os.environ["TMPDIR"] = TMP
tempfile.tempdir = TMP

import logging  # noqa: E402

logging.getLogger("sharepoint2text").addHandler(logging.NullHandler())
logging.getLogger("pypdf").addHandler(logging.NullHandler())

READ_OK = tuple(os.path.realpath(p) + os.sep for p in {sys.prefix, sys.base_prefix, sys.exec_prefix, os.environ.get("VF_REPO", "/repo"), os.path.dirname(os.path.dirname(os.path.abspath(__file__))),
                                                        "/usr/lib", "/usr/share/zoneinfo", "/usr/share/mime", "/root/.pyenv", "/venv"}) + ("/etc/mime.types", "/etc/localtime", "/dev/urandom", "/dev/null", "/proc/self/")
STATE = {"on": False, "events": [], "count": 0}
REAL_TMP = os.path.realpath(TMP) + os.sep


def _where(p, dir_fd=None):
    try:
        if isinstance(p, int):
            return "fd"
        if isinstance(p, bytes):
            p = p.decode("utf-8", "surrogateescape")
        p = os.fspath(p)
        base = os.getcwd()
        if isinstance(dir_fd, int) and dir_fd >= 0 and not os.path.isabs(p):
            base = os.readlink(f"/proc/self/fd/{dir_fd}")  # *at() style call: relative to an open directory
        ap = os.path.realpath(os.path.join(base, p))
    except Exception:  # noqa
        return "unknown"
    if (ap + os.sep).startswith(REAL_TMP) or ap + os.sep == REAL_TMP:
        return "tmp"
    if any(ap.startswith(r) or ap + os.sep == r for r in READ_OK):
        return "lib"
    return "host"


WRITE_EVENTS = {"os.mkdir", "os.rmdir", "os.remove", "os.rename", "os.symlink", "os.link", "os.chmod", "os.chown", "os.truncate", "os.utime", "os.mknod", "os.mkfifo", "shutil.rmtree", "shutil.move",
                "shutil.copyfile", "shutil.copymode", "shutil.copystat", "shutil.copytree", "os.replace"}
LIST_EVENTS = {"os.scandir", "os.listdir", "glob.glob"}


def hook(event, args):
    if not STATE["on"]:
        return
    try:
        if event == "open":
            path, mode, flags = args[0], args[1], args[2]
            w = _where(path)
            STATE["count"] += 1
            writing = bool(flags & (os.O_WRONLY | os.O_RDWR | os.O_CREAT | os.O_TRUNC | os.O_APPEND)) if isinstance(flags, int) else any(c in (mode or "") for c in "wax+")
            if w == "fd":
                return
            if writing and w != "tmp":
                STATE["events"].append({"event": "open-write", "path": repr(path), "where": w})
            elif not writing and w == "host":
                STATE["events"].append({"event": "open-read", "path": repr(path), "where": w})
        elif event in WRITE_EVENTS:
            STATE["count"] += 1
            paths = [a for a in args if isinstance(a, (str, bytes)) or hasattr(a, "__fspath__")]
            fds = [a for a in args if isinstance(a, int) and not isinstance(a, bool)]
            if event == "os.mkdir":
                fds = fds[1:]  # (path, mode, dir_fd)
            for i, a in enumerate(paths[:2]):
                dfd = fds[i] if i < len(fds) else (fds[0] if fds else None)
                w = _where(a, dfd)
                if w != "tmp":
                    STATE["events"].append({"event": event, "path": repr(a), "where": w})
        elif event in LIST_EVENTS:
            STATE["count"] += 1
            if args and (isinstance(args[0], (str, bytes)) or hasattr(args[0], "__fspath__")) and _where(args[0]) == "host":
                STATE["events"].append({"event": event, "path": repr(args[0]), "where": "host"})
    except Exception as e:  # noqa
        STATE["events"].append({"event": "hook-error", "path": repr(e), "where": "?"})


def tmp_listing():
    out = []
    for root, dirs, files in os.walk(TMP):
        for n in dirs + files:
            out.append(os.path.relpath(os.path.join(root, n), TMP))
    return sorted(out)


def run_case(req):
    from sharepoint2text.parsing.extractors.archive_extractor import read_archive
    data = base64.b64decode(req["archive_b64"])
    cons = req.get("consumer", {"kind": "exhaust"})
    results, outcome = [], "ok"
    STATE["events"], STATE["count"] = [], 0
    STATE["on"] = True
    try:
        gen = read_archive(io.BytesIO(data), req.get("path"))
        try:
            if cons["kind"] == "exhaust":
                for r in gen:
                    results.append(r)
            elif cons["kind"] == "take-close":
                for _ in range(cons.get("k", 1)):
                    try:
                        results.append(next(gen))
                    except StopIteration:
                        break
                gen.close()
            elif cons["kind"] == "abandon":
                for _ in range(cons.get("k", 1)):
                    try:
                        results.append(next(gen))
                    except StopIteration:
                        break
                del gen
                gc.collect()
            elif cons["kind"] == "throw":
                for _ in range(cons.get("k", 1)):
                    try:
                        results.append(next(gen))
                    except StopIteration:
                        break
                try:
                    gen.throw(RuntimeError("consumer failed"))
                except (RuntimeError, StopIteration):
                    pass
                else:
                    # the per-member handler swallowed the exception and the generator went on to the next member: it is
                    # still suspended, so its temp directory is legitimately alive until the consumer lets go of it
                    gen.close()
        except Exception as e:  # noqa
            outcome = "raised:" + type(e).__name__
    finally:
        gc.collect()
        STATE["on"] = False
    left = tmp_listing()
    out = []
    for r in results:
        try:
            out.append(r.to_json())
        except Exception as e:  # noqa
            out.append({"to_json_error": repr(e)})
    # clean up whatever was left so the next case starts from an empty temp root
    import shutil
    for n in os.listdir(TMP):
        p = os.path.join(TMP, n)
        shutil.rmtree(p, ignore_errors=True) if os.path.isdir(p) and not os.path.islink(p) else os.unlink(p)
    return {"events": STATE["events"][:20], "n_events": STATE["count"], "tmp_left": left[:20], "results": json.loads(json.dumps(out, default=repr)), "outcome": outcome}


def warmup():
    """import every extractor module, initialise mimetypes / codecs / lazy registries before monitoring starts."""
    import mimetypes
    mimetypes.init()
    from sharepoint2text.parsing import router
    for ft in list(router._EXTRACTOR_REGISTRY):
        try:
            router._get_extractor(ft)
        except Exception:  # noqa
            pass
    from sharepoint2text.parsing.extractors.serialization import _get_type_registry
    _get_type_registry()
    for req in (sys.stdin.readline(),):
        if req.strip():
            r = json.loads(req)
            run_case(r)  # the first request is a benign warm-up archive (not monitored for verdicts)
    "x".encode("utf-16"), b"x".decode("cp1252"), "x".encode("idna")


def main():
    sys.addaudithook(hook)
    warmup()
    sys.stdout.write(json.dumps({"ready": True}) + "\n")
    sys.stdout.flush()
    for line in sys.stdin:
        line = line.strip()
        if not line:
            continue
        try:
            resp = run_case(json.loads(line))
        except Exception as e:  # noqa
            import traceback
            resp = {"worker_error": traceback.format_exc()}
        sys.stdout.write(json.dumps(resp) + "\n")
        sys.stdout.flush()


if __name__ == "__main__":
    main()
