"""Run one extraction in a forked child with resource limits and report CPU seconds, peak-RSS growth and outcome."""
from __future__ import annotations

import io
import os
import pickle
import resource
import signal
import time

AS_LIMIT = 3 * 1024**3


def _child(fn, args, cpu_limit_s, w):
    code = 0
    try:
        resource.setrlimit(resource.RLIMIT_AS, (AS_LIMIT, AS_LIMIT))
        resource.setrlimit(resource.RLIMIT_CPU, (int(cpu_limit_s), int(cpu_limit_s) + 2))
        r0 = resource.getrusage(resource.RUSAGE_SELF).ru_maxrss
        t0 = time.process_time()
        try:
            out = ("ok", fn(*args))
        except MemoryError:
            out = ("raised", "MemoryError", "")
        except BaseException as e:  # noqa
            out = ("raised", type(e).__name__, str(e)[:200])
        t1 = time.process_time()
        r1 = resource.getrusage(resource.RUSAGE_SELF).ru_maxrss
        with os.fdopen(w, "wb") as f:
            pickle.dump({"out": out, "cpu": t1 - t0, "rss_kib": max(0, r1 - r0)}, f)
    except BaseException:  # noqa
        code = 3
    finally:
        os._exit(code)


def measured(fn, *args, cpu_limit_s: float = 60):
    """-> dict(out, cpu, rss_kib) or dict(killed=signal name)."""
    r, w = os.pipe()
    pid = os.fork()
    if pid == 0:
        os.close(r)
        _child(fn, args, cpu_limit_s, w)
    os.close(w)
    with os.fdopen(r, "rb") as f:
        data = f.read()
    _, status = os.waitpid(pid, 0)
    if os.WIFSIGNALED(status):
        return {"killed": signal.Signals(os.WTERMSIG(status)).name, "cpu": float(cpu_limit_s), "rss_kib": 0, "out": ("killed",)}
    if not data:
        return {"killed": "no-result", "cpu": 0.0, "rss_kib": 0, "out": ("killed",)}
    return pickle.loads(data)


def extract_all(raw: bytes, ext: str):
    """The work whose cost is bounded: run the registered extractor and touch text, tables and units."""
    from sharepoint2text.parsing.exceptions import ExtractionError
    from sharepoint2text.parsing.router import get_extractor
    path = "case." + ext
    n = 0
    chars = 0
    try:
        for r in get_extractor(path)(io.BytesIO(raw), path):
            n += 1
            chars += len(r.get_full_text())
            for _ in r.iterate_units():
                pass
        return ("results", n, chars)
    except ExtractionError as e:
        return ("extraction-error", type(e).__name__, str(e)[:160])
