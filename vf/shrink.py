"""Model-level delta debugging on JSON-able models (DESIGN §2.6a): used after / instead of the Hypothesis shrinker,
whose five-minute cap is not relied upon."""
from __future__ import annotations

import copy
import re
import time

_TOKEN = re.compile(r"Z[BXM][0-9A-Z]{5}")  # class-tagged tokens are atoms: never shortened


def _paths(obj, path=()):
    yield path, obj
    if isinstance(obj, dict):
        for k in obj:
            yield from _paths(obj[k], path + (k,))
    elif isinstance(obj, list):
        for i, v in enumerate(obj):
            yield from _paths(v, path + (i,))


def _get(obj, path):
    for p in path:
        obj = obj[p]
    return obj


def _set(obj, path, value):
    obj = copy.deepcopy(obj)
    if not path:
        return value
    cur = obj
    for p in path[:-1]:
        cur = cur[p]
    cur[path[-1]] = value
    return obj


def _delete(obj, path):
    obj = copy.deepcopy(obj)
    cur = obj
    for p in path[:-1]:
        cur = cur[p]
    del cur[path[-1]]
    return obj


def _inner_dicts(d):
    """dict nodes reachable from d through lists/dicts (excluding d), shallowest first."""
    out, todo = [], [d]
    while todo:
        cur = todo.pop(0)
        vals = cur.values() if isinstance(cur, dict) else cur
        for v in vals:
            if isinstance(v, dict):
                out.append(v)
                todo.append(v)
            elif isinstance(v, list):
                todo.append(v)
    return out


def candidates(model, string_min=5):
    plist = list(_paths(model))
    # 1. delete list elements (big ones first = earlier paths)
    for path, v in plist:
        if path and isinstance(path[-1], int):
            yield _delete(model, path)
    # 2. hoist: replace a dict that sits in a list by one of its descendants of the same 'k'-typed family
    for path, v in plist:
        if path and isinstance(path[-1], int) and isinstance(v, dict):
            for inner in _inner_dicts(v)[:8]:
                if ("k" in inner) == ("k" in v):
                    yield _set(model, path, inner)
    # 3. optional values -> None ; True -> False ; long strings shorter
    for path, v in plist:
        if not path:
            continue
        if isinstance(v, (list, dict)) and isinstance(path[-1], str) and v:
            yield _set(model, path, None)
            yield _set(model, path, type(v)())
        elif v is True:
            yield _set(model, path, False)
        elif isinstance(v, str) and len(v) >= string_min and not _TOKEN.fullmatch(v):
            yield _set(model, path, v[: len(v) // 2])
            yield _set(model, path, v[1:])
            yield _set(model, path, v[:-1])
        elif isinstance(v, int) and not isinstance(v, bool) and v > 1:
            yield _set(model, path, v // 2)
            yield _set(model, path, v - 1)


def shrink_model(model, fails, budget_s=15.0, string_min=5):
    """Greedy fixpoint: accept any candidate for which fails(candidate) is truthy. `fails` must tolerate ill-formed models."""
    t_end = time.time() + budget_s
    def ok(m):
        try:
            return bool(fails(m))
        except Exception:  # noqa
            return False
    import json
    size = lambda m: len(json.dumps(m, default=repr))  # noqa
    improved = True
    while improved and time.time() < t_end:
        improved = False
        for cand in candidates(model, string_min):
            if time.time() > t_end:
                break
            if size(cand) < size(model) and ok(cand):
                model = cand
                improved = True
                break
    return model
