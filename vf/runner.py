"""Runner: ./check <Cxx> [--tier quick|thorough] [--replay FILE]

Exit protocol (DESIGN §2.3):
  0  property held on everything explored (KNOWN-FINDING lines allowed)
  1  VIOLATION property=<id> replay=<path>     (a violation not listed in known_findings.jsonl)
  2  harness error (never dressed up as a violation)
"""
from __future__ import annotations

import argparse
import hashlib
import importlib
import json
import os
import sys
import time
import traceback
from collections import Counter
from dataclasses import dataclass, field
from typing import Any, Callable, Iterable

HERE = os.path.dirname(os.path.dirname(os.path.abspath(__file__)))
REPO = os.environ.get("VF_REPO", "/repo")
NCPU = int(os.environ.get("VF_JOBS", "0")) or min(16, os.cpu_count() or 1)


import logging  # noqa: E402

logging.getLogger("sharepoint2text").addHandler(logging.NullHandler())
logging.getLogger("pypdf").addHandler(logging.NullHandler())
import warnings  # noqa: E402

warnings.filterwarnings("ignore", module="openpyxl")
warnings.filterwarnings("ignore", message="Duplicate name")  # keep the library's warnings off stderr (lastResort handler)


class HarnessError(Exception):
    pass


# --------------------------------------------------------------------------------------------
# data carried between shards and the runner
# --------------------------------------------------------------------------------------------
@dataclass
class Violation:
    clause: str  # which sentence of the property fails
    signature: str  # root-cause key used to match known_findings.jsonl
    detail: str  # human readable: expected / observed
    replay: dict  # self-contained reproduction (kind, model|bytes_b64, ...)

    def to_json(self):
        return {"clause": self.clause, "signature": self.signature, "detail": self.detail}


@dataclass
class Partial:
    """What one shard / sub-check measured."""

    evaluations: int = 0
    nontrivial: set = field(default_factory=set)
    samples: list = field(default_factory=list)
    hist: Counter = field(default_factory=Counter)
    violations: list = field(default_factory=list)  # list[Violation] not attributable to known findings
    known_hits: Counter = field(default_factory=Counter)  # finding id -> number of generated cases attributed
    notes: list = field(default_factory=list)
    exhaustive: dict = field(default_factory=dict)  # sub-domain name -> size enumerated completely
    inconclusive: int = 0
    _fallback: list = field(default_factory=list)

    def case(self, digest: str | None, nontrivial: bool, sample: Any = None, max_samples: int = 4, **labels):
        self.evaluations += 1
        if nontrivial and digest is not None:
            self.nontrivial.add(digest)
        for k, v in labels.items():
            if v is True:
                self.hist[k] += 1
            elif v not in (False, None):
                self.hist[f"{k}={v}"] += 1
        if sample is not None and nontrivial and len(self.samples) < max_samples:
            self.samples.append(sample)
        elif nontrivial and not self.samples and not self._fallback:
            # make sure at least one non-trivial case is always shown, whatever sampling stride the property module uses
            self._fallback.append({"case_digest": digest, "labels": {k: v for k, v in labels.items() if v not in (False, None)}})

    def merge(self, other: "Partial"):
        self.evaluations += other.evaluations
        self.nontrivial |= other.nontrivial
        for s in other.samples:
            if len(self.samples) < 12:
                self.samples.append(s)
        if not self._fallback:
            self._fallback.extend(other._fallback[:1])
        self.hist.update(other.hist)
        self.violations.extend(other.violations)
        self.known_hits.update(other.known_hits)
        self.notes.extend(n for n in other.notes if n not in self.notes)
        self.exhaustive.update(other.exhaustive)
        self.inconclusive += other.inconclusive
        return self


def digest(obj: Any) -> str:
    if isinstance(obj, (bytes, bytearray)):
        return hashlib.sha256(bytes(obj)).hexdigest()[:16]
    return hashlib.sha256(json.dumps(obj, sort_keys=True, default=repr).encode()).hexdigest()[:16]


def derive_seed(base: int, *labels) -> int:
    h = hashlib.sha256(("|".join([str(base)] + [str(x) for x in labels])).encode()).digest()
    return int.from_bytes(h[:8], "big") >> 1


# --------------------------------------------------------------------------------------------
# known findings
# --------------------------------------------------------------------------------------------
def load_known(prop: str) -> list[dict]:
    path = os.path.join(HERE, "known_findings.jsonl")
    out = []
    if os.path.exists(path):
        with open(path) as fh:
            for line in fh:
                line = line.strip()
                if not line or line.startswith("#") or line.startswith("fixed:"):
                    continue
                rec = json.loads(line)
                if rec.get("property") == prop:
                    out.append(rec)
    return out


@dataclass
class Ctx:
    prop: str
    tier: str
    seed: int
    known: list  # open + fixed records for this property
    shard: int = 0
    nshards: int = 1

    @property
    def thorough(self):
        return self.tier == "thorough"

    def n(self, quick: int, thorough: int) -> int:
        return thorough if self.thorough else quick

    def derive(self, *labels) -> int:
        return derive_seed(self.seed, self.prop, *labels)

    def open_signatures(self) -> dict:
        return {k["signature"]: k for k in self.known if k.get("status") == "open" and k.get("signature") and k.get("match") == "signature"}

    def sub(self, shard, nshards):
        return Ctx(self.prop, self.tier, self.seed, self.known, shard, nshards)


# --------------------------------------------------------------------------------------------
# Hypothesis driver: runs a strategy against an evaluate() that returns violations
# --------------------------------------------------------------------------------------------
class _Fail(Exception):
    pass


def hyp_search(ctx: Ctx, label: str, strategy, evaluate: Callable[[Any], list], max_examples: int,
               part: Partial, shrink_budget_s: float = 20.0, model_shrink: bool = True):
    """Drive `evaluate` with Hypothesis.  evaluate(x) -> list[Violation] (already filtered for known findings,
    and having recorded its statistics in `part`).  The first unattributed failure is shrunk and recorded."""
    import hypothesis
    from hypothesis import HealthCheck, Phase, given, settings

    st = {"last": None, "t0": None, "best_digest": None}

    def body(x):
        if st["t0"] is not None and time.time() - st["t0"] > shrink_budget_s:
            # shrink budget used up: stop Hypothesis decisively; the smallest failing example seen so far is reported
            raise KeyboardInterrupt()
        v = evaluate(x)
        if v:
            if st["t0"] is None:
                st["t0"] = time.time()
            st["last"] = (x, v)
            raise _Fail()

    sett = settings(
        max_examples=max_examples,
        database=None,
        deadline=None,
        derandomize=False,
        report_multiple_bugs=False,
        print_blob=False,
        suppress_health_check=list(HealthCheck),
        phases=[Phase.explicit, Phase.generate, Phase.shrink],
    )
    test = hypothesis.seed(ctx.derive(label, ctx.shard))(sett(given(strategy)(body)))
    try:
        test()
    except _Fail:
        pass
    except KeyboardInterrupt:
        if st["last"] is None:
            raise
    except hypothesis.errors.Flaky:
        if st["last"] is None:
            raise
    except BaseException as e:  # noqa
        # exception groups etc.
        if st["last"] is None:
            raise
    if st["last"] is not None:
        x, v = st["last"]
        if model_shrink and isinstance(x, (dict, list)):
            from vf.shrink import shrink_model
            sig = v[0].signature
            small = shrink_model(x, lambda m: any(y.signature == sig for y in evaluate(m)), budget_s=shrink_budget_s)
            v2 = [y for y in evaluate(small) if y.signature == sig]
            if v2:
                v = v2
        part.violations.extend(v)
    return part


def _safe_digest(x):
    try:
        return digest(x if not hasattr(x, "to_json") else x.to_json())
    except Exception:
        return repr(x)[:200]


# --------------------------------------------------------------------------------------------
# sharding helper
# --------------------------------------------------------------------------------------------
def _run_shard(args):
    modname, funcname, ctx, extra = args
    try:
        sys.setrecursionlimit(max(sys.getrecursionlimit(), 3000))
        mod = importlib.import_module(modname)
        return ("ok", getattr(mod, funcname)(ctx, *extra))
    except BaseException:  # noqa
        return ("err", traceback.format_exc())


def shard_map(ctx: Ctx, modname: str, funcname: str, nshards: int, extra_per_shard: list | None = None,
              jobs: int | None = None) -> Partial:
    """Run modname.funcname(ctx.sub(i, n), *extra) in `nshards` forked processes and merge the Partials."""
    import multiprocessing as mp

    tasks = [(modname, funcname, ctx.sub(i, nshards), tuple(extra_per_shard[i]) if extra_per_shard else ())
             for i in range(nshards)]
    part = Partial()
    if nshards == 1 or os.environ.get("VF_NOFORK"):
        results = [_run_shard(t) for t in tasks]
    else:
        mpctx = mp.get_context("fork")
        with mpctx.Pool(min(jobs or NCPU, nshards), maxtasksperchild=1) as pool:
            results = pool.map(_run_shard, tasks, chunksize=1)
    for status, payload in results:
        if status == "err":
            raise HarnessError("shard failed:\n" + payload)
        part.merge(payload)
    return part


# --------------------------------------------------------------------------------------------
# replay files
# --------------------------------------------------------------------------------------------
def write_replay(prop: str, v: Violation, seed: int) -> str:
    d = os.path.join(HERE, "replay", "new")
    os.makedirs(d, exist_ok=True)
    payload = dict(v.replay)
    payload.update({"property": prop, "clause": v.clause, "signature": v.signature, "detail": v.detail, "seed": seed})
    name = f"{prop}-{digest(payload)}.json"
    path = os.path.join(d, name)
    with open(path, "w") as fh:
        json.dump(payload, fh, indent=1, sort_keys=True, default=repr)
    return os.path.relpath(path, HERE)


# --------------------------------------------------------------------------------------------
# main
# --------------------------------------------------------------------------------------------
LEVELS = {"C18": "fault_enumeration"}


def _assert_repo():
    import sharepoint2text

    real = os.path.realpath(sharepoint2text.__file__)
    if not real.startswith(os.path.realpath(REPO) + os.sep):
        raise HarnessError(f"sharepoint2text imported from {real}, expected under {REPO}")


def main(argv=None):
    ap = argparse.ArgumentParser()
    ap.add_argument("prop")
    ap.add_argument("--tier", default=os.environ.get("VERIF_TIER", "quick"), choices=["quick", "thorough"])
    ap.add_argument("--replay")
    ap.add_argument("--no-evidence", action="store_true")
    a = ap.parse_args(argv)
    prop = a.prop.upper()
    try:
        seed = int(os.environ.get("VERIF_SEED", "1") or "1")
    except ValueError:
        seed = 1
    t0 = time.time()
    try:
        sys.setrecursionlimit(3000)
        _assert_repo()
        mod = importlib.import_module(f"vf.props.{prop.lower()}")
        known = load_known(prop)
        ctx = Ctx(prop, a.tier, seed, known)
        if a.replay:
            with open(a.replay) as fh:
                payload = json.load(fh)
            viols = mod.replay(ctx, payload)
            for v in viols:
                print(f"REPLAY-FAIL property={prop} clause={v.clause} signature={v.signature}\n  {v.detail}")
            if not viols:
                print(f"REPLAY-PASS property={prop} {a.replay}")
            return 1 if viols else 0
        part: Partial = mod.run(ctx)
        # replay tier: reproducers of repaired defects must pass (a "fixed" entry suppresses nothing)
        import glob
        for rp in sorted(glob.glob(os.path.join(HERE, "replay", "regress", f"{prop}-*.json"))):
            with open(rp) as fh:
                payload = json.load(fh)
            for v in mod.replay(Ctx(prop, a.tier, seed, []), payload):
                v.signature = v.signature + ":regressed:" + os.path.basename(rp)
                part.violations.append(v)
            part.hist["regress_replays"] += 1
    except HarnessError as e:
        print(f"HARNESS-ERROR property={prop}: {e}", file=sys.stderr)
        return 2
    except BaseException:  # noqa
        print(f"HARNESS-ERROR property={prop}:\n{traceback.format_exc()}", file=sys.stderr)
        return 2

    # ---- classify violations against the committed known-findings file -------------------------
    open_sigs = ctx.open_signatures()
    fresh, known_seen = [], Counter(part.known_hits)
    seen_sig = set()
    for v in part.violations:
        if v.signature in open_sigs:
            known_seen[open_sigs[v.signature]["id"]] += 1
        else:
            if v.signature not in seen_sig:
                seen_sig.add(v.signature)
                fresh.append(v)
    by_id = {k["id"]: k for k in known if k.get("status") == "open"}
    for fid in sorted(known_seen):
        if fid in by_id:
            print(f"KNOWN-FINDING: property={prop} {fid}: {by_id[fid]['what']} (cases attributed this run: {known_seen[fid]})")
    rc = 0
    replay_paths = []
    for v in fresh:
        path = write_replay(prop, v, seed)
        replay_paths.append(path)
        print(f"VIOLATION property={prop} replay={path}")
        print(f"  clause={v.clause} signature={v.signature}\n  {v.detail[:1500]}")
        rc = 1

    # ---- evidence ------------------------------------------------------------------------------
    wall = time.time() - t0
    if not a.no_evidence:
        ev = {
            "property_id": prop,
            "tier": a.tier,
            "seed": seed,
            "level": LEVELS.get(prop, "exploration"),
            "coverage": {
                "evaluations": part.evaluations,
                "distinct_nontrivial": len(part.nontrivial),
                "rule": getattr(mod, "RULE", ""),
                "samples": (part.samples or part._fallback or [{"note": "no non-trivial case was sampled in this run"}])[:12],
                "histogram": dict(sorted(part.hist.items())),
                "known_findings_reproduced": {k: v for k, v in sorted(known_seen.items())},
                "exhaustive_subdomains": part.exhaustive,
                "exhaustive": bool(getattr(mod, "EXHAUSTIVE", False)),
                "inconclusive_cases": part.inconclusive,
                "notes": part.notes,
                "violations_reported": [v.to_json() for v in fresh],
            },
            "assumptions": list(getattr(mod, "ASSUMPTIONS", [])),
            "wall_s": round(wall, 2),
            "violations": len(fresh),
        }
        os.makedirs(os.path.join(HERE, "evidence"), exist_ok=True)
        with open(os.path.join(HERE, "evidence", f"{prop}.json"), "w") as fh:
            json.dump(ev, fh, indent=1, default=repr)
    print(f"{prop} tier={a.tier} seed={seed} evaluations={part.evaluations} nontrivial={len(part.nontrivial)} "
          f"violations={len(fresh)} known={sum(known_seen.values())} wall={wall:.1f}s")
    return rc


if __name__ == "__main__":
    sys.exit(main())
