"""Coverage-guided part of C01's thorough tier: one atheris campaign per extractor, crashes re-judged by the forked-worker oracle."""
from __future__ import annotations

import os
import re
import shutil
import subprocess
import sys
import tempfile
from concurrent.futures import ThreadPoolExecutor

from vf.runner import HERE, Ctx, Partial, Violation, digest


def _one(ext: str, seeds: list[tuple[str, bytes]], seconds: int, seed: int, empty_corpus: bool):
    work = tempfile.mkdtemp(prefix=f"vf-fuzz-{ext.replace('.', '_')}-", dir="/var/tmp")
    corpus, art = os.path.join(work, "corpus"), os.path.join(work, "artifacts")
    os.makedirs(corpus)
    os.makedirs(art)
    if not empty_corpus:
        for i, (_, raw) in enumerate(seeds):
            if len(raw) <= 65536:
                with open(os.path.join(corpus, f"seed{i}"), "wb") as f:
                    f.write(raw)
    env = dict(os.environ)
    cmd = [sys.executable, "-B", "-m", "vf.fuzz_target", ext, corpus, art, f"-max_total_time={seconds}", "-max_len=65536", f"-seed={seed or 1}", "-timeout=60", "-rss_limit_mb=3072",
           "-print_final_stats=1", "-verbosity=0"]
    crashes, execs, kept = [], 0, []
    # libFuzzer stops at the first crash: restart until the time is used up, each time with the corpus gathered so far
    import time
    t_end = time.time() + seconds
    rounds = 0
    log = ""
    while time.time() < t_end and rounds < 20:
        rounds += 1
        left = max(5, int(t_end - time.time()))
        cmd[7] = f"-max_total_time={left}"
        p = subprocess.run(cmd, env=env, cwd=HERE, capture_output=True, text=True, errors="replace", timeout=left + 180)
        log = p.stderr[-4000:]
        m = re.search(r"stat::number_of_executed_units:\s*(\d+)", p.stderr)
        execs += int(m.group(1)) if m else 0
        new = [f for f in os.listdir(art) if f not in {c[0] for c in crashes}]
        for f in new:
            with open(os.path.join(art, f), "rb") as fh:
                crashes.append((f, fh.read()))
        if not new:
            break
    for f in sorted(os.listdir(corpus)):
        if not f.startswith("seed"):
            with open(os.path.join(corpus, f), "rb") as fh:
                kept.append(fh.read())
    shutil.rmtree(work, ignore_errors=True)
    return ext, execs, kept, crashes, log


def campaign(ctx: Ctx) -> Partial:
    from vf.props import c01
    part = Partial()
    try:
        import atheris  # noqa: F401
    except Exception as e:  # noqa
        part.hist["atheris unavailable: coverage-guided part skipped"] += 1
        return part
    S = c01.seeds()
    seconds = int(os.environ.get("VF_FUZZ_SECONDS", "90"))
    jobs = [(e, S[e], seconds, ctx.seed, False) for e in c01.EXTS] + [(e, S[e], seconds // 2, ctx.seed, True) for e in ("rtf", "html", "eml", "mbox", "pdf", "csv", "json", "txt")]
    with ThreadPoolExecutor(max_workers=16) as ex:
        results = list(ex.map(lambda j: _one(*j), jobs))
    for ext, execs, kept, crashes, log in results:
        part.evaluations += execs
        part.hist[f"atheris-execs ext={ext}"] += execs
        for raw in kept:
            part.case(digest(["fuzz", ext, raw]), c01.gate(ext, raw) and len(raw) >= 8, fuzz_ext=ext)
            part.evaluations -= 1        # already counted in execs
        for name, raw in crashes:
            fails, _ = c01.judge(raw, ext, False)
            for clause, key, detail in fails[:1]:
                sig = f"C01:{ext}:{clause}:{key}"
                if sig in ctx.open_signatures():
                    part.known_hits[ctx.open_signatures()[sig]["id"]] += 1
                    continue
                part.violations.append(Violation(clause, sig, f"[atheris {name}] {detail}", {"kind": "bytes", "ext": ext, "hex": raw.hex()}))
            if not fails:
                part.hist[f"atheris artifact not reproduced by the forked oracle ({name.split('-')[0]}) ext={ext}"] += 1
    return part
