"""HTML grammar for C17 (and the HTML legs of other checks): visible blocks interleaved with removable elements whose content is hostile.

Model (JSON):
  doc   = {"shell": "full"|"fragment"|"nobody", "nodes": [node], "trailing": inline-list|None}
  node  = {"k":"blk","tag":..,"inl":[inline]} | {"k":"list","ordered":bool,"items":[[inline]]} | {"k":"table","rows":[[[inline]]]}
        | {"k":"rem",...} | {"k":"cmt","form":..,"tok":..} | {"k":"wrap","tag":"div"|"section"|"article","nodes":[node]}
  inline= {"k":"t","tok":..,"ent":str} | {"k":"fmt","tag":"b"|"i"|"span"|"a"|"em","inl":[inline]} | {"k":"br"} | {"k":"img"} | {"k":"rem",...} | {"k":"cmt",...}
  rem   = {"k":"rem","tag":script|style|noscript|iframe|object|embed|applet,"case":0|1|2,"content":[piece]}
  piece = {"k":"t","tok":X} | {"k":"void","tag":..} | {"k":"self","tag":..} | {"k":"rem",...} | {"k":"open","tag":..} | {"k":"close","tag":..}
        | {"k":"cmt",...} | {"k":"cdata","tok":X} | {"k":"el","tag":..,"content":[piece]} | {"k":"js","form":int,"tok":X}
"""
from __future__ import annotations

from hypothesis import strategies as st

from vf.gen.tokens import make

REMOVABLE = ["script", "style", "noscript", "iframe", "object", "embed", "applet"]
RAWTEXT = {"script", "style"}  # content is raw text for every HTML parser
VOIDS = ["img", "br", "input", "param", "source", "hr", "meta", "link", "wbr", "track", "area", "col"]
BLOCKS = ["p", "div", "h1", "h2", "h3", "h4", "h5", "h6", "blockquote", "pre", "section", "address"]
ENTS = ["", "", "", " &amp; ", " &lt; ", "&nbsp;", " &#65; ", " &quot;q&quot; ", " AT&T ", " &copy; "]


def _case(tag: str, c: int) -> str:
    return tag if c == 0 else tag.upper() if c == 1 else "".join(ch.upper() if i % 2 else ch for i, ch in enumerate(tag))


# ---- rendering --------------------------------------------------------------------------------------------
def _void_html(tag, xhtml, mtok=""):
    attrs = {"img": f' src="i.png" alt="{mtok}"', "input": f' type="text" value="{mtok}"', "param": f' name="n" value="{mtok}"',
             "source": ' src="m.mp4"', "meta": f' name="x" content="{mtok}"', "link": ' rel="stylesheet" href="s.css"', "track": ' src="t.vtt"',
             "area": ' href="#"', "col": ' span="1"'}.get(tag, "")
    return f"<{tag}{attrs}/>" if xhtml else f"<{tag}{attrs}>"


def r_piece(p, xhtml, parent_tag):
    k = p["k"]
    if k == "t":
        return " " + p["tok"] + " "
    if k == "void":
        return _void_html(p["tag"], xhtml, p.get("mtok", ""))
    if k == "self":
        return _void_html(p["tag"], True, p.get("mtok", ""))
    if k == "rem":
        return r_rem(p, xhtml)
    if k == "open":
        return f"<{p['tag']}> {p['tok']} "
    if k == "close":
        return f"</{p['tag']}> {p['tok']} "
    if k == "cmt":
        return r_cmt(p)
    if k == "cdata":
        return f"<![CDATA[ {p['tok']} ]]>"
    if k == "el":
        return f"<{p['tag']}>" + "".join(r_piece(c, xhtml, parent_tag) for c in p["content"]) + f"</{p['tag']}>"
    if k == "js":
        t = p["tok"]
        forms = [f'var s = "{t}";', f"if (a<b && c>d) {{ x('{t}'); }}", f'document.write("<p>{t}<\\/p>");', f"/* {t} */ var y = 1 < 2;",
                 f'var h = "<div class=\\"{t}\\">"; // <b>', f".{t} > p {{ color: red; }}", f'a[href^="<{t}>"]::after {{ content: "</style"; }}' if False else f"@media (min-width: 1px) {{ .{t} {{ x: y }} }}",
                 f"<!-- {t} //-->",
                 # a whole document written from script: the literal end tags of html/body inside removed content are not the end of the page
                 f"document.write('<html><body>{t}</body></html>');", f'var page = "</body></html>"; var k = "{t}";']
        return forms[p["form"] % len(forms)]
    raise ValueError(k)


def r_rem(n, xhtml):
    tag = _case(n["tag"], 0 if xhtml else n.get("case", 0))
    attrs = {"script": ' type="text/javascript"', "iframe": ' src="about:blank"', "object": ' data="movie.swf" type="application/x-shockwave-flash"',
             "embed": ' src="movie.swf" width="1" height="1"', "applet": ' code="A.class"', "style": ' type="text/css"'}.get(n["tag"], "")
    if n["tag"] == "embed":
        # void element: no content, no end tag (self-closed in XHTML)
        return f"<{tag}{attrs}/>" if xhtml else f"<{tag}{attrs}>"
    inner = "".join(r_piece(p, xhtml, n["tag"]) for p in n["content"])
    if xhtml and not inner and n.get("case", 0):
        # XML allows the empty-element form for any element (<script src="reader.js"/>); "case" has no other meaning in XHTML and selects it
        return f"<{tag}{attrs}/>"
    if xhtml and n["tag"] in RAWTEXT and inner:
        inner = "/*<![CDATA[*/" + inner.replace("]]>", "]] >") + "/*]]>*/" if ("<" in inner or "&" in inner) else inner
    return f"<{tag}{attrs}>{inner}</{tag}>"


def r_cmt(n):
    t = n["tok"]
    form = n.get("form", 0) % 5
    return [f"<!-- {t} -->", f"<!--[if IE]> {t} <![endif]-->", f"<!-- a > b <p>{t}</p> -->", f"<!--{t}-->", f"<!-- multi\nline {t}\n-->"][form]


def r_inline(i, xhtml):
    k = i["k"]
    if k == "t":
        return i["tok"] + i.get("ent", "")
    if k == "fmt":
        attr = f' href="https://example.org/{i.get("mtok", "")}"' if i["tag"] == "a" else ""
        return f"<{i['tag']}{attr}>" + " ".join(r_inline(c, xhtml) for c in i["inl"]) + f"</{i['tag']}>"
    if k == "br":
        return "<br/>" if xhtml else "<br>"
    if k == "img":
        return _void_html("img", xhtml, i.get("mtok", ""))
    if k == "rem":
        return r_rem(i, xhtml)
    if k == "cmt":
        return r_cmt(i)
    raise ValueError(k)


def r_inlines(inl, xhtml):
    return " ".join(r_inline(i, xhtml) for i in inl)


def r_node(n, xhtml):
    k = n["k"]
    if k == "blk":
        return f"<{n['tag']}>{r_inlines(n['inl'], xhtml)}</{n['tag']}>\n"
    if k == "list":
        tag = "ol" if n["ordered"] else "ul"
        return f"<{tag}>" + "".join(f"<li>{r_inlines(it, xhtml)}</li>" for it in n["items"]) + f"</{tag}>\n"
    if k == "table":
        rows = "".join("<tr>" + "".join(f"<td>{r_inlines(c, xhtml)}</td>" for c in row) + "</tr>" for row in n["rows"])
        return f"<table>{rows}</table>\n"
    if k == "rem":
        return r_rem(n, xhtml) + "\n"
    if k == "cmt":
        return r_cmt(n) + "\n"
    if k == "wrap":
        if n["tag"] == "cc-revealed":
            # downlevel-revealed conditional comment (what Outlook/Word HTML is full of): two comments with VISIBLE content between them
            return "<!--[if !mso]><!-->" + "".join(r_node(c, xhtml) for c in n["nodes"]) + "<!--<![endif]-->\n"
        return f"<{n['tag']}>" + "".join(r_node(c, xhtml) for c in n["nodes"]) + f"</{n['tag']}>\n"
    raise ValueError(k)


def render(doc, xhtml=False) -> str:
    body = "".join(r_node(n, xhtml) for n in doc["nodes"])
    if doc.get("trailing"):
        body += r_inlines(doc["trailing"], xhtml)
    shell = doc.get("shell", "full")
    head_rem = doc.get("head_tok")
    head = f"<meta charset=\"utf-8\"{'/' if xhtml else ''}><title>{doc.get('title', 'T')}</title>"
    if head_rem:
        head += f"<style>.{head_rem} {{ color: red }}</style><script>var q = '{head_rem}';</script>"
    if xhtml:
        return ('<?xml version="1.0" encoding="utf-8"?>\n<html xmlns="http://www.w3.org/1999/xhtml"><head>' + head + "</head><body>" + body + "</body></html>")
    if shell == "full":
        return "<!DOCTYPE html>\n<html lang=\"en\"><head>" + head + "</head>\n<body>\n" + body + "</body></html>\n"
    if shell == "office":
        # what Outlook / Word write: no doctype, a long conditional comment with settings XML in front of <html>
        lead = "<!--[if gte mso 9]><xml><o:OfficeDocumentSettings>" + "<o:AllowPNG/><o:PixelsPerInch>96</o:PixelsPerInch><o:Note>ZXOFF01 settings</o:Note>" * 30 + "</o:OfficeDocumentSettings></xml><![endif]-->\n"
        return lead + "<html xmlns:o=\"urn:schemas-microsoft-com:office:office\"><head>" + head + "</head>\n<body>\n" + body + "</body></html>\n"
    if shell == "nobody":
        return "<!DOCTYPE html>\n" + body
    return body  # fragment


# ---- analysis ---------------------------------------------------------------------------------------------------
def _walk_inl(inl):
    for i in inl:
        yield i
        if i["k"] == "fmt":
            yield from _walk_inl(i["inl"])


def iter_nodes(nodes):
    for n in nodes:
        yield n
        if n["k"] == "wrap":
            yield from iter_nodes(n["nodes"])


def node_inlines(n):
    if n["k"] == "blk":
        return [n["inl"]]
    if n["k"] == "list":
        return list(n["items"])
    if n["k"] == "table":
        return [c for row in n["rows"] for c in row]
    return []


def visible_tokens(doc, include_tables=True):
    """B tokens in document order (those the body text must contain). Returns (all_in_order, tokens_in_tables)."""
    seq, in_tables = [], []
    for n in iter_nodes(doc["nodes"]):
        for inl in node_inlines(n):
            for i in _walk_inl(inl):
                if i["k"] == "t":
                    seq.append(i["tok"])
                    if n["k"] == "table":
                        in_tables.append(i["tok"])
    for i in _walk_inl(doc.get("trailing") or []):
        if i["k"] == "t":
            seq.append(i["tok"])
    return seq, in_tables


def rem_elements(doc):
    """all removable elements / comments with the index of the next visible token after them (None if none follows)."""
    out = []

    def pieces(ps):
        for p in ps:
            yield p
            if p["k"] in ("rem", "el"):
                yield from pieces(p.get("content", []))

    def visit_rem(r):
        feats = {"tag": r["tag"], "kinds": sorted({p["k"] for p in pieces(r.get("content", []))})}
        out.append(feats)
    for n in iter_nodes(doc["nodes"]):
        if n["k"] == "rem":
            visit_rem(n)
        for inl in node_inlines(n):
            for i in _walk_inl(inl):
                if i["k"] == "rem":
                    visit_rem(i)
    return out


def features(doc):
    rems = rem_elements(doc)
    kinds = {k for r in rems for k in r["kinds"]}
    toks, _ = visible_tokens(doc)
    # is there a visible token after the first removable element with non-text content?
    return {
        "n_rem": len(rems),
        "rem_tags": sorted({r["tag"] for r in rems}),
        "nontext_content": bool(kinds - {"t", "js"}),
        "void_child": "void" in kinds, "unclosed_child": "open" in kinds, "stray_end": "close" in kinds, "nested_rem": "rem" in kinds,
        "embed": any(r["tag"] == "embed" for r in rems),
        "xml_ok": not (kinds & {"open", "close"}),
        "n_visible": len(toks),
        "trailing_text": bool(doc.get("trailing")),
        "shell": doc.get("shell", "full"),
    }


# ---- strategy ---------------------------------------------------------------------------------------------------
@st.composite
def docs(draw, max_nodes=7, rich=True):
    ctr = [draw(st.integers(0, 10**6)) * 50]

    def tok(cls="B"):
        ctr[0] += 1
        return make(cls, ctr[0] % (36 ** 5))

    def piece(depth, parent):
        if parent in RAWTEXT:
            return {"k": "js", "form": draw(st.integers(0, 9)), "tok": tok("X")}
        kinds = ["t", "t", "void", "void", "self", "cmt", "el"]
        if rich:
            kinds += ["open", "close", "cdata"]
            if depth < 2:
                kinds += ["rem"]
        k = draw(st.sampled_from(kinds))
        if k == "t":
            return {"k": "t", "tok": tok("X")}
        if k == "void":
            return {"k": "void", "tag": draw(st.sampled_from(VOIDS)), "mtok": tok("M")}
        if k == "self":
            return {"k": "self", "tag": draw(st.sampled_from(["img", "br", "param", "input"])), "mtok": tok("M")}
        if k == "cmt":
            return {"k": "cmt", "form": draw(st.integers(0, 4)), "tok": tok("X")}
        if k == "el":
            return {"k": "el", "tag": draw(st.sampled_from(["p", "span", "a", "div", "b"])), "content": [piece(depth + 1, parent) for _ in range(draw(st.integers(0, 2)))] + [{"k": "t", "tok": tok("X")}]}
        if k == "open":
            return {"k": "open", "tag": draw(st.sampled_from(["p", "div", "span", "b", "li", "td"])), "tok": tok("X")}
        if k == "close":
            return {"k": "close", "tag": draw(st.sampled_from(["p", "div", "span", "b", "body", "table"])), "tok": tok("X")}
        if k == "cdata":
            return {"k": "cdata", "tok": tok("X")}
        return rem(depth + 1)

    def rem(depth=0):
        tag = draw(st.sampled_from(REMOVABLE))
        n = {"k": "rem", "tag": tag, "case": draw(st.sampled_from([0, 0, 1, 2])), "content": []}
        if tag != "embed":
            n["content"] = [piece(depth, tag) for _ in range(draw(st.integers(0, 3)))]
        return n

    def inline(depth=0):
        k = draw(st.sampled_from(["t", "t", "t", "fmt", "br", "img", "rem", "cmt"] if depth < 2 else ["t"]))
        if k == "t":
            return {"k": "t", "tok": tok("B"), "ent": draw(st.sampled_from(ENTS))}
        if k == "fmt":
            return {"k": "fmt", "tag": draw(st.sampled_from(["b", "i", "span", "a", "em"])), "mtok": tok("M"), "inl": [inline(depth + 1) for _ in range(draw(st.integers(1, 2)))]}
        if k == "br":
            return {"k": "br"}
        if k == "img":
            return {"k": "img", "mtok": tok("M")}
        if k == "cmt":
            return {"k": "cmt", "form": draw(st.integers(0, 4)), "tok": tok("X")}
        return rem(1)

    def inlines():
        return [inline() for _ in range(draw(st.integers(1, 3)))]

    def node(depth=0):
        k = draw(st.sampled_from(["blk", "blk", "blk", "list", "table", "rem", "rem", "rem", "cmt"] + (["wrap"] if depth < 2 else [])))
        if k == "blk":
            return {"k": "blk", "tag": draw(st.sampled_from(BLOCKS)), "inl": inlines()}
        if k == "list":
            return {"k": "list", "ordered": draw(st.booleans()), "items": [inlines() for _ in range(draw(st.integers(1, 3)))]}
        if k == "table":
            r, c = draw(st.integers(1, 3)), draw(st.integers(1, 3))
            return {"k": "table", "rows": [[inlines() for _ in range(c)] for _ in range(r)]}
        if k == "rem":
            return rem()
        if k == "cmt":
            return {"k": "cmt", "form": draw(st.integers(0, 4)), "tok": tok("X")}
        return {"k": "wrap", "tag": draw(st.sampled_from(["div", "section", "article", "cc-revealed"])), "nodes": [node(depth + 1) for _ in range(draw(st.integers(1, 3)))]}

    nodes = [node() for _ in range(draw(st.integers(1, max_nodes)))]
    # make sure something visible follows the last removable element in most documents
    if draw(st.integers(0, 4)) > 0:
        nodes.append({"k": "blk", "tag": "p", "inl": [{"k": "t", "tok": tok("B"), "ent": ""}]})
    doc = {"shell": draw(st.sampled_from(["full", "full", "full", "fragment", "nobody", "office"])), "nodes": nodes, "title": tok("M"),
           "head_tok": tok("X") if draw(st.booleans()) else None, "trailing": None}
    if doc["shell"] != "full" and draw(st.integers(0, 2)) == 0:
        doc["trailing"] = [{"k": "t", "tok": tok("B"), "ent": draw(st.sampled_from(["", " AT&T", " &amp; more", " a&b"]))}]
    return doc
