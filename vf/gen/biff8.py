"""Independent BIFF8 (Excel 97-2003) workbook writer following [MS-XLS]; CFB packaging through vf.gen.ole2.

    workbook_stream(sheets, filepass_at=None, date_1904=False) -> bytes     the "Workbook" stream
    write_xls(sheets, props=None, codepage=1252, filepass_at=None, extra_streams=None) -> bytes
    walk_records(stream) -> [(offset, id, data)]
    selfcheck() -> bool      (xlrd is used as an independent cross-check only)

sheets: [{"name": str, "rows": [[cell, ...], ...], "origin": (row0, col0)}]
cell:   None | str | int | float | bool | ("error", code) | date | datetime | time | ("formula", cached)
Deterministic: no clock, no randomness.
"""
from __future__ import annotations

import datetime as _dt
import math
import struct
import uuid

from . import ole2

# record ids
BOF, EOF, CONTINUE = 0x0809, 0x000A, 0x003C
FILEPASS, CODEPAGE, WINDOW1, DATEMODE, FONT, FORMAT, XF, STYLE = 0x002F, 0x0042, 0x003D, 0x0022, 0x0031, 0x041E, 0x00E0, 0x0293
BOUNDSHEET, SST, EXTSST = 0x0085, 0x00FC, 0x00FF
INDEX, DIMENSIONS, ROW, DBCELL, WINDOW2 = 0x020B, 0x0200, 0x0208, 0x00D7, 0x023E
LABELSST, NUMBER, RK, BOOLERR, FORMULA, STRING, BLANK = 0x00FD, 0x0203, 0x027E, 0x0205, 0x0006, 0x0207, 0x0201

MAX_REC = 8224

XF_GENERAL, XF_DATE, XF_DATETIME, XF_TIME = 15, 16, 17, 18      # indexes of the four cell XFs (after 15 style XFs)
FMT_DATE, FMT_DATETIME, FMT_TIME = 14, 22, 21                   # built-in number formats

ERROR_CODES = {"#NULL!": 0x00, "#DIV/0!": 0x07, "#VALUE!": 0x0F, "#REF!": 0x17, "#NAME?": 0x1D, "#NUM!": 0x24, "#N/A": 0x2A}

CLSID_XLS = uuid.UUID("00020820-0000-0000-C000-000000000046").bytes_le


def _rec(rid: int, data: bytes = b"") -> bytes:
    if len(data) > MAX_REC:
        raise ValueError("record 0x%04X body too long (%d)" % (rid, len(data)))
    return struct.pack("<HH", rid, len(data)) + data


def _utf16_units(s: str) -> list[int]:
    raw = s.encode("utf-16-le", "surrogatepass")
    return list(struct.unpack("<%dH" % (len(raw) // 2), raw))


def _short_unicode(s: str) -> bytes:
    """ShortXLUnicodeString: cch u8, fHighByte u8, characters."""
    units = _utf16_units(s)
    if len(units) > 255:
        raise ValueError("string too long for a ShortXLUnicodeString")
    if all(u < 256 for u in units):
        return struct.pack("<BB", len(units), 0) + bytes(units)
    return struct.pack("<BB", len(units), 1) + struct.pack("<%dH" % len(units), *units)


def _xl_unicode(s: str) -> bytes:
    """XLUnicodeString: cch u16, fHighByte u8, characters."""
    units = _utf16_units(s)
    if len(units) > 0xFFFF:
        raise ValueError("string too long")
    if all(u < 256 for u in units):
        return struct.pack("<HB", len(units), 0) + bytes(units)
    return struct.pack("<HB", len(units), 1) + struct.pack("<%dH" % len(units), *units)


# ----------------------------------------------------------------------------------------------
# values
# ----------------------------------------------------------------------------------------------

def date_serial(value, date_1904: bool = False) -> float:
    """Excel serial for date / datetime / time ([MS-XLS] 2.5.? date systems; the 1900 system has the phantom 1900-02-29)."""
    if isinstance(value, _dt.datetime):
        frac = ((value.hour * 3600 + value.minute * 60 + value.second) * 1_000_000 + value.microsecond) / 86_400_000_000
        return date_serial(value.date(), date_1904) + frac
    if isinstance(value, _dt.date):
        if date_1904:
            return float((value - _dt.date(1904, 1, 1)).days)
        n = (value - _dt.date(1899, 12, 31)).days
        if value >= _dt.date(1900, 3, 1):
            n += 1
        return float(n)
    if isinstance(value, _dt.time):
        return ((value.hour * 3600 + value.minute * 60 + value.second) * 1_000_000 + value.microsecond) / 86_400_000_000
    raise TypeError(value)


def rk_encode(v: float) -> int | None:
    """RkNumber if `v` is exactly representable, else None."""
    if isinstance(v, float) and (math.isnan(v) or math.isinf(v)):
        return None
    f = float(v)
    if f == 0.0 and math.copysign(1.0, f) < 0:
        bits = struct.unpack("<Q", struct.pack("<d", f))[0]
        return (bits >> 32) & 0xFFFFFFFC
    if f == int(f) and -(1 << 29) <= int(f) < (1 << 29):
        return ((int(f) << 2) & 0xFFFFFFFC) | 2
    bits = struct.unpack("<Q", struct.pack("<d", f))[0]
    if bits & 0x3FFFFFFFF == 0:
        return (bits >> 32) & 0xFFFFFFFC
    h = f * 100.0
    if abs(h) < (1 << 29) and h == int(h) and int(h) / 100.0 == f:
        return ((int(h) << 2) & 0xFFFFFFFC) | 3
    return None


def rk_decode(rk: int) -> float:
    if rk & 2:
        i = rk >> 2
        if i & (1 << 29):
            i -= 1 << 30
        v = float(i)
    else:
        v = struct.unpack("<d", struct.pack("<Q", (rk & 0xFFFFFFFC) << 32))[0]
    return v / 100.0 if rk & 1 else v


class _SST:
    def __init__(self):
        self.index: dict[str, int] = {}
        self.strings: list[str] = []
        self.total = 0

    def add(self, s: str) -> int:
        self.total += 1
        i = self.index.get(s)
        if i is None:
            i = len(self.strings)
            self.index[s] = i
            self.strings.append(s)
        return i

    def records(self, base_offset: int) -> bytes:
        """SST + CONTINUE* + EXTSST. `base_offset` = stream position of the SST record header."""
        chunks: list[bytearray] = [bytearray(struct.pack("<II", self.total, len(self.strings)))]
        positions: list[tuple[int, int]] = []   # (chunk index, offset in chunk data) of each string

        def room() -> int:
            return MAX_REC - len(chunks[-1])

        for s in self.strings:
            units = _utf16_units(s)
            if len(units) > 0xFFFF:
                raise ValueError("string too long for the SST")
            wide = any(u >= 256 for u in units)
            if room() < 3 + (2 if wide else 1) * (1 if units else 0):
                chunks.append(bytearray())          # header + first character must not be split from each other
            positions.append((len(chunks) - 1, len(chunks[-1])))
            chunks[-1] += struct.pack("<HB", len(units), 1 if wide else 0)
            i = 0
            while i < len(units):
                width = 2 if wide else 1
                n = min(len(units) - i, room() // width)
                # never split a surrogate pair between two records
                if wide and 0 < n < len(units) - i and 0xD800 <= units[i + n - 1] < 0xDC00:
                    n -= 1
                if n <= 0:
                    chunks.append(bytearray([1 if wide else 0]))     # continuation starts with the fHighByte flag byte
                    continue
                part = units[i:i + n]
                chunks[-1] += struct.pack("<%dH" % n, *part) if wide else bytes(part)
                i += n
        out = bytearray()
        chunk_pos: list[int] = []
        for k, c in enumerate(chunks):
            chunk_pos.append(base_offset + len(out))
            out += _rec(SST if k == 0 else CONTINUE, bytes(c))
        # EXTSST: one ISSTInf per bucket of dsst strings
        n = len(self.strings)
        dsst = max(8, n // 128 + 1)
        ext = bytearray(struct.pack("<H", dsst))
        for first in range(0, n, dsst):
            ck, off = positions[first]
            ext += struct.pack("<IHH", chunk_pos[ck] + 4 + off, off + 4, 0)
        out += _rec(EXTSST, bytes(ext))
        return bytes(out)


# ----------------------------------------------------------------------------------------------
# globals substream pieces
# ----------------------------------------------------------------------------------------------

def _bof(dt: int) -> bytes:
    return _rec(BOF, struct.pack("<HHHHII", 0x0600, dt, 0x0DBB, 0x07CC, 0x00000009, 0x00000006))


def filepass_record() -> bytes:
    """RC4 (non-CryptoAPI) FILEPASS: wEncryptionType 1, version 1.1, salt, encrypted verifier, verifier hash (54 bytes)."""
    salt = bytes(range(0x10, 0x20))
    verifier = bytes(range(0x20, 0x30))
    vhash = bytes(range(0x30, 0x40))
    body = struct.pack("<HHH", 1, 1, 1) + salt + verifier + vhash
    assert len(body) == 54
    return _rec(FILEPASS, body)


def _font(name: str = "Arial", bold: bool = False) -> bytes:
    return _rec(FONT, struct.pack("<HHHHHBBBB", 200, 0, 0x7FFF, 700 if bold else 400, 0, 0, 0, 0, 0) + _short_unicode(name))


def _xf(ifmt: int, style: bool, first: bool = False) -> bytes:
    if style:
        flags = 0xFFF5                      # fLocked | fStyle | ixfParent = 0xFFF
        used = 0x00 if first else 0xF4
    else:
        flags = 0x0001                      # fLocked, parent style XF 0
        used = 0x04 if ifmt else 0x00       # fAtrNum when a number format is applied
    return _rec(XF, struct.pack("<HHHBBBBIIH", 0, ifmt, flags, 0x20, 0, 0, used, 0, 0, 0x20C0))


def _boundsheet(offset: int, name: str) -> bytes:
    return _rec(BOUNDSHEET, struct.pack("<IBB", offset, 0, 0) + _short_unicode(name))


def _check_sheet_name(name: str) -> None:
    if not name or len(_utf16_units(name)) > 31 or any(c in name for c in "\\/?*[]:"):
        raise ValueError("invalid sheet name %r" % name)


# ----------------------------------------------------------------------------------------------
# cells
# ----------------------------------------------------------------------------------------------

def _number_cell(r: int, c: int, xf: int, v: float) -> bytes:
    rk = rk_encode(v)
    if rk is not None:
        return _rec(RK, struct.pack("<HHHI", r, c, xf, rk))
    return _rec(NUMBER, struct.pack("<HHHd", r, c, xf, float(v)))


def _formula_cell(r: int, c: int, cached) -> bytes:
    follow = b""
    if isinstance(cached, bool):
        result = struct.pack("<BBBBHH", 1, 0, 1 if cached else 0, 0, 0, 0xFFFF)
        rgce = struct.pack("<BB", 0x1D, 1 if cached else 0)                       # ptgBool
    elif isinstance(cached, (int, float)):
        result = struct.pack("<d", float(cached))
        rgce = struct.pack("<Bd", 0x1F, float(cached))                            # ptgNum
    elif isinstance(cached, str):
        if cached == "":
            result = struct.pack("<BBBBHH", 3, 0, 0, 0, 0, 0xFFFF)                # empty string: no STRING record
        else:
            result = struct.pack("<BBBBHH", 0, 0, 0, 0, 0, 0xFFFF)
            follow = _rec(STRING, _xl_unicode(cached))         # raises when longer than one record
        rgce = b"\x17" + _short_unicode(cached) if len(_utf16_units(cached)) <= 255 else struct.pack("<BH", 0x1E, 0)
    elif isinstance(cached, tuple) and len(cached) == 2 and cached[0] == "error":
        code = _err_code(cached[1])
        result = struct.pack("<BBBBHH", 2, 0, code, 0, 0, 0xFFFF)
        rgce = struct.pack("<BB", 0x1C, code)                                     # ptgErr
    else:
        raise TypeError("unsupported cached formula value %r" % (cached,))
    body = struct.pack("<HHH", r, c, XF_GENERAL) + result + struct.pack("<HIH", 0, 0, len(rgce)) + rgce
    return _rec(FORMULA, body) + follow


def _err_code(code) -> int:
    if isinstance(code, str):
        return ERROR_CODES[code]
    return int(code) & 0xFF


def _cell_record(r: int, c: int, v, sst: _SST, date_1904: bool) -> bytes:
    if v is None:
        return b""
    if isinstance(v, str):
        return _rec(LABELSST, struct.pack("<HHHI", r, c, XF_GENERAL, sst.add(v)))
    if isinstance(v, bool):
        return _rec(BOOLERR, struct.pack("<HHHBB", r, c, XF_GENERAL, 1 if v else 0, 0))
    if isinstance(v, (int, float)):
        return _number_cell(r, c, XF_GENERAL, v)
    if isinstance(v, _dt.datetime):
        return _number_cell(r, c, XF_DATETIME, date_serial(v, date_1904))
    if isinstance(v, _dt.date):
        return _number_cell(r, c, XF_DATE, date_serial(v, date_1904))
    if isinstance(v, _dt.time):
        return _number_cell(r, c, XF_TIME, date_serial(v, date_1904))
    if isinstance(v, tuple) and len(v) == 2 and v[0] == "error":
        return _rec(BOOLERR, struct.pack("<HHHBB", r, c, XF_GENERAL, _err_code(v[1]), 1))
    if isinstance(v, tuple) and len(v) == 2 and v[0] == "formula":
        return _formula_cell(r, c, v[1])
    if isinstance(v, tuple) and len(v) == 2 and v[0] == "blank":
        return _rec(BLANK, struct.pack("<HHH", r, c, XF_GENERAL))
    raise TypeError("unsupported cell value %r" % (v,))


def _sheet_substream(sheet: dict, sst: _SST, base: int, selected: bool, date_1904: bool) -> bytes:
    """Worksheet substream: BOF INDEX DIMENSIONS (row blocks: ROW* cells DBCELL)* WINDOW2 EOF. `base` = stream offset of BOF."""
    r0, c0 = sheet.get("origin", (0, 0))
    rows = sheet.get("rows", [])
    per_row: list[tuple[int, int, int, list[bytes]]] = []      # (row, first col, last col+1, cell records)
    for i, row in enumerate(rows):
        r = r0 + i
        cells: list[bytes] = []
        cols: list[int] = []
        for j, v in enumerate(row):
            c = c0 + j
            if v is None:
                continue
            if r > 0xFFFF or c > 0xFF:
                raise ValueError("cell (%d,%d) outside the BIFF8 grid" % (r, c))
            cells.append(_cell_record(r, c, v, sst, date_1904))
            cols.append(c)
        if cells:
            per_row.append((r, min(cols), max(cols) + 1, cells))
    if per_row:
        rw_mic, rw_mac = per_row[0][0], per_row[-1][0] + 1
        col_mic, col_mac = min(p[1] for p in per_row), max(p[2] for p in per_row)
    else:
        rw_mic = rw_mac = col_mic = col_mac = 0
    blocks = [per_row[i:i + 32] for i in range(0, len(per_row), 32)]

    bof = _bof(0x0010)
    index_len = 4 + 16 + 4 * len(blocks)
    dims = _rec(DIMENSIONS, struct.pack("<IIHHH", rw_mic, rw_mac, col_mic, col_mac, 0))
    pos = base + len(bof) + index_len + len(dims)
    body = bytearray()
    dbcell_pos: list[int] = []
    for blk in blocks:
        first_row_pos = pos + len(body)
        for (r, cm, cx, _cells) in blk:
            body += _rec(ROW, struct.pack("<HHHHHHHH", r, cm, cx, 0x00FF, 0, 0, 0x0100, 0x000F))
        rgdb: list[int] = []
        # first entry: from the start of the second ROW record (= end of the first) to the first cell of the block
        prev = first_row_pos + 20
        for (_r, _cm, _cx, cells) in blk:
            here = pos + len(body)
            rgdb.append(here - prev)
            prev = here
            for rec in cells:
                body += rec
        db_here = pos + len(body)
        dbcell_pos.append(db_here)
        body += _rec(DBCELL, struct.pack("<I", db_here - first_row_pos) + b"".join(struct.pack("<H", x & 0xFFFF) for x in rgdb))
    index = _rec(INDEX, struct.pack("<IIII", 0, rw_mic, rw_mac, 0) + b"".join(struct.pack("<I", p) for p in dbcell_pos))
    assert len(index) == index_len
    w2 = _rec(WINDOW2, struct.pack("<HHHIHHI", 0x06B6 if selected else 0x00B6, 0, 0, 0x40, 0, 0, 0))
    return bof + index + dims + bytes(body) + w2 + _rec(EOF)


def blip_record(image: bytes, kind: str = "png") -> bytes:
    """An OfficeArt BLIP record as it sits in the drawing group of a workbook: header (recVer/recInstance, recType, recLen), 16-byte UID, tag byte, file bytes."""
    import hashlib
    inst, rtype = {"png": (0x6E0, 0xF01E), "jpeg": (0x46A, 0xF01D)}[kind]
    body = hashlib.md5(image).digest() + b"\xff" + image
    return struct.pack("<HHI", inst << 4, rtype, len(body)) + body


def workbook_stream(sheets: list[dict], *, filepass_at: int | None = None, date_1904: bool = False, pictures: list | None = None) -> bytes:
    if not sheets:
        raise ValueError("a workbook needs at least one sheet")
    seen = set()
    for sh in sheets:
        _check_sheet_name(sh["name"])
        if sh["name"].lower() in seen:
            raise ValueError("duplicate sheet name %r" % sh["name"])
        seen.add(sh["name"].lower())
    # the sheet substreams are built twice: once to learn the SST and sizes, once with final offsets
    sst = _SST()
    sizes = [len(_sheet_substream(sh, sst, 0, i == 0, date_1904)) for i, sh in enumerate(sheets)]

    head: list[bytes] = [
        _rec(CODEPAGE, struct.pack("<H", 1200)),
        _rec(WINDOW1, struct.pack("<hhHHHHHHH", 0, 0, 0x4000, 0x2000, 0x0038, 0, 0, 1, 600)),
        _rec(DATEMODE, struct.pack("<H", 1 if date_1904 else 0)),
    ]
    head += [_font() for _ in range(4)] + [_font(bold=True)]      # font indexes 0,1,2,3 and 5 (4 never exists)
    head += [_xf(0, True, first=(i == 0)) for i in range(15)]
    head += [_xf(0, False), _xf(FMT_DATE, False), _xf(FMT_DATETIME, False), _xf(FMT_TIME, False)]
    head.append(_rec(STYLE, struct.pack("<HBB", 0x8000, 0, 0xFF)))
    if pictures:
        # MSODRAWINGGROUP (0x00EB): the workbook's picture store; pictures = [(kind, bytes)], each small enough for one record
        payload = b"".join(blip_record(data, kind) for kind, data in pictures)
        if len(payload) > 8000:
            raise ValueError("pictures too large for a single MSODRAWINGGROUP record")
        head.append(_rec(0x00EB, payload))
    if filepass_at is not None:
        # index among the records that follow BOF: head..., BOUNDSHEET..., SST(+CONTINUE, EXTSST), EOF
        if not 0 <= filepass_at <= len(head) + len(sheets) + 1:
            raise ValueError("filepass_at out of range")

    def assemble(sheet_offsets: list[int]) -> bytes:
        recs = list(head)
        recs += [_boundsheet(o, sh["name"]) for o, sh in zip(sheet_offsets, sheets)]
        sst_index = len(recs)
        recs.append(b"")                      # placeholder for SST+CONTINUE+EXTSST
        if filepass_at is not None:
            recs.insert(filepass_at, filepass_record())
            if filepass_at <= sst_index:
                sst_index += 1
        bof = _bof(0x0005)
        before = len(bof) + sum(len(r) for r in recs[:sst_index])
        recs[sst_index] = sst.records(before)
        return bof + b"".join(recs) + _rec(EOF)

    draft = assemble([0] * len(sheets))
    offsets = []
    pos = len(draft)
    for s in sizes:
        offsets.append(pos)
        pos += s
    globals_bytes = assemble(offsets)
    assert len(globals_bytes) == len(draft)
    out = bytearray(globals_bytes)
    sst2 = _SST()
    sst2.index, sst2.strings = dict(sst.index), list(sst.strings)     # same indexes; totals irrelevant now
    for i, sh in enumerate(sheets):
        assert len(out) == offsets[i]
        out += _sheet_substream(sh, sst2, offsets[i], i == 0, date_1904)
    return bytes(out)


def write_xls(sheets: list[dict], *, props: dict[int, object] | None = None, codepage: int = 1252,
              filepass_at: int | None = None, extra_streams: dict[str, bytes] | None = None,
              date_1904: bool = False, pictures: list | None = None) -> bytes:
    streams: dict[str, bytes] = {"Workbook": workbook_stream(sheets, filepass_at=filepass_at, date_1904=date_1904, pictures=pictures)}
    if props is not None:
        streams["\x05SummaryInformation"] = ole2.property_set(props, codepage=codepage)
    if extra_streams:
        streams.update(extra_streams)
    return ole2.write_cfb(streams, root_clsid=CLSID_XLS)


# ----------------------------------------------------------------------------------------------
# own record walker (self-check)
# ----------------------------------------------------------------------------------------------

def walk_records(stream: bytes) -> list[tuple[int, int, bytes]]:
    out = []
    pos = 0
    while pos + 4 <= len(stream):
        rid, ln = struct.unpack_from("<HH", stream, pos)
        if pos + 4 + ln > len(stream):
            raise ValueError("record at %d overruns the stream" % pos)
        out.append((pos, rid, stream[pos + 4:pos + 4 + ln]))
        pos += 4 + ln
    if pos != len(stream):
        raise ValueError("trailing bytes after the last record")
    return out


def _read_sst(recs: list[tuple[int, int, bytes]]) -> tuple[list[str], list[int]]:
    """Decode SST + CONTINUE with the split rules; returns (strings, absolute stream position of every string)."""
    k = next(i for i, r in enumerate(recs) if r[1] == SST)
    chunks = [recs[k]]
    j = k + 1
    while j < len(recs) and recs[j][1] == CONTINUE:
        chunks.append(recs[j])
        j += 1
    ci, off = 0, 8
    _total, unique = struct.unpack_from("<II", chunks[0][2], 0)
    strings, positions = [], []
    for _ in range(unique):
        if off >= len(chunks[ci][2]):
            ci, off = ci + 1, 0
        data = chunks[ci][2]
        positions.append(chunks[ci][0] + 4 + off)
        cch, flags = struct.unpack_from("<HB", data, off)
        off += 3
        if flags & 0x0C:
            raise ValueError("rich/ext strings are never written")
        wide = flags & 1
        units: list[int] = []
        while len(units) < cch:
            data = chunks[ci][2]
            if off >= len(data):
                ci, off = ci + 1, 0
                wide = chunks[ci][2][0] & 1
                off = 1
                data = chunks[ci][2]
            width = 2 if wide else 1
            n = min(cch - len(units), (len(data) - off) // width)
            if wide:
                units.extend(struct.unpack_from("<%dH" % n, data, off))
            else:
                units.extend(data[off:off + n])
            off += n * width
        strings.append(struct.pack("<%dH" % len(units), *units).decode("utf-16-le", "surrogatepass"))
    return strings, positions


def check_structure(stream: bytes) -> list[str]:
    """Offsets written by the writer must land on the right records ([] = fine)."""
    problems: list[str] = []
    recs = walk_records(stream)
    by_pos = {p: (rid, data) for p, rid, data in recs}
    if recs[0][1] != BOF or struct.unpack_from("<HH", recs[0][2])[:2] != (0x0600, 0x0005):
        problems.append("stream does not start with a globals BOF")
    for p, rid, data in recs:
        if len(data) > MAX_REC:
            problems.append("record too long at %d" % p)
        if rid == BOUNDSHEET:
            (off,) = struct.unpack_from("<I", data)
            tgt = by_pos.get(off)
            if not tgt or tgt[0] != BOF or struct.unpack_from("<HH", tgt[1]) != (0x0600, 0x0010):
                problems.append("BOUNDSHEET offset %d is not a worksheet BOF" % off)
        if rid == INDEX:
            n = (len(data) - 16) // 4
            for q in struct.unpack_from("<%dI" % n, data, 16):
                tgt = by_pos.get(q)
                if not tgt or tgt[0] != DBCELL:
                    problems.append("INDEX entry %d is not a DBCELL" % q)
        if rid == DBCELL:
            (back,) = struct.unpack_from("<I", data)
            first_row = p - back
            tgt = by_pos.get(first_row)
            if not tgt or tgt[0] != ROW:
                problems.append("DBCELL at %d does not point back at a ROW" % p)
                continue
            offs = struct.unpack_from("<%dH" % ((len(data) - 4) // 2), data, 4)
            cur = first_row + 20
            for o in offs:
                cur += o
                tgt = by_pos.get(cur)
                if not tgt or tgt[0] in (ROW, DBCELL, INDEX, BOF, EOF):
                    problems.append("DBCELL row offset at %d does not land on a cell record" % cur)
    if any(r[1] == SST for r in recs):
        strings, positions = _read_sst(recs)
        ext = next((r for r in recs if r[1] == EXTSST), None)
        if ext is None:
            problems.append("SST without EXTSST")
        else:
            (dsst,) = struct.unpack_from("<H", ext[2])
            n = (len(ext[2]) - 2) // 8
            if dsst < 8 or n != (len(strings) + dsst - 1) // dsst:
                problems.append("EXTSST bucket count wrong")
            for b in range(n):
                ib, cb, _ = struct.unpack_from("<IHH", ext[2], 2 + 8 * b)
                if ib != positions[b * dsst]:
                    problems.append("EXTSST bucket %d points at %d, string is at %d" % (b, ib, positions[b * dsst]))
    return problems


# ----------------------------------------------------------------------------------------------
# self-check
# ----------------------------------------------------------------------------------------------

def selfcheck(verbose: bool = False) -> bool:
    import xlrd

    def fail(msg: str) -> bool:
        if verbose:
            print("biff8 selfcheck FAILED:", msg)
        return False

    for v in (0, 1, -1, 12345, -(1 << 29), (1 << 29) - 1, 1.5, 0.25, 12.34, 2.0 ** 40, -0.0, 536870911.0):
        rk = rk_encode(v)
        if rk is None or rk_decode(rk) != float(v):
            return fail("RK round trip failed for %r" % (v,))
    for v in (0.1, -0.07, math.pi, 1 << 29, 1e300, 1 / 3):
        rk = rk_encode(v)
        if rk is not None and rk_decode(rk) != float(v):
            return fail("RK claims to represent %r" % (v,))

    many = ["unique string number %04d with some padding text to fill records — ü" % i if i % 3 == 0
            else "plain ascii string %04d .................................." % i for i in range(700)]
    long_ascii = "A" * 9000                      # longer than one record: split inside the characters
    long_wide = "Ж" * 5000 + "😀" * 300          # wide + surrogate pairs across a record boundary
    sheets = [
        {"name": "First", "rows": [
            ["text", "Grüße ∑ 日本語", 42, -7, 3.25, 0.1, True, False],
            [None, ("error", 0x07), ("error", "#N/A"), _dt.date(2024, 2, 29), _dt.datetime(2023, 12, 31, 23, 59, 58),
             _dt.time(13, 45, 10), ("formula", 12.5), ("formula", "computed ü")],
            [],
            [1e100, 1 << 40, "", ("formula", True), ("formula", ("error", "#DIV/0!")), ("formula", ""), _dt.date(1900, 1, 1),
             _dt.date(1900, 2, 28), _dt.date(1900, 3, 1)],
        ]},
        {"name": "Zweites Blatt ü", "origin": (5, 2), "rows": [["a", "b"], [1, 2]]},
        {"name": "Strings", "rows": [[s] for s in many] + [[long_ascii, long_wide, "text"]]},
        {"name": "Empty", "rows": []},
        {"name": "Tall", "rows": [[i, "r%d" % i] if i % 5 else [] for i in range(100)]},
    ]
    stream = workbook_stream(sheets)
    if stream != workbook_stream(sheets):
        return fail("not deterministic")
    problems = check_structure(stream)
    if problems:
        return fail("structure: %r" % problems[:5])
    recs = walk_records(stream)
    ids = [r[1] for r in recs]
    if CONTINUE not in ids:
        return fail("expected SST CONTINUE records")
    glob_ids = ids[:ids.index(EOF)]
    if glob_ids.count(FONT) < 5 or glob_ids.count(XF) != 19 or glob_ids.count(BOUNDSHEET) != len(sheets):
        return fail("globals record counts wrong")
    strings, _ = _read_sst(recs)
    if long_ascii not in strings or long_wide not in strings or "Grüße ∑ 日本語" not in strings:
        return fail("own SST reader does not recover the strings")

    blob = write_xls(sheets, props={2: "Übersicht é", 4: "Ann"})
    if ole2.read_cfb(blob)["Workbook"] != stream:
        return fail("Workbook stream not stored verbatim")
    book = xlrd.open_workbook(file_contents=blob)
    if book.sheet_names() != [s["name"] for s in sheets]:
        return fail("xlrd sheet names %r" % book.sheet_names())
    if book.datemode != 0 or book.codepage != 1200:
        return fail("xlrd datemode/codepage")
    sh = book.sheet_by_index(0)
    T, N, D, B, E, EMPTY = xlrd.XL_CELL_TEXT, xlrd.XL_CELL_NUMBER, xlrd.XL_CELL_DATE, xlrd.XL_CELL_BOOLEAN, xlrd.XL_CELL_ERROR, xlrd.XL_CELL_EMPTY
    expect0 = [(T, "text"), (T, "Grüße ∑ 日本語"), (N, 42.0), (N, -7.0), (N, 3.25), (N, 0.1), (B, 1), (B, 0)]
    got0 = [(sh.cell_type(0, c), sh.cell_value(0, c)) for c in range(8)]
    if got0 != expect0:
        return fail("xlrd row 0: %r" % got0)
    if sh.cell_type(1, 0) != EMPTY or (sh.cell_type(1, 1), sh.cell_value(1, 1)) != (E, 0x07) or (sh.cell_type(1, 2), sh.cell_value(1, 2)) != (E, 0x2A):
        return fail("xlrd row 1 errors")
    if sh.cell_type(1, 3) != D or xlrd.xldate_as_tuple(sh.cell_value(1, 3), book.datemode) != (2024, 2, 29, 0, 0, 0):
        return fail("xlrd date cell: %r %r" % (sh.cell_type(1, 3), sh.cell_value(1, 3)))
    if sh.cell_type(1, 4) != D or xlrd.xldate_as_tuple(sh.cell_value(1, 4), book.datemode) != (2023, 12, 31, 23, 59, 58):
        return fail("xlrd datetime cell")
    if sh.cell_type(1, 5) != D or xlrd.xldate_as_tuple(sh.cell_value(1, 5), book.datemode) != (0, 0, 0, 13, 45, 10):
        return fail("xlrd time cell")
    if (sh.cell_type(1, 6), sh.cell_value(1, 6)) != (N, 12.5) or (sh.cell_type(1, 7), sh.cell_value(1, 7)) != (T, "computed ü"):
        return fail("xlrd formula cells: %r %r" % (sh.cell_value(1, 6), sh.cell_value(1, 7)))
    got3 = [(sh.cell_type(3, c), sh.cell_value(3, c)) for c in range(6)]
    if got3 != [(N, 1e100), (N, float(1 << 40)), (T, ""), (B, 1), (E, 0x07), (T, "")]:
        return fail("xlrd row 3: %r" % got3)
    # 1900 date system incl. the phantom leap day: serials 1, 59, 61
    if [sh.cell_value(3, c) for c in (6, 7, 8)] != [1.0, 59.0, 61.0]:
        return fail("1900 date serials: %r" % [sh.cell_value(3, c) for c in (6, 7, 8)])
    if xlrd.xldate_as_tuple(sh.cell_value(3, 8), 0)[:3] != (1900, 3, 1):
        return fail("1900-03-01 does not round trip")
    sh = book.sheet_by_index(1)
    if (sh.nrows, sh.ncols) != (7, 4) or sh.cell_value(5, 2) != "a" or sh.cell_value(6, 3) != 2.0 or sh.cell_type(0, 0) != EMPTY:
        return fail("xlrd origin sheet: %r" % ((sh.nrows, sh.ncols),))
    sh = book.sheet_by_index(2)
    if [sh.cell_value(i, 0) for i in range(700)] != many:
        return fail("xlrd SST strings across CONTINUE differ")
    if sh.cell_value(700, 0) != long_ascii or sh.cell_value(700, 1) != long_wide or sh.cell_value(700, 2) != "text":
        return fail("xlrd long strings split inside CONTINUE differ")
    sh = book.sheet_by_index(3)
    if (sh.nrows, sh.ncols) != (0, 0):
        return fail("xlrd empty sheet has cells")
    sh = book.sheet_by_index(4)
    if sh.nrows != 100 or sh.cell_value(99, 1) != "r99" or sh.cell_type(95, 0) != EMPTY or sh.cell_value(33, 0) != 33.0:
        return fail("xlrd tall sheet")

    # 1904 date system
    book = xlrd.open_workbook(file_contents=write_xls([{"name": "d", "rows": [[_dt.date(2024, 2, 29), _dt.datetime(1999, 1, 2, 3, 4, 5)]]}], date_1904=True))
    sh = book.sheet_by_index(0)
    if book.datemode != 1 or xlrd.xldate_as_tuple(sh.cell_value(0, 0), 1) != (2024, 2, 29, 0, 0, 0) \
            or xlrd.xldate_as_tuple(sh.cell_value(0, 1), 1) != (1999, 1, 2, 3, 4, 5):
        return fail("1904 date system")

    # encrypted variants: FILEPASS at several positions
    for at in (0, 1, 3):
        enc_stream = workbook_stream(sheets[:2], filepass_at=at)
        erecs = walk_records(enc_stream)
        if erecs[at + 1][1] != FILEPASS or len(erecs[at + 1][2]) != 54:
            return fail("FILEPASS not at record index %d" % at)
        if check_structure(enc_stream):
            return fail("structure of encrypted variant: %r" % check_structure(enc_stream)[:3])
        try:
            xlrd.open_workbook(file_contents=write_xls(sheets[:2], filepass_at=at))
        except xlrd.XLRDError as e:
            if "encrypted" not in str(e).lower():
                return fail("xlrd raised something else: %r" % (e,))
        else:
            return fail("xlrd did not refuse the FILEPASS workbook (at=%d)" % at)
    if verbose:
        print("biff8 selfcheck ok (%d records, %d CONTINUE)" % (len(recs), ids.count(CONTINUE)))
    return True


if __name__ == "__main__":
    import sys
    sys.exit(0 if selfcheck(verbose=True) else 1)
