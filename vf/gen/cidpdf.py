"""PDFs with a Type0/CIDFontType2 font whose ToUnicode CMap maps some glyph ids to U+0000 and whose FontFile2 is a synthetic
TrueType program (head, maxp, loca, glyf only) — the shape the library's digit-recovery patch of pypdf reacts to."""
from __future__ import annotations

import struct
import zlib

# (width, height) at 2048 units per em, copied from the feature table the recovery compares with (digit -> dims)
DIGIT_DIMS = {0: (956, 1497), 1: (540, 1472), 2: (971, 1472), 3: (960, 1498), 4: (1014, 1466), 5: (972, 1471), 6: (968, 1497), 7: (949, 1447), 8: (966, 1497), 9: (964, 1497)}


def ttf(glyph_dims: list[tuple[int, int]], units_per_em: int = 2048) -> bytes:
    """glyph i has bounding box (0,0)-(w,h)."""
    n = len(glyph_dims)
    head = bytearray(54)
    struct.pack_into(">IIII", head, 0, 0x00010000, 0x00010000, 0, 0x5F0F3CF5)
    struct.pack_into(">H", head, 18, units_per_em)
    struct.pack_into(">h", head, 50, 1)
    maxp = struct.pack(">IH", 0x00010000, n) + bytes(26)
    glyf = b""
    offsets = []
    for w, h in glyph_dims:
        offsets.append(len(glyf))
        glyf += struct.pack(">hhhhh", 1, 0, 0, w, h) + bytes(2)
    offsets.append(len(glyf))
    loca = b"".join(struct.pack(">I", o) for o in offsets)
    tables = [(b"glyf", glyf), (b"head", bytes(head)), (b"loca", loca), (b"maxp", maxp)]
    out = struct.pack(">IHHHH", 0x00010000, len(tables), 64, 2, 0)
    pos = 12 + 16 * len(tables)
    body = b""
    for tag, data in tables:
        out += tag + struct.pack(">III", zlib.crc32(data), pos + len(body), len(data))
        body += data + bytes(-len(data) % 4)
    return out + body


def cid_pdf(font: bytes, shown: list[int], to_unicode: dict[int, str | None], *, pages: int = 1, font_name: str = "VFCID") -> bytes:
    """`shown`: glyph ids drawn on each page (2-byte CIDs, Identity-H). `to_unicode[gid]` = character, or None for U+0000."""
    bf = "".join(f"<{g:04X}> <{0 if c is None else ord(c):04X}>\n" for g, c in sorted(to_unicode.items()))
    cmap = ("/CIDInit /ProcSet findresource begin\n12 dict begin\nbegincmap\n/CIDSystemInfo << /Registry (Adobe) /Ordering (UCS) /Supplement 0 >> def\n"
            "/CMapName /Adobe-Identity-UCS def\n/CMapType 2 def\n1 begincodespacerange\n<0000> <FFFF>\nendcodespacerange\n"
            f"{len(to_unicode)} beginbfchar\n{bf}endbfchar\nendcmap\nCMapName currentdict /CMap defineresource pop\nend\nend\n").encode()
    content = b"BT /F1 12 Tf 72 700 Td <" + "".join(f"{g:04X}" for g in shown).encode() + b"> Tj ET"
    objs: dict[int, bytes] = {
        1: b"<< /Type /Catalog /Pages 2 0 R >>",
        4: b"<< /Type /Font /Subtype /Type0 /BaseFont /%s /Encoding /Identity-H /DescendantFonts [5 0 R] /ToUnicode 8 0 R >>" % font_name.encode(),
        5: b"<< /Type /Font /Subtype /CIDFontType2 /BaseFont /%s /CIDSystemInfo << /Registry (Adobe) /Ordering (Identity) /Supplement 0 >> /FontDescriptor 6 0 R /DW 1000 /CIDToGIDMap /Identity >>" % font_name.encode(),
        6: b"<< /Type /FontDescriptor /FontName /%s /Flags 4 /FontBBox [0 0 1000 1000] /ItalicAngle 0 /Ascent 800 /Descent -200 /CapHeight 700 /StemV 80 /FontFile2 7 0 R >>" % font_name.encode(),
        7: b"<< /Length %d /Length1 %d >>\nstream\n" % (len(font), len(font)) + font + b"\nendstream",
        8: b"<< /Length %d >>\nstream\n" % len(cmap) + cmap + b"\nendstream",
        9: b"<< /Length %d >>\nstream\n" % len(content) + content + b"\nendstream",
    }
    kids = []
    for i in range(pages):
        num = 10 + i
        kids.append(num)
        objs[num] = b"<< /Type /Page /Parent 2 0 R /MediaBox [0 0 612 792] /Resources << /Font << /F1 4 0 R >> >> /Contents 9 0 R >>"
    objs[2] = b"<< /Type /Pages /Kids [" + b" ".join(b"%d 0 R" % k for k in kids) + b"] /Count %d >>" % len(kids)
    out = bytearray(b"%PDF-1.4\n%\xe2\xe3\xcf\xd3\n")
    offs = {}
    for num in sorted(objs):
        offs[num] = len(out)
        out += b"%d 0 obj\n" % num + objs[num] + b"\nendobj\n"
    xref = len(out)
    size = max(objs) + 1
    out += b"xref\n0 %d\n" % size + b"0000000000 65535 f \n"
    for num in range(1, size):
        out += (b"%010d 00000 n \n" % offs[num]) if num in offs else b"0000000000 65535 f \n"
    out += b"trailer\n<< /Size %d /Root 1 0 R >>\nstartxref\n%d\n%%%%EOF\n" % (size, xref)
    return bytes(out)


def digit_font(n_glyphs: int = 40) -> tuple[bytes, dict[int, int]]:
    """A font whose glyphs 10..19 look like the digits 0..9 and 20..29 again like 0..9; the rest are small boxes. -> (font, gid -> digit)"""
    dims = [(300 + 7 * i, 400 + 3 * i) for i in range(n_glyphs)]
    look = {}
    for d in range(10):
        dims[10 + d] = DIGIT_DIMS[d]
        dims[20 + d] = DIGIT_DIMS[d]
        look[10 + d] = d
        look[20 + d] = d
    return ttf(dims), look
