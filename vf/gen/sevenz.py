"""Independent 7z archive writer and mini-reader, written from the format specification (7zFormat.txt, LZMA SDK).

Nothing here is derived from the reader under test.  The writer produces archives the way the specification
describes them (signature header, pack streams at offset 32, then the header or an encoded header); the
mini-reader parses them back and is used as a self-check for the writer.  Everything is deterministic: no clock,
no randomness.

Layout of an archive:

    offset 0   signature header, 32 bytes
    offset 32  pack streams, back to back               (packPos is relative to offset 32)
    then       [pack stream holding the LZMA-compressed header, only when encode_header=True]
    then       "next header": either Header (0x01 ...) or EncodedHeader (0x17 StreamsInfo)

Conventions of the 7z coder graph used below (spec terms): every coder has "in" streams on the packed side
and "out" streams on the unpacked side.  A bind pair (InIndex, OutIndex) says that in-stream InIndex is fed
from out-stream OutIndex.  The in-streams not named in a bind pair are the folder's pack streams; the single
out-stream not named in a bind pair is the folder's unpacked data.
"""

from __future__ import annotations

import io
import lzma
import struct
import zlib
from typing import NamedTuple

# --------------------------------------------------------------------------------------------------------------
# constants from the specification

SIGNATURE = b"7z\xbc\xaf\x27\x1c"
VERSION = b"\x00\x04"
SIGNATURE_HEADER_SIZE = 32

K_END = 0x00
K_HEADER = 0x01
K_ARCHIVE_PROPERTIES = 0x02
K_ADDITIONAL_STREAMS_INFO = 0x03
K_MAIN_STREAMS_INFO = 0x04
K_FILES_INFO = 0x05
K_PACK_INFO = 0x06
K_UNPACK_INFO = 0x07
K_SUBSTREAMS_INFO = 0x08
K_SIZE = 0x09
K_CRC = 0x0A
K_FOLDER = 0x0B
K_CODERS_UNPACK_SIZE = 0x0C
K_NUM_UNPACK_STREAM = 0x0D
K_EMPTY_STREAM = 0x0E
K_EMPTY_FILE = 0x0F
K_ANTI = 0x10
K_NAMES = 0x11
K_CTIME = 0x12
K_ATIME = 0x13
K_MTIME = 0x14
K_ATTRIBUTES = 0x15
K_COMMENT = 0x16
K_ENCODED_HEADER = 0x17
K_START_POS = 0x18
K_DUMMY = 0x19

ID_COPY = b"\x00"
ID_LZMA = b"\x03\x01\x01"
ID_LZMA2 = b"\x21"
ID_AES = b"\x06\xf1\x07\x01"

FILE_ATTRIBUTE_DIRECTORY = 0x10
FILE_ATTRIBUTE_ARCHIVE = 0x20

# 2020-01-01T00:00:00Z as a Windows FILETIME (100 ns ticks since 1601-01-01); fixed so output is reproducible.
FIXED_FILETIME = (1577836800 + 11644473600) * 10_000_000

LZMA_LC, LZMA_LP, LZMA_PB = 3, 0, 2
DICT_SIZE = 1 << 20

METHODS = ("copy", "lzma", "lzma2")
LAYOUTS = ("solid", "per-file", "mixed")

# 7zAES properties: byte0 = numCyclesPower | 0x80 (salt present) | 0x40 (iv present);
# byte1 = (saltSize - saltFlag) << 4 | (ivSize - ivFlag); then salt bytes, then iv bytes.
# Here: 2^19 cycles, no salt, 16-byte IV -- what current 7-Zip releases write.
AES_PROPS = bytes([19 | 0x40, 0x0F]) + bytes(range(0xA0, 0xB0))


class Member(NamedTuple):
    name: str                 # stored verbatim (may be '', absolute, contain '..' or backslashes)
    data: bytes | None        # None => entry has no data stream
    is_dir: bool = False      # directory: EmptyStream set, EmptyFile clear, FILE_ATTRIBUTE_DIRECTORY
    # data == b""                  => empty file          (EmptyStream set, EmptyFile set)
    # data is None and not is_dir  => file without stream (EmptyStream set, EmptyFile clear, no dir attribute)


class EncryptedError(Exception):
    """The archive declares a 7zAES coder; its contents cannot be read without a password."""


# --------------------------------------------------------------------------------------------------------------
# primitive encoders


def number(n: int) -> bytes:
    """7z variable-length UINT64.

    The count of leading 1-bits in the first byte is the count of extra bytes; the remaining low bits of the
    first byte are the most significant bits of the value; the extra bytes hold the rest, little-endian.
    """
    if not 0 <= n < 1 << 64:
        raise ValueError(f"7z number out of range: {n}")
    for extra in range(8):
        if n < 1 << (7 * (extra + 1)):
            lead = (0xFF00 >> extra) & 0xFF          # 'extra' leading one bits
            high = n >> (8 * extra)                  # fits in the 7-extra free bits of the first byte
            low = n & ((1 << (8 * extra)) - 1)
            return bytes([lead | high]) + low.to_bytes(extra, "little")
    return b"\xff" + n.to_bytes(8, "little")


def crc32(data: bytes) -> int:
    return zlib.crc32(data) & 0xFFFFFFFF


def _bits(flags: list[bool]) -> bytes:
    """Bit vector, most significant bit first, zero-padded to a whole byte."""
    out = bytearray((len(flags) + 7) // 8)
    for i, flag in enumerate(flags):
        if flag:
            out[i >> 3] |= 0x80 >> (i & 7)
    return bytes(out)


def _digests(crcs: list[int | None]) -> bytes:
    """Digests structure: AllAreDefined, [defined bit vector], CRC32 of every defined item."""
    defined = [c is not None for c in crcs]
    out = io.BytesIO()
    if all(defined):
        out.write(b"\x01")
    else:
        out.write(b"\x00" + _bits(defined))
    for c in crcs:
        if c is not None:
            out.write(struct.pack("<I", c))
    return out.getvalue()


def _signature_header(next_offset: int, next_size: int, next_crc: int) -> bytes:
    start = struct.pack("<QQI", next_offset, next_size, next_crc)
    return SIGNATURE + VERSION + struct.pack("<I", crc32(start)) + start


def raw_header_archive(header_bytes: bytes, packed: bytes = b"") -> bytes:
    """Wrap arbitrary (possibly hostile) next-header bytes in a well-formed signature header.

    `packed` is placed at offset 32 (so packPos 0 addresses it); the header follows it.  Both CRCs are correct,
    so a reader gets past the envelope and has to cope with whatever `header_bytes` says.
    """
    return _signature_header(len(packed), len(header_bytes), crc32(header_bytes)) + packed + header_bytes


# --------------------------------------------------------------------------------------------------------------
# coders


def _lzma2_dict_code(dict_size: int) -> int:
    """Smallest LZMA2 property byte whose dictionary, (2 | (c & 1)) << (c // 2 + 11), is >= dict_size."""
    for code in range(40):
        if (2 | (code & 1)) << (code // 2 + 11) >= dict_size:
            return code
    return 40  # 4 GiB - 1


def _lzma2_dict_size(code: int) -> int:
    if code > 40:
        raise ValueError(f"bad LZMA2 dictionary code {code}")
    if code == 40:
        return 0xFFFFFFFF
    return (2 | (code & 1)) << (code // 2 + 11)


def _compress(method: str, raw: bytes, dict_size: int | None = None) -> tuple[bytes, bytes | None, bytes]:
    """-> (coder id, coder properties or None, packed bytes)"""
    DICT = dict_size or DICT_SIZE
    if method == "copy":
        return ID_COPY, None, raw
    if method == "lzma":
        props = bytes([(LZMA_PB * 5 + LZMA_LP) * 9 + LZMA_LC]) + struct.pack("<I", DICT)
        filt = {"id": lzma.FILTER_LZMA1, "dict_size": DICT, "lc": LZMA_LC, "lp": LZMA_LP, "pb": LZMA_PB}
        return ID_LZMA, props, lzma.compress(raw, format=lzma.FORMAT_RAW, filters=[filt])
    if method == "lzma2":
        code = _lzma2_dict_code(DICT)
        filt = {"id": lzma.FILTER_LZMA2, "dict_size": _lzma2_dict_size(code),
                "lc": LZMA_LC, "lp": LZMA_LP, "pb": LZMA_PB}
        return ID_LZMA2, bytes([code]), lzma.compress(raw, format=lzma.FORMAT_RAW, filters=[filt])
    raise ValueError(f"unknown method {method!r}")


def _coder(coder_id: bytes, props: bytes | None) -> bytes:
    """Simple coder (one in-stream, one out-stream): flag byte, id, [properties size, properties]."""
    flag = len(coder_id) | (0x20 if props is not None else 0)
    out = bytes([flag]) + coder_id
    if props is not None:
        out += number(len(props)) + props
    return out


class _WFolder(NamedTuple):
    """One folder as the writer sees it."""
    coders: bytes                 # serialized Folder structure
    out_sizes: list[int]          # one unpack size per coder out-stream, in coder order
    packed: bytes                 # the folder's single pack stream
    files: list[bytes]            # the substreams, in order
    crc: int | None               # folder-level CRC of the unpacked data, when declared


def _make_folder(files: list[bytes], method: str, aes_marker: bool, crc: bool, dict_size: int | None = None) -> _WFolder:
    raw = b"".join(files)
    coder_id, props, packed = _compress(method, raw, dict_size)
    # The folder CRC is declared when it is the only place to put it (a single substream); for a folder with
    # several substreams the CRCs go into SubStreamsInfo instead and the folder CRC stays undefined.
    folder_crc = crc32(raw) if crc and len(files) == 1 else None
    if not aes_marker:
        return _WFolder(number(1) + _coder(coder_id, props), [len(raw)], packed, files, folder_crc)
    # Two coders: coder 0 = 7zAES (in 0, out 0), coder 1 = the real coder (in 1, out 1).
    # pack stream -> in 0 [AES] out 0 -> in 1 [real] out 1 -> file data.
    # One bind pair (InIndex 1, OutIndex 0).  NumPackedStreams = 2 ins - 1 bind pair = 1, so no explicit
    # packed-stream index list is written (the spec only writes it when there is more than one).
    # AES works on 16-byte blocks, so the pack stream is padded while out 0 keeps the true compressed size.
    coders = number(2) + _coder(ID_AES, AES_PROPS) + _coder(coder_id, props) + number(1) + number(0)
    padded = packed + bytes(-len(packed) % 16)
    return _WFolder(coders, [len(packed), len(raw)], padded, files, folder_crc)


def _split(streams: list[bytes], layout: str) -> list[list[bytes]]:
    """Group the non-empty file contents into folders."""
    if layout not in LAYOUTS:
        raise ValueError(f"unknown layout {layout!r}")
    if not streams:
        return []
    if layout == "solid":
        return [streams]
    if layout == "per-file":
        return [[s] for s in streams]
    half = (len(streams) + 1) // 2
    return [streams[:half]] + [[s] for s in streams[half:]]


# --------------------------------------------------------------------------------------------------------------
# header sections


def _pack_info(pack_pos: int, sizes: list[int]) -> bytes:
    out = bytes([K_PACK_INFO]) + number(pack_pos) + number(len(sizes))
    out += bytes([K_SIZE]) + b"".join(number(s) for s in sizes)
    return out + bytes([K_END])


def _unpack_info(coders: list[bytes], out_sizes: list[list[int]], crcs: list[int | None]) -> bytes:
    out = bytes([K_UNPACK_INFO, K_FOLDER]) + number(len(coders)) + b"\x00" + b"".join(coders)
    out += bytes([K_CODERS_UNPACK_SIZE]) + b"".join(number(s) for sizes in out_sizes for s in sizes)
    if any(c is not None for c in crcs):
        out += bytes([K_CRC]) + _digests(crcs)
    return out + bytes([K_END])


def _substreams_info(folders: list[_WFolder], crc: bool) -> bytes:
    out = bytes([K_SUBSTREAMS_INFO])
    if any(len(f.files) != 1 for f in folders):          # default is one substream per folder
        out += bytes([K_NUM_UNPACK_STREAM]) + b"".join(number(len(f.files)) for f in folders)
    if any(len(f.files) > 1 for f in folders):           # the last size of each folder is implied
        out += bytes([K_SIZE]) + b"".join(number(len(s)) for f in folders for s in f.files[:-1])
    # digests only for the substreams whose CRC is not already known from the folder level
    unknown = [s for f in folders if not (len(f.files) == 1 and f.crc is not None) for s in f.files]
    if crc and unknown:
        out += bytes([K_CRC]) + _digests([crc32(s) for s in unknown])
    return out + bytes([K_END])


def _property(kind: int, payload: bytes) -> bytes:
    return bytes([kind]) + number(len(payload)) + payload


def _files_info(members: list[Member], with_attributes: bool, with_mtime: bool) -> bytes:
    out = bytes([K_FILES_INFO]) + number(len(members))
    empty_stream = [m.is_dir or not m.data for m in members]
    if any(empty_stream):
        out += _property(K_EMPTY_STREAM, _bits(empty_stream))
        empty_file = [m.data is not None and not m.is_dir for m, e in zip(members, empty_stream) if e]
        if any(empty_file):
            out += _property(K_EMPTY_FILE, _bits(empty_file))
    names = b"".join(m.name.encode("utf-16-le", "surrogatepass") + b"\x00\x00" for m in members)
    out += _property(K_NAMES, b"\x00" + names)
    if with_mtime:
        out += _property(K_MTIME, b"\x01\x00" + struct.pack("<Q", FIXED_FILETIME) * len(members))
    if with_attributes:
        attrs = [FILE_ATTRIBUTE_DIRECTORY if m.is_dir else FILE_ATTRIBUTE_ARCHIVE for m in members]
        out += _property(K_ATTRIBUTES, b"\x01\x00" + b"".join(struct.pack("<I", a) for a in attrs))
    return out + bytes([K_END])


# --------------------------------------------------------------------------------------------------------------
# writer


def write_7z(members: list[Member], *, method: str = "copy", layout: str = "solid",
             encode_header: bool = False, aes_marker: bool = False, aes_header: bool | str = False,
             with_attributes: bool = True, with_mtime: bool = True, crc: bool = True, declared_sizes: dict | None = None, dict_size: int | None = None) -> bytes:
    """Serialize `members` into a 7z archive.  See the module docstring for the byte layout.

    layout: "solid"    one folder holding every non-empty file as a substream
            "per-file" one folder and one pack stream per non-empty file
            "mixed"    folder 0 holds the first half (rounded up) of the non-empty files, the rest get one each
    aes_marker: every file folder declares a 7zAES coder in front of the real coder.  The bytes are not really
            encrypted; this only exercises "is this archive encrypted?" detection.  The folder that holds an
            encoded header is never marked, which matches 7-Zip without header encryption.
    An empty `members` list gives the canonical empty archive: a signature header with NextHeaderSize 0.
    """
    if method not in METHODS:
        raise ValueError(f"unknown method {method!r}")
    members = [Member(*m) for m in members]
    for m in members:
        if "\x00" in m.name:
            raise ValueError("a NUL inside a name cannot be represented in the Names property")
        if m.is_dir and m.data is not None:
            raise ValueError("a directory entry cannot carry data")
    if not members:
        return _signature_header(0, 0, 0)

    streams = [m.data for m in members if m.data and not m.is_dir]
    folders = [_make_folder(files, method, aes_marker, crc, dict_size) for files in _split(streams, layout)]
    packed = b"".join(f.packed for f in folders)
    if declared_sizes:
        # forged header: folder i declares another unpack size than its stream really has (the packed bytes stay as they are)
        folders = [f._replace(out_sizes=f.out_sizes[:-1] + [declared_sizes[i]], crc=None) if i in declared_sizes else f for i, f in enumerate(folders)]

    header = bytes([K_HEADER])
    if folders:
        header += bytes([K_MAIN_STREAMS_INFO])
        header += _pack_info(0, [len(f.packed) for f in folders])
        header += _unpack_info([f.coders for f in folders], [f.out_sizes for f in folders], [f.crc for f in folders])
        header += _substreams_info(folders, crc)
        header += bytes([K_END])
    header += _files_info(members, with_attributes, with_mtime)
    header += bytes([K_END])

    if not encode_header:
        return raw_header_archive(header, packed)

    # The header goes into one more pack stream behind the file streams; the next header becomes
    # kEncodedHeader followed by a StreamsInfo that describes that single LZMA folder.
    coder_id, props, header_packed = _compress("lzma", header)
    if aes_header:
        # 7z -mhe: the header folder is LZMA then 7zAES; the pack stream is ciphertext (emulated by a keystream XOR:
        # nobody without the key can read the file list), padded to the AES block size.
        import hashlib
        ks = b"".join(hashlib.sha256(b"vf-7z-mhe" + i.to_bytes(4, "little")).digest() for i in range(len(header_packed) // 32 + 2))
        cipher = bytes(a ^ b for a, b in zip(header_packed + bytes(-len(header_packed) % 16), ks))
        encoded = bytes([K_ENCODED_HEADER])
        encoded += _pack_info(len(packed), [len(cipher)])
        if aes_header == "7zip":
            # 7-Zip's own order: coder 0 = LZMA (main coder), coder 1 = 7zAES; bind pair InIndex 0 <- OutIndex 1.
            coders = number(2) + _coder(coder_id, props) + _coder(ID_AES, AES_PROPS) + number(0) + number(1)
            encoded += _unpack_info([coders], [[len(header), len(header_packed)]], [crc32(header)])
        else:
            coders = number(2) + _coder(ID_AES, AES_PROPS) + _coder(coder_id, props) + number(1) + number(0)
            encoded += _unpack_info([coders], [[len(header_packed), len(header)]], [crc32(header)])
        encoded += bytes([K_END])
        return raw_header_archive(encoded, packed + cipher)
    encoded = bytes([K_ENCODED_HEADER])
    encoded += _pack_info(len(packed), [len(header_packed)])
    encoded += _unpack_info([number(1) + _coder(coder_id, props)], [[len(header)]], [crc32(header)])
    encoded += bytes([K_END])
    return raw_header_archive(encoded, packed + header_packed)


# --------------------------------------------------------------------------------------------------------------
# mini-reader


class _Cursor:
    """Bounds-checked reader over a bytes object; every overrun is a ValueError."""

    def __init__(self, data: bytes):
        self.data = data
        self.pos = 0

    def left(self) -> int:
        return len(self.data) - self.pos

    def take(self, n: int) -> bytes:
        if n < 0 or n > self.left():
            raise ValueError(f"truncated: need {n} bytes at {self.pos}, have {self.left()}")
        self.pos += n
        return self.data[self.pos - n:self.pos]

    def u8(self) -> int:
        return self.take(1)[0]

    def u32(self) -> int:
        return struct.unpack("<I", self.take(4))[0]

    def u64(self) -> int:
        return struct.unpack("<Q", self.take(8))[0]

    def number(self) -> int:
        first = self.u8()
        extra = 0
        while extra < 8 and first & (0x80 >> extra):
            extra += 1
        low = int.from_bytes(self.take(extra), "little")
        high = first & (0xFF >> (extra + 1)) if extra < 8 else 0
        return (high << (8 * extra)) | low

    def count(self, what: str, min_item_bytes: int = 1) -> int:
        """A count of items that each occupy at least `min_item_bytes`; rejects counts the input cannot hold."""
        n = self.number()
        if n * min_item_bytes > self.left():
            raise ValueError(f"{what}: count {n} exceeds the remaining {self.left()} bytes")
        return n

    def bits(self, n: int) -> list[bool]:
        raw = self.take((n + 7) // 8)
        return [bool(raw[i >> 3] & (0x80 >> (i & 7))) for i in range(n)]

    def optional_bits(self, n: int) -> list[bool]:
        """AllAreDefined byte followed by a bit vector only when it is zero."""
        if self.u8():
            return [True] * n
        return self.bits(n)

    def digests(self, n: int) -> list[int | None]:
        defined = self.optional_bits(n)
        return [self.u32() if d else None for d in defined]


class _Coder(NamedTuple):
    id: bytes
    props: bytes
    num_in: int
    num_out: int


class _RFolder:
    def __init__(self) -> None:
        self.coders: list[_Coder] = []
        self.bind_pairs: list[tuple[int, int]] = []      # (in index, out index)
        self.packed_ins: list[int] = []                  # in-stream indices fed from pack streams
        self.out_sizes: list[int] = []
        self.crc: int | None = None
        self.num_substreams = 1
        self.sub_sizes: list[int] = []
        self.sub_crcs: list[int | None] = []

    @property
    def encrypted(self) -> bool:
        return any(c.id == ID_AES for c in self.coders)

    def main_out(self) -> int:
        bound = {o for _, o in self.bind_pairs}
        free = [o for o in range(sum(c.num_out for c in self.coders)) if o not in bound]
        if len(free) != 1:
            raise ValueError("folder must have exactly one unbound out-stream")
        return free[0]

    def unpack_size(self) -> int:
        return self.out_sizes[self.main_out()]


class _Streams:
    def __init__(self) -> None:
        self.pack_pos = 0
        self.pack_sizes: list[int] = []
        self.folders: list[_RFolder] = []


def _read_folder(c: _Cursor) -> _RFolder:
    f = _RFolder()
    for _ in range(c.count("coders", 2)):
        flag = c.u8()
        if flag & 0xC0:
            raise ValueError("reserved coder flag bits set")
        coder_id = c.take(flag & 0x0F)
        num_in, num_out = (c.count("in-streams", 0), c.count("out-streams", 0)) if flag & 0x10 else (1, 1)
        props = c.take(c.number()) if flag & 0x20 else b""
        f.coders.append(_Coder(coder_id, props, num_in, num_out))
    if not f.coders:
        raise ValueError("folder without coders")
    total_in = sum(k.num_in for k in f.coders)
    total_out = sum(k.num_out for k in f.coders)
    if total_out < 1 or total_in < total_out - 1 or max(total_in, total_out) > 64:
        raise ValueError("implausible coder stream counts")
    for _ in range(total_out - 1):
        pair = (c.number(), c.number())
        if pair[0] >= total_in or pair[1] >= total_out:
            raise ValueError("bind pair index out of range")
        f.bind_pairs.append(pair)
    num_packed = total_in - (total_out - 1)
    if num_packed == 1:
        bound = {i for i, _ in f.bind_pairs}
        free = [i for i in range(total_in) if i not in bound]
        if len(free) != 1:
            raise ValueError("cannot identify the packed in-stream")
        f.packed_ins = free
    else:
        f.packed_ins = [c.number() for _ in range(num_packed)]
        if any(i >= total_in for i in f.packed_ins):
            raise ValueError("packed stream index out of range")
    return f


def _read_streams_info(c: _Cursor) -> _Streams:
    s = _Streams()
    kind = c.number()
    if kind == K_PACK_INFO:
        s.pack_pos = c.number()
        n = c.count("pack streams", 0)
        kind = c.number()
        if kind == K_SIZE:
            if n > c.left():
                raise ValueError("pack stream count exceeds input")
            s.pack_sizes = [c.number() for _ in range(n)]
            kind = c.number()
        elif n:
            raise ValueError("pack sizes missing")
        if kind == K_CRC:
            c.digests(n)
            kind = c.number()
        if kind != K_END:
            raise ValueError(f"unexpected id {kind:#x} in PackInfo")
        kind = c.number()
    if kind == K_UNPACK_INFO:
        if c.number() != K_FOLDER:
            raise ValueError("kFolder expected")
        n = c.count("folders", 3)
        if c.u8() != 0:
            raise ValueError("external folder definitions are not supported")
        s.folders = [_read_folder(c) for _ in range(n)]
        if c.number() != K_CODERS_UNPACK_SIZE:
            raise ValueError("kCodersUnpackSize expected")
        for f in s.folders:
            f.out_sizes = [c.number() for _ in range(sum(k.num_out for k in f.coders))]
            f.main_out()
        kind = c.number()
        if kind == K_CRC:
            for f, d in zip(s.folders, c.digests(n)):
                f.crc = d
            kind = c.number()
        if kind != K_END:
            raise ValueError(f"unexpected id {kind:#x} in UnpackInfo")
        kind = c.number()
    if kind == K_SUBSTREAMS_INFO:
        kind = c.number()
        if kind == K_NUM_UNPACK_STREAM:
            for f in s.folders:
                f.num_substreams = c.number()
            kind = c.number()
        have_sizes = kind == K_SIZE
        for f in s.folders:
            if f.num_substreams == 0:
                continue
            if f.num_substreams > 1 and not have_sizes:
                raise ValueError("substream sizes missing")
            if f.num_substreams - 1 > c.left():
                raise ValueError("substream count exceeds input")
            sizes = [c.number() for _ in range(f.num_substreams - 1)]
            if sum(sizes) > f.unpack_size():
                raise ValueError("substream sizes exceed the folder size")
            f.sub_sizes = sizes + [f.unpack_size() - sum(sizes)]
        if have_sizes:
            kind = c.number()
        need = [f for f in s.folders if not (f.num_substreams == 1 and f.crc is not None)]
        if kind == K_CRC:
            if sum(f.num_substreams for f in need) > 8 * c.left() + 8:
                raise ValueError("digest count exceeds input")
            ds = iter(c.digests(sum(f.num_substreams for f in need)))
            for f in need:
                f.sub_crcs = [next(ds) for _ in range(f.num_substreams)]
            kind = c.number()
        if kind != K_END:
            raise ValueError(f"unexpected id {kind:#x} in SubStreamsInfo")
        kind = c.number()
    if kind != K_END:
        raise ValueError(f"unexpected id {kind:#x} in StreamsInfo")
    for f in s.folders:
        if not f.sub_sizes and f.num_substreams == 1:
            f.sub_sizes = [f.unpack_size()]
        if not f.sub_crcs:
            f.sub_crcs = [f.crc] if f.num_substreams == 1 else [None] * f.num_substreams
    if sum(len(f.packed_ins) for f in s.folders) > len(s.pack_sizes):
        raise ValueError("folders need more pack streams than PackInfo declares")
    return s


def _decode_coder(coder: _Coder, data: bytes, out_size: int) -> bytes:
    # A dictionary larger than the output is never referenced, so hostile dictionary sizes cost nothing.
    def window(declared: int) -> int:
        return max(4096, min(declared, out_size))

    try:
        if coder.id == ID_COPY:
            out = data
        elif coder.id == ID_LZMA:
            if len(coder.props) != 5 or coder.props[0] >= 9 * 5 * 5:
                raise ValueError("bad LZMA properties")
            lc, rest = coder.props[0] % 9, coder.props[0] // 9
            filt = {"id": lzma.FILTER_LZMA1, "lc": lc, "lp": rest % 5, "pb": rest // 5,
                    "dict_size": window(struct.unpack("<I", coder.props[1:])[0])}
            out = lzma.LZMADecompressor(lzma.FORMAT_RAW, filters=[filt]).decompress(data, max_length=out_size)
        elif coder.id == ID_LZMA2:
            if len(coder.props) != 1:
                raise ValueError("bad LZMA2 properties")
            filt = {"id": lzma.FILTER_LZMA2, "dict_size": window(_lzma2_dict_size(coder.props[0]))}
            out = lzma.LZMADecompressor(lzma.FORMAT_RAW, filters=[filt]).decompress(data, max_length=out_size)
        elif coder.id == ID_AES:
            raise EncryptedError("7zAES coder")
        else:
            raise ValueError(f"unsupported coder {coder.id.hex()}")
    except (lzma.LZMAError, EOFError, MemoryError) as exc:
        raise ValueError(f"decoder failed: {exc}") from exc
    if len(out) != out_size:
        raise ValueError(f"coder produced {len(out)} bytes, header says {out_size}")
    return out


def _decode_folder(f: _RFolder, pack_streams: list[bytes]) -> bytes:
    """Walk the coder graph from the unbound out-stream back to the pack streams (simple coders only)."""
    if any(k.num_in != 1 or k.num_out != 1 for k in f.coders):
        raise ValueError("coders with several in/out streams are not supported")

    def out_stream(index: int, depth: int) -> bytes:
        if depth > len(f.coders):
            raise ValueError("cycle in bind pairs")
        sources = [o for i, o in f.bind_pairs if i == index]     # coder k owns in k and out k
        if len(sources) > 1:
            raise ValueError("in-stream bound twice")
        if sources:
            feed = out_stream(sources[0], depth + 1)
        elif index in f.packed_ins:
            feed = pack_streams[f.packed_ins.index(index)]
        else:
            raise ValueError("in-stream has no source")
        return _decode_coder(f.coders[index], feed, f.out_sizes[index])

    data = out_stream(f.main_out(), 0)
    if f.crc is not None and crc32(data) != f.crc:
        raise ValueError("folder CRC mismatch")
    return data


def _folder_outputs(data: bytes, s: _Streams) -> list[bytes]:
    """Unpacked bytes of every folder; pack streams are assigned to folders in order."""
    pos = SIGNATURE_HEADER_SIZE + s.pack_pos
    chunks = []
    for size in s.pack_sizes:
        if pos + size > len(data):
            raise ValueError("pack stream lies outside the file")
        chunks.append(data[pos:pos + size])
        pos += size
    outputs, first = [], 0
    for f in s.folders:
        outputs.append(_decode_folder(f, chunks[first:first + len(f.packed_ins)]))
        first += len(f.packed_ins)
    return outputs


class _FileEntry:
    def __init__(self) -> None:
        self.name = ""
        self.empty_stream = False
        self.empty_file = False
        self.attributes: int | None = None
        self.mtime: int | None = None


def _read_files_info(c: _Cursor) -> list[_FileEntry]:
    # every entry needs at least the two-byte terminator of its name
    files = [_FileEntry() for _ in range(c.count("files", 2))]
    n = len(files)
    have_names = False
    while True:
        kind = c.number()
        if kind == K_END:
            break
        p = _Cursor(c.take(c.number()))
        if kind == K_EMPTY_STREAM:
            for f, bit in zip(files, p.bits(n)):
                f.empty_stream = bit
        elif kind == K_EMPTY_FILE:
            empties = [f for f in files if f.empty_stream]
            for f, bit in zip(empties, p.bits(len(empties))):
                f.empty_file = bit
        elif kind == K_NAMES:
            if p.u8() != 0:
                raise ValueError("external names are not supported")
            raw = p.take(p.left())
            if len(raw) % 2:
                raise ValueError("odd-sized names block")
            units = struct.unpack(f"<{len(raw) // 2}H", raw)
            if n and (not units or units[-1] != 0):
                raise ValueError("names block is not NUL-terminated")
            names, start = [], 0
            for i, u in enumerate(units):
                if u == 0:
                    names.append(raw[2 * start:2 * i].decode("utf-16-le", "surrogatepass"))
                    start = i + 1
            if len(names) != n:
                raise ValueError(f"{len(names)} names for {n} files")
            for f, name in zip(files, names):
                f.name = name
            have_names = True
        elif kind in (K_CTIME, K_ATIME, K_MTIME, K_ATTRIBUTES):
            defined = p.optional_bits(n)
            if p.u8() != 0:
                raise ValueError("external property data is not supported")
            for f, d in zip(files, defined):
                if not d:
                    continue
                if kind == K_ATTRIBUTES:
                    f.attributes = p.u32()
                elif kind == K_MTIME:
                    f.mtime = p.u64()
                else:
                    p.u64()
        # kAnti, kStartPos, kDummy and unknown properties are skipped: their size is known
    if n and not have_names:
        raise ValueError("files without a Names property")
    return files


def _parse(data: bytes) -> tuple[_Streams, list[_FileEntry]]:
    """Signature header -> (main streams info, file entries), resolving encoded headers on the way."""
    if len(data) < SIGNATURE_HEADER_SIZE or data[:6] != SIGNATURE:
        raise ValueError("not a 7z archive")
    if data[6] != 0:
        raise ValueError(f"unsupported major version {data[6]}")
    start_crc, = struct.unpack_from("<I", data, 8)
    if crc32(data[12:32]) != start_crc:
        raise ValueError("start header CRC mismatch")
    offset, size, next_crc = struct.unpack_from("<QQI", data, 12)
    if size == 0:
        return _Streams(), []
    begin = SIGNATURE_HEADER_SIZE + offset
    if begin + size > len(data):
        raise ValueError("next header lies outside the file")
    header = data[begin:begin + size]
    if crc32(header) != next_crc:
        raise ValueError("next header CRC mismatch")

    for _ in range(4):                                   # an encoded header may itself be encoded
        c = _Cursor(header)
        kind = c.number()
        if kind != K_ENCODED_HEADER:
            break
        s = _read_streams_info(c)
        if not s.folders:
            raise ValueError("encoded header without a folder")
        if any(f.encrypted for f in s.folders):
            raise EncryptedError("the header itself is encrypted")
        header = _folder_outputs(data, s)[0]
    else:
        raise ValueError("encoded headers nested too deeply")
    if kind != K_HEADER:
        raise ValueError(f"unexpected id {kind:#x} at the start of the header")

    streams, files = _Streams(), []
    kind = c.number()
    if kind == K_ARCHIVE_PROPERTIES:
        while c.number() != K_END:
            c.take(c.number())
        kind = c.number()
    if kind == K_ADDITIONAL_STREAMS_INFO:
        _read_streams_info(c)
        kind = c.number()
    if kind == K_MAIN_STREAMS_INFO:
        streams = _read_streams_info(c)
        kind = c.number()
    if kind == K_FILES_INFO:
        files = _read_files_info(c)
        kind = c.number()
    if kind != K_END:
        raise ValueError(f"unexpected id {kind:#x} in Header")
    return streams, files


def is_encrypted(data: bytes) -> bool:
    """True when any folder (or the encoded header) declares a 7zAES coder.  ValueError on malformed input."""
    try:
        streams, _ = _parse(data)
    except EncryptedError:
        return True
    return any(f.encrypted for f in streams.folders)


def read_7z(data: bytes) -> list[tuple[str, bytes | None, bool]]:
    """(name, data or None, is_dir) for every entry in header order.

    is_dir comes from FILE_ATTRIBUTE_DIRECTORY when the entry has attributes; without attributes the format's
    own rule applies: an entry with EmptyStream set and EmptyFile clear is a directory (so a "file without
    stream" written with with_attributes=False reads back as a directory -- the format cannot tell them apart).
    """
    try:
        streams, files = _parse(data)
        if any(f.encrypted for f in streams.folders):
            raise EncryptedError("a folder declares the 7zAES coder")
        substreams: list[bytes] = []
        for f, out in zip(streams.folders, _folder_outputs(data, streams)):
            pos = 0
            for size, want in zip(f.sub_sizes, f.sub_crcs):
                piece = out[pos:pos + size]
                pos += size
                if want is not None and crc32(piece) != want:
                    raise ValueError("substream CRC mismatch")
                substreams.append(piece)
        result: list[tuple[str, bytes | None, bool]] = []
        taken = 0
        for f in files:
            if f.attributes is not None:
                is_dir = bool(f.attributes & FILE_ATTRIBUTE_DIRECTORY)
            else:
                is_dir = f.empty_stream and not f.empty_file
            if f.empty_stream:
                result.append((f.name, b"" if f.empty_file else None, is_dir))
                continue
            if taken >= len(substreams):
                raise ValueError("more files with data than substreams")
            result.append((f.name, substreams[taken], is_dir))
            taken += 1
        if taken != len(substreams):
            raise ValueError("more substreams than files with data")
        return result
    except (struct.error, IndexError, OverflowError, UnicodeError) as exc:
        raise ValueError(f"malformed 7z: {exc!r}") from exc


# --------------------------------------------------------------------------------------------------------------
# self-check


def _noise(n: int, seed: int) -> bytes:
    """Deterministic, poorly compressible bytes (64-bit LCG, top byte of each state)."""
    out, x = bytearray(n), seed
    for i in range(n):
        x = (x * 6364136223846793005 + 1442695040888963407) & 0xFFFFFFFFFFFFFFFF
        out[i] = x >> 56
    return bytes(out)


def sample_members() -> list[Member]:
    """Four non-empty files of different sizes (one > 64 KiB and compressible, one with a unicode name that
    needs a UTF-16 surrogate pair), an empty file, a directory and a file without stream, interleaved."""
    big = b"".join(b"line %06d: the quick brown fox jumps over the lazy dog\n" % i for i in range(4000))
    assert len(big) > 64 * 1024
    return [
        Member("small.txt", b"hello 7z\n"),
        Member("docs", None, True),
        Member("docs/medium.bin", _noise(5000, 1)),
        Member("docs/empty.dat", b""),
        Member("ünïcödé/файл-日本語-\U0001f600.txt",
               "über 日本語\n".encode("utf-8") * 37),
        Member("ghost", None),
        Member("logs/big.log", big),
    ]


def _expected(members: list[Member], with_attributes: bool) -> list[tuple[str, bytes | None, bool]]:
    out = []
    for m in members:
        is_dir = m.is_dir if with_attributes else (m.is_dir or m.data is None)
        out.append((m.name, m.data, is_dir))
    return out


def _check_envelope(blob: bytes, encode_header: bool) -> None:
    assert blob[:8] == SIGNATURE + VERSION
    assert struct.unpack_from("<I", blob, 8)[0] == crc32(blob[12:32]), "StartHeaderCRC"
    offset, size, next_crc = struct.unpack_from("<QQI", blob, 12)
    assert 32 + offset + size == len(blob), "next header must end the file"
    header = blob[32 + offset:]
    assert crc32(header) == next_crc, "NextHeaderCRC"
    assert header[0] == (K_ENCODED_HEADER if encode_header else K_HEADER)


def selfcheck() -> bool:
    # number(): boundary values round-trip, and the encodings the spec lists come out byte-exact
    assert number(0) == b"\x00" and number(0x7F) == b"\x7f" and number(0x80) == b"\x80\x80"
    assert number(0x3FFF) == b"\xbf\xff" and number(0x4000) == b"\xc0\x00\x40"
    assert number((1 << 64) - 1) == b"\xff" * 9 and number(1 << 56) == b"\xff" + (1 << 56).to_bytes(8, "little")
    for shift in range(64):
        for n in ((1 << shift) - 1, 1 << shift, (1 << shift) + 1):
            c = _Cursor(number(n))
            assert c.number() == n and c.left() == 0, n

    members = sample_members()
    for method in METHODS:
        for layout in LAYOUTS:
            for encode_header in (False, True):
                tag = (method, layout, encode_header)
                blob = write_7z(members, method=method, layout=layout, encode_header=encode_header)
                assert blob == write_7z(members, method=method, layout=layout, encode_header=encode_header), tag
                _check_envelope(blob, encode_header)
                assert read_7z(blob) == _expected(members, True), tag
                assert not is_encrypted(blob), tag
                if method != "copy":
                    assert len(blob) < sum(len(m.data or b"") for m in members), tag
                # optional sections switched off one at a time
                for kw in ({"with_attributes": False}, {"with_mtime": False}, {"crc": False}):
                    alt = write_7z(members, method=method, layout=layout, encode_header=encode_header, **kw)
                    _check_envelope(alt, encode_header)
                    assert read_7z(alt) == _expected(members, kw.get("with_attributes", True)), (tag, kw)
                # AES marker: detected, never decoded
                aes = write_7z(members, method=method, layout=layout, encode_header=encode_header, aes_marker=True)
                _check_envelope(aes, encode_header)
                assert is_encrypted(aes), tag
                try:
                    read_7z(aes)
                except EncryptedError:
                    pass
                else:
                    raise AssertionError(f"AES marker not reported for {tag}")

    # degenerate member lists
    assert read_7z(write_7z([])) == []
    only_empty = [Member("d", None, True), Member("e", b""), Member("g", None)]
    for layout in LAYOUTS:
        for encode_header in (False, True):
            assert read_7z(write_7z(only_empty, method="lzma", layout=layout, encode_header=encode_header)) \
                == _expected(only_empty, True)
            one = [Member("\\\\abs\\..\\x", b"x" * 17)]
            assert read_7z(write_7z(one, method="lzma2", layout=layout, encode_header=encode_header)) \
                == _expected(one, True)

    # CRCs are really verified by the mini-reader: corrupt one payload byte of a stored archive
    blob = bytearray(write_7z(members, method="copy", layout="mixed"))
    blob[32] ^= 1
    try:
        read_7z(bytes(blob))
    except ValueError:
        pass
    else:
        raise AssertionError("payload corruption not detected")

    # hostile input only ever raises ValueError / EncryptedError: truncations, and every header byte mutated
    # and re-wrapped with correct envelope CRCs (raw_header_archive)
    small = [Member("a", b"abc"), Member("d", None, True), Member("b", b"defgh"), Member("e", b"")]
    for kw in ({"method": "copy", "layout": "solid"}, {"method": "lzma", "layout": "mixed"},
               {"method": "copy", "layout": "per-file", "aes_marker": True}):
        blob = write_7z(small, **kw)
        offset, = struct.unpack_from("<Q", blob, 12)
        packed, header = blob[32:32 + offset], blob[32 + offset:]
        assert raw_header_archive(header, packed) == blob
        hostile = [blob[:n] for n in range(len(blob))]
        hostile += [raw_header_archive(header[:n], packed) for n in range(1, len(header))]
        for i in range(len(header)):
            for v in (0x00, 0x01, 0x7F, 0x80, 0xFF, header[i] ^ 0x01, header[i] ^ 0x10):
                hostile.append(raw_header_archive(header[:i] + bytes([v]) + header[i + 1:], packed))
        for bad in hostile:
            try:
                read_7z(bad)
            except (ValueError, EncryptedError):
                pass
    huge = bytes([K_HEADER, K_FILES_INFO]) + number((1 << 64) - 1) + bytes([K_END, K_END])
    for bad in (huge, bytes([K_HEADER, K_MAIN_STREAMS_INFO, K_UNPACK_INFO, K_FOLDER]) + number(1 << 40) + b"\x00"):
        try:
            read_7z(raw_header_archive(bad))
        except ValueError:
            pass
        else:
            raise AssertionError("hostile count accepted")
    return True


if __name__ == "__main__":
    print("selfcheck:", selfcheck())
