"""Small inputs built to amplify: (family, magnitude m, variant) -> (bytes, ext, U) where U is the uncompressed input size.

Every family keeps the file (nearly) constant in size while m grows; m only appears as a number inside the file (a repeat
attribute, a declared dimension, a count field), as nesting depth, or as the length of a run of zeros behind a compressor.
"""
from __future__ import annotations

import gzip
import io
import lzma
import struct
import tarfile
import zipfile

from vf.gen import odf as odfgen

FAMILIES: dict[str, dict] = {}


def family(name, ext, variants=(0,), ms=(10, 1000, 100000), note=""):
    def deco(fn):
        FAMILIES[name] = {"fn": fn, "ext": ext, "variants": tuple(variants), "ms": tuple(ms), "note": note}
        return fn
    return deco


def zip_uncompressed(raw: bytes) -> int:
    try:
        return sum(i.file_size for i in zipfile.ZipFile(io.BytesIO(raw)).infolist())
    except Exception:
        return len(raw)


def _zip(parts: dict[str, bytes | str]) -> bytes:
    buf = io.BytesIO()
    with zipfile.ZipFile(buf, "w", zipfile.ZIP_DEFLATED) as z:
        for n, d in parts.items():
            z.writestr(zipfile.ZipInfo(n, date_time=(2024, 3, 1, 12, 0, 0)), d.encode("utf-8") if isinstance(d, str) else d,
                       compress_type=zipfile.ZIP_STORED if n == "mimetype" else zipfile.ZIP_DEFLATED)
    return buf.getvalue()


# ---- ODF -------------------------------------------------------------------------------------------------------
ODS_NS = ('xmlns:office="urn:oasis:names:tc:opendocument:xmlns:office:1.0" xmlns:table="urn:oasis:names:tc:opendocument:xmlns:table:1.0" '
          'xmlns:text="urn:oasis:names:tc:opendocument:xmlns:text:1.0" xmlns:draw="urn:oasis:names:tc:opendocument:xmlns:drawing:1.0" '
          'xmlns:xlink="http://www.w3.org/1999/xlink" xmlns:svg="urn:oasis:names:tc:opendocument:xmlns:svg-compatible:1.0" '
          'xmlns:style="urn:oasis:names:tc:opendocument:xmlns:style:1.0" xmlns:fo="urn:oasis:names:tc:opendocument:xmlns:xsl-fo-compatible:1.0"')


def _ods(rows_xml: str) -> bytes:
    content = (f'<?xml version="1.0" encoding="UTF-8"?><office:document-content {ODS_NS} office:version="1.2"><office:body><office:spreadsheet>'
               f'<table:table table:name="S1">{rows_xml}</table:table></office:spreadsheet></office:body></office:document-content>')
    return odfgen.package("ods", content)


def _cell(v="ZB00001", rep=None):
    r = f' table:number-columns-repeated="{rep}"' if rep else ""
    return f'<table:table-cell office:value-type="string"{r}><text:p>{v}</text:p></table:table-cell>'


def _empty(rep):
    return f'<table:table-cell table:number-columns-repeated="{rep}"/>'


@family("ods-repeat", "ods", variants=("cols", "rows", "both", "gap-cols", "gap-rows", "multi-cols", "multi-gaps"), ms=(10, 1000, 30000, 10**6, 10**9))
def ods_repeat(m, variant):
    if variant == "cols":
        rows = f"<table:table-row>{_cell(rep=m)}</table:table-row>"
    elif variant == "rows":
        rows = f'<table:table-row table:number-rows-repeated="{m}">{_cell()}</table:table-row>'
    elif variant == "both":
        k = max(2, int(m ** 0.5))
        rows = f'<table:table-row table:number-rows-repeated="{k}">{_cell(rep=k)}</table:table-row>'
    elif variant == "multi-cols":    # many value cells in one row, each with its own repeat: the cap has to hold for the row, not per cell
        rows = "<table:table-row>" + "".join(_cell(f"ZM{i:05d}", rep=m) for i in range(200)) + "</table:table-row>"
    elif variant == "multi-gaps":    # many kept gaps in one row
        rows = '<table:table-row table:number-rows-repeated="20">' + "".join(_cell(f"ZM{i:05d}") + _empty(m) for i in range(200)) + _cell("ZB00002") + "</table:table-row>"
    elif variant == "gap-cols":      # an empty run between two values keeps its width
        rows = f'<table:table-row table:number-rows-repeated="50">{_cell("ZB00001")}{_empty(m)}{_cell("ZB00002")}</table:table-row>'
    else:                            # empty rows between two value rows
        rows = (f"<table:table-row>{_cell('ZB00001')}</table:table-row>"
                f'<table:table-row table:number-rows-repeated="{m}"><table:table-cell/></table:table-row><table:table-row>{_cell("ZB00002")}</table:table-row>')
    return _ods(rows)


@family("odt-space-count", "odt", variants=("s", "table-cols"), ms=(10, 1000, 10**6, 10**9))
def odt_space(m, variant):
    if variant == "s":
        body = f'<text:p>ZB00001<text:s text:c="{m}"/>ZB00002</text:p>'
    else:
        body = (f'<table:table table:name="T"><table:table-column table:number-columns-repeated="{m}"/><table:table-row>'
                f'<table:table-cell table:number-columns-repeated="{m}" office:value-type="string"><text:p>ZB00001</text:p></table:table-cell></table:table-row></table:table>')
    content = (f'<?xml version="1.0" encoding="UTF-8"?><office:document-content {ODS_NS} office:version="1.2"><office:body><office:text>{body}</office:text></office:body></office:document-content>')
    return odfgen.package("odt", content)


@family("odf-image-reuse", "odt", ms=(10, 1000, 20000))
def odf_image_reuse(m, variant):
    from vf.gen import imgenc
    img = imgenc.png(200, 200, 3)
    frames = "".join(f'<text:p><draw:frame draw:name="i{i}" svg:width="1cm" svg:height="1cm"><draw:image xlink:href="Pictures/a.png"/></draw:frame></text:p>' for i in range(m))
    content = (f'<?xml version="1.0" encoding="UTF-8"?><office:document-content {ODS_NS} office:version="1.2"><office:body><office:text>{frames}</office:text></office:body></office:document-content>')
    return odfgen.package("odt", content, media={"Pictures/a.png": img})


# ---- OOXML -----------------------------------------------------------------------------------------------------
CT = ('<?xml version="1.0" encoding="UTF-8"?><Types xmlns="http://schemas.openxmlformats.org/package/2006/content-types"><Default Extension="rels" '
      'ContentType="application/vnd.openxmlformats-package.relationships+xml"/><Default Extension="xml" ContentType="application/xml"/><Default Extension="png" ContentType="image/png"/>{over}</Types>')
RELS = '<?xml version="1.0" encoding="UTF-8"?><Relationships xmlns="http://schemas.openxmlformats.org/package/2006/relationships">{r}</Relationships>'
REL_T = "http://schemas.openxmlformats.org/officeDocument/2006/relationships/"
W = 'xmlns:w="http://schemas.openxmlformats.org/wordprocessingml/2006/main" xmlns:r="http://schemas.openxmlformats.org/officeDocument/2006/relationships"'


def _docx(body: str, extra_parts: dict | None = None, doc_rels: str = "") -> bytes:
    parts = {"[Content_Types].xml": CT.format(over='<Override PartName="/word/document.xml" ContentType="application/vnd.openxmlformats-officedocument.wordprocessingml.document.main+xml"/>'),
             "_rels/.rels": RELS.format(r=f'<Relationship Id="rId1" Type="{REL_T}officeDocument" Target="word/document.xml"/>'),
             "word/document.xml": f'<?xml version="1.0" encoding="UTF-8"?><w:document {W} xmlns:a="http://schemas.openxmlformats.org/drawingml/2006/main" '
                                  f'xmlns:wp="http://schemas.openxmlformats.org/drawingml/2006/wordprocessingDrawing" xmlns:pic="http://schemas.openxmlformats.org/drawingml/2006/picture"><w:body>{body}</w:body></w:document>',
             "word/_rels/document.xml.rels": RELS.format(r=doc_rels)}
    parts.update(extra_parts or {})
    return _zip(parts)


def _xlsx(sheet_xml: str, n_sheets: int = 1, same_target: bool = False, shared: str | None = None) -> bytes:
    S = 'xmlns="http://schemas.openxmlformats.org/spreadsheetml/2006/main" xmlns:r="http://schemas.openxmlformats.org/officeDocument/2006/relationships"'
    sheets = "".join(f'<sheet name="S{i + 1}" sheetId="{i + 1}" r:id="rId{1 if same_target else i + 1}"/>' for i in range(n_sheets))
    rels = "".join(f'<Relationship Id="rId{i + 1}" Type="{REL_T}worksheet" Target="worksheets/sheet{i + 1}.xml"/>' for i in range(1 if same_target else n_sheets))
    over = "".join(f'<Override PartName="/xl/worksheets/sheet{i + 1}.xml" ContentType="application/vnd.openxmlformats-officedocument.spreadsheetml.worksheet+xml"/>' for i in range(1 if same_target else n_sheets))
    parts = {"[Content_Types].xml": CT.format(over='<Override PartName="/xl/workbook.xml" ContentType="application/vnd.openxmlformats-officedocument.spreadsheetml.sheet.main+xml"/>' + over
                                              + ('<Override PartName="/xl/sharedStrings.xml" ContentType="application/vnd.openxmlformats-officedocument.spreadsheetml.sharedStrings+xml"/>' if shared else "")),
             "_rels/.rels": RELS.format(r=f'<Relationship Id="rId1" Type="{REL_T}officeDocument" Target="xl/workbook.xml"/>'),
             "xl/workbook.xml": f'<?xml version="1.0" encoding="UTF-8"?><workbook {S}><sheets>{sheets}</sheets></workbook>',
             "xl/_rels/workbook.xml.rels": RELS.format(r=rels + (f'<Relationship Id="rId9999" Type="{REL_T}sharedStrings" Target="sharedStrings.xml"/>' if shared else ""))}
    for i in range(1 if same_target else n_sheets):
        parts[f"xl/worksheets/sheet{i + 1}.xml"] = f'<?xml version="1.0" encoding="UTF-8"?><worksheet {S}>{sheet_xml}</worksheet>'
    if shared:
        parts["xl/sharedStrings.xml"] = shared
    return _zip(parts)


def _col(n: int) -> str:
    s = ""
    while n:
        n, r = divmod(n - 1, 26)
        s = chr(65 + r) + s
    return s


@family("xlsx-sparse", "xlsx", variants=("dimension", "far-cell", "far-row", "far-both"), ms=(10, 1000, 16384, 10**6))
def xlsx_sparse(m, variant):
    c = _col(min(m, 16384))
    r = min(m, 1048576)
    cell = lambda ref, v: f'<c r="{ref}" t="inlineStr"><is><t>{v}</t></is></c>'  # noqa
    if variant == "dimension":
        xml = f'<dimension ref="A1:{c}{r}"/><sheetData><row r="1">{cell("A1", "ZB00001")}</row></sheetData>'
    elif variant == "far-cell":
        xml = f'<sheetData><row r="1">{cell("A1", "ZB00001")}{cell(c + "1", "ZB00002")}</row></sheetData>'
    elif variant == "far-row":
        xml = f'<sheetData><row r="1">{cell("A1", "ZB00001")}</row><row r="{r}">{cell("A" + str(r), "ZB00002")}</row></sheetData>'
    else:
        xml = f'<sheetData><row r="1">{cell("A1", "ZB00001")}</row><row r="{r}">{cell(c + str(r), "ZB00002")}</row></sheetData>'
    return _xlsx(xml)


@family("xlsx-sheet-reuse", "xlsx", ms=(10, 1000, 20000))
def xlsx_sheet_reuse(m, variant):
    rows = "".join(f'<row r="{i}"><c r="A{i}" t="inlineStr"><is><t>value {i} ZM00001 padding padding padding</t></is></c></row>' for i in range(1, 400))
    return _xlsx(f"<sheetData>{rows}</sheetData>", n_sheets=m, same_target=True)


@family("docx-image-reuse", "docx", ms=(10, 1000, 20000))
def docx_image_reuse(m, variant):
    from vf.gen import imgenc
    img = imgenc.png(200, 200, 3)
    dr = ('<w:p><w:r><w:drawing><wp:inline><wp:extent cx="100" cy="100"/><wp:docPr id="{i}" name="P{i}"/><a:graphic><a:graphicData uri="http://schemas.openxmlformats.org/drawingml/2006/picture">'
          '<pic:pic><pic:nvPicPr><pic:cNvPr id="{i}" name="a.png"/><pic:cNvPicPr/></pic:nvPicPr><pic:blipFill><a:blip r:embed="rId5"/></pic:blipFill><pic:spPr/></pic:pic></a:graphicData></a:graphic></wp:inline></w:drawing></w:r></w:p>')
    body = "".join(dr.format(i=i + 1) for i in range(m))
    return _docx(body, {"word/media/a.png": img}, f'<Relationship Id="rId5" Type="{REL_T}image" Target="media/a.png"/>')


@family("xml-entities", "docx", variants=("billion-laughs", "quadratic", "external"), ms=(10, 1000, 100000))
def xml_entities(m, variant):
    if variant == "billion-laughs":
        depth = max(2, min(30, len(str(m)) + 3))
        ents = '<!ENTITY e0 "ZX00001ZX00001">' + "".join(f'<!ENTITY e{i} "{("&e%d;" % (i - 1)) * 10}">' for i in range(1, depth))
        ref = f"&e{depth - 1};"
    elif variant == "quadratic":
        ents = f'<!ENTITY e0 "{"Z" * 20000}">'
        ref = "&e0;" * min(m, 5000)
    else:
        ents = '<!ENTITY e0 SYSTEM "file:///etc/hostname">'
        ref = "&e0;"
    doc = (f'<?xml version="1.0" encoding="UTF-8"?><!DOCTYPE w:document [{ents}]><w:document {W}><w:body><w:p><w:r><w:t>ZB00001 {ref}</w:t></w:r></w:p></w:body></w:document>')
    parts = {"[Content_Types].xml": CT.format(over='<Override PartName="/word/document.xml" ContentType="application/vnd.openxmlformats-officedocument.wordprocessingml.document.main+xml"/>'),
             "_rels/.rels": RELS.format(r=f'<Relationship Id="rId1" Type="{REL_T}officeDocument" Target="word/document.xml"/>'), "word/document.xml": doc,
             "word/_rels/document.xml.rels": RELS.format(r="")}
    return _zip(parts)


@family("xml-entities-utf16", "pptx", variants=("pptx-slides",), ms=(2, 20, 60))
def xml_entities_utf16(m, variant):
    """A deck of m slides whose slide parts are UTF-16 encoded and declare nested internal entities (about 7 MB of text per slide, below the
    threshold at which the XML library's own amplification guard starts to look): a guard that searches the raw bytes for an ASCII '<!DOCTYPE' misses them."""
    import zipfile
    from vf.gen import ooxml
    from vf.gen.tokens import make
    doc = {"props": {}, "units": [{"name": None, "blocks": [{"k": "p", "inl": [{"k": "t", "tok": make("B", 6000 + i), "sty": 0}], "h": None}], "notes": None} for i in range(m)], "header": None, "footer": None, "comments": []}
    base = ooxml.render_pptx(doc)
    ents = '<!ENTITY e0 "' + "ZX00001 " * 9 + '">' + "".join(f'<!ENTITY e{i} "{("&e%d;" % (i - 1)) * 10}">' for i in range(1, 6))     # 72 chars x 10^5
    zin = zipfile.ZipFile(io.BytesIO(base))
    buf = io.BytesIO()
    with zipfile.ZipFile(buf, "w", zipfile.ZIP_DEFLATED) as out:
        for zi in zin.infolist():
            data = zin.read(zi.filename)
            if zi.filename.startswith("ppt/slides/slide") and zi.filename.endswith(".xml"):
                text = data.decode("utf-8")
                decl_end = text.index("?>") + 2
                body = text[decl_end:].replace("<a:t>", "<a:t>&e5; ", 1)
                data = ('<?xml version="1.0" encoding="UTF-16" standalone="yes"?><!DOCTYPE sld [' + ents + "]>" + body).encode("utf-16")
            out.writestr(zipfile.ZipInfo(zi.filename, date_time=(2024, 3, 1, 12, 0, 0)), data, compress_type=zipfile.ZIP_DEFLATED)
    return buf.getvalue()


# ---- nesting -----------------------------------------------------------------------------------------------------
@family("nesting", "docx", variants=("docx-tables", "docx-unknown", "html-div", "html-table", "rtf-groups", "odt-lists", "odt-spans", "epub-div", "json-arrays"), ms=(10, 300, 3000, 60000))
def nesting(m, variant):
    if variant == "docx-tables":
        m = min(m, 3000)
        open_, close = "<w:tbl><w:tr><w:tc>", "<w:p/></w:tc></w:tr></w:tbl>"
        return _docx(open_ * m + "<w:p><w:r><w:t>ZB00001</w:t></w:r></w:p>" + close * m)
    if variant == "docx-unknown":
        return _docx("<w:p>" + "<w:smartTag>" * m + "<w:r><w:t>ZB00001</w:t></w:r>" + "</w:smartTag>" * m + "</w:p>")
    if variant == "html-div":
        return ("<html><body>" + "<div>" * m + "ZB00001" + "</div>" * m + "</body></html>").encode()
    if variant == "html-table":
        m = min(m, 3000)
        return ("<html><body>" + "<table><tr><td>" * m + "ZB00001" + "</td></tr></table>" * m + "</body></html>").encode()
    if variant == "rtf-groups":
        return (r"{\rtf1\ansi " + "{" * m + "ZB00001" + "}" * m + "}").encode()
    if variant in ("odt-lists", "odt-spans"):
        if variant == "odt-lists":
            m = min(m, 3000)
            body = "<text:list><text:list-item>" * m + "<text:p>ZB00001</text:p>" + "</text:list-item></text:list>" * m
        else:
            body = "<text:p>" + "<text:span>" * m + "ZB00001" + "</text:span>" * m + "</text:p>"
        content = (f'<?xml version="1.0" encoding="UTF-8"?><office:document-content {ODS_NS} office:version="1.2"><office:body><office:text>{body}</office:text></office:body></office:document-content>')
        return odfgen.package("odt", content)
    if variant == "epub-div":
        from vf.gen import wrappers
        return wrappers.epub_bytes([("ch1.xhtml", '<?xml version="1.0" encoding="utf-8"?><html xmlns="http://www.w3.org/1999/xhtml"><head><title>t</title></head><body>'
                                     + "<div>" * m + "ZB00001" + "</div>" * m + "</body></html>")])
    if variant == "json-arrays":
        return ("[" * m + '"ZB00001"' + "]" * m).encode()
    raise ValueError(variant)


NEST_EXT = {"docx-tables": "docx", "docx-unknown": "docx", "html-div": "html", "html-table": "html", "rtf-groups": "rtf", "odt-lists": "odt", "odt-spans": "odt", "epub-div": "epub", "json-arrays": "json"}


# ---- HTML spans ---------------------------------------------------------------------------------------------------
@family("html-span-attrs", "html", variants=("colspan", "rowspan", "both"), ms=(10, 1000, 10**6, 10**9))
def html_spans(m, variant):
    a = {"colspan": f'colspan="{m}"', "rowspan": f'rowspan="{m}"', "both": f'colspan="{m}" rowspan="{m}"'}[variant]
    return f"<html><body><table><tr><td {a}>ZB00001</td><td>ZB00002</td></tr><tr><td>ZB00003</td></tr></table></body></html>".encode()


# ---- EPUB / PPTX part reuse ------------------------------------------------------------------------------------------
@family("epub-spine-reuse", "epub", ms=(10, 300, 3000))
def epub_spine_reuse(m, variant):
    from vf.gen import wrappers
    ch = ('<?xml version="1.0" encoding="utf-8"?><html xmlns="http://www.w3.org/1999/xhtml"><head><title>t</title></head><body>'
          + "".join(f"<p>paragraph {i} ZM00001 some text some text some text</p>" for i in range(3000)) + "</body></html>")
    return wrappers.epub_bytes([("ch1.xhtml", ch)], spine_order=[0] * m)


# ---- OLE property sets --------------------------------------------------------------------------------------------
@family("ole-property-count", "doc", variants=("doc", "xls", "ppt", "doc-docsummary"), ms=(10, 10**5, 0x7FFFFFFF, 0xFFFFFFFF))
def ole_property_count(m, variant):
    from vf.gen import biff8, docbin, ole2, pptbin
    ps = ole2.property_set({ole2.PID_TITLE: "ZB00001 title", 4: "author"}, count_override=m)
    if variant == "doc":
        return docbin.write_doc(["paragraph ZB00002 with enough text to be found by the reader of the document"], extra_streams={"\x05SummaryInformation": ps})
    if variant == "doc-docsummary":
        ps2 = ole2.property_set({2: "cat"}, fmtid=getattr(ole2, "FMTID_DOCSUMMARY", ole2.FMTID_SUMMARY), count_override=m)
        return docbin.write_doc(["paragraph ZB00002 with enough text to be found by the reader of the document"], extra_streams={"\x05DocumentSummaryInformation": ps2})
    if variant == "xls":
        return biff8.write_xls([{"name": "S1", "rows": [["ZB00002"]]}], extra_streams={"\x05SummaryInformation": ps})
    return pptbin.write_ppt([{"title": "ZB00002", "body": ["ZB00003"]}], extra_streams={"\x05SummaryInformation": ps})


OLE_EXT = {"doc": "doc", "doc-docsummary": "doc", "xls": "xls", "ppt": "ppt", "doc-lpstr": "doc", "doc-summary": "doc", "doc-pid0": "doc", "doc-summary-pid0": "doc", "doc-second": "doc", "doc-sizeword": "doc", "doc-summary-r8-sizeword": "doc", "doc-summary-i4-sizeword": "doc"}


@family("ole-vector-length", "doc", variants=("doc", "xls", "ppt", "doc-lpstr", "doc-summary", "doc-pid0", "doc-summary-pid0", "doc-second", "doc-sizeword", "doc-summary-r8-sizeword", "doc-summary-i4-sizeword"),
        ms=(10, 10**5, 10**7, 0x7FFFFFFF, 0xFFFFFFFF))
def ole_vector_length(m, variant):
    """A VT_VECTOR property in a property set with a forged element count: VT_VECTOR|VT_NULL (elements occupy no bytes) or VT_VECTOR|VT_LPSTR."""
    from vf.gen import biff8, docbin, ole2, pptbin
    if variant == "doc-lpstr":
        vec = struct.pack("<II", 0x101E, m) + struct.pack("<I", 4) + b"abc\0"
        variant = "doc"
    else:
        vec = struct.pack("<II", 0x1001, m) + bytes(8)
    sizeword = None
    if variant.endswith("-sizeword"):        # the section's own size word is forged too (a guard must measure against the bytes that are there)
        sizeword, variant = 0x7FFFFFFF, variant[:-9]
        if variant.endswith("-r8"):
            vec, variant = struct.pack("<II", 0x1005, m) + bytes(16), variant[:-3]
        elif variant.endswith("-i4"):
            vec, variant = struct.pack("<II", 0x1003, m) + bytes(16), variant[:-3]
    pid = 13
    if variant.endswith("-pid0"):           # the forged vector sits under property id 0 (the id of the dictionary property)
        pid, variant = 0, variant[:-5]
    items = [(1, struct.pack("<Ihh", 2, 1252, 0)), (pid, vec)]
    if variant == "doc-second":             # ... or behind a property whose offset points outside the stream
        items = [(1, struct.pack("<Ihh", 2, 1252, 0)), (5, b""), (13, vec)]
        variant = "doc"
    off = 8 + 8 * len(items)
    table = values = b""
    for pid_, raw in items:
        table += struct.pack("<II", pid_, (off + len(values)) if raw or pid_ != 5 else 0x7FFFFFF0)
        values += raw
    section = struct.pack("<II", sizeword if sizeword is not None else off + len(values), len(items)) + table + values
    fmtid = getattr(ole2, "FMTID_DOCSUMMARY", bytes.fromhex("02d5cdd59c2e1b10939708002b2cf9ae"))
    ps = struct.pack("<HHI", 0xFFFE, 0, 0x00020005) + bytes(16) + struct.pack("<I", 1) + fmtid + struct.pack("<I", 48) + section
    extra = {"\x05DocumentSummaryInformation": ps, "\x05SummaryInformation": ole2.property_set({ole2.PID_TITLE: "t"})}
    if variant == "doc-summary":
        ps = ps.replace(fmtid, ole2.FMTID_SUMMARY)
        extra = {"\x05SummaryInformation": ps}
        variant = "doc"
    if variant == "doc":
        return docbin.write_doc(["paragraph ZB00002 with enough text to be found by the reader of the document"], extra_streams=extra)
    if variant == "xls":
        return biff8.write_xls([{"name": "S1", "rows": [["ZB00002"]]}], extra_streams=extra)
    return pptbin.write_ppt([{"title": "ZB00002", "body": ["ZB00003"]}], extra_streams=extra)


# ---- compression ratios ---------------------------------------------------------------------------------------------
@family("7z-ratio", "7z", variants=("lzma-oversize-alone", "lzma2-oversize-alone", "lzma-oversize-solid", "lzma-unsupported-ext", "lzma-wanted"), ms=(1, 32, 256))
def sevenz_ratio(m, variant):
    """m = MiB of zeros in the big member."""
    from vf.gen import sevenz
    big = bytes(m * 1024 * 1024)
    method = "lzma2" if variant.startswith("lzma2") else "lzma"
    if variant in ("lzma-oversize-alone", "lzma2-oversize-alone"):
        members = [sevenz.Member("small.txt", b"text ZB00001"), sevenz.Member("big.txt", big)]
        return sevenz.write_7z(members, method=method, layout="per-file")
    if variant == "lzma-oversize-solid":
        members = [sevenz.Member("small.txt", b"text ZB00001"), sevenz.Member("big.txt", big)]
        return sevenz.write_7z(members, method=method, layout="solid")
    if variant == "lzma-unsupported-ext":
        members = [sevenz.Member("small.txt", b"text ZB00001"), sevenz.Member("big.bin", big)]
        return sevenz.write_7z(members, method=method, layout="per-file")
    members = [sevenz.Member("small.txt", b"text ZB00001"), sevenz.Member("zeros.txt", big)]
    return sevenz.write_7z(members, method=method, layout="per-file")


@family("7z-declared-size", "7z", variants=("lzma-zero", "lzma-one", "lzma-small"), ms=(1, 32, 256))
def sevenz_declared_size(m, variant):
    """An LZMA folder whose header declares 0 / 1 / 12 unpacked bytes while its end-marker terminated stream expands to m MiB of zeros."""
    from vf.gen import sevenz
    members = [sevenz.Member("small.txt", b"text ZB00001"), sevenz.Member("big.txt", bytes(m * 1024 * 1024))]
    return sevenz.write_7z(members, method="lzma", layout="per-file", crc=False, declared_sizes={1: {"lzma-zero": 0, "lzma-one": 1, "lzma-small": 12}[variant]})


@family("tar-ratio", "tar.gz", variants=("gz", "xz", "bz2"), ms=(1, 32, 256))
def tar_ratio(m, variant):
    buf = io.BytesIO()
    with tarfile.open(fileobj=buf, mode="w:" + variant) as tf:
        for name, data in (("small.txt", b"text ZB00001"), ("big.txt", bytes(m * 1024 * 1024)), ("after.txt", b"text ZB00002")):
            ti = tarfile.TarInfo(name)
            ti.size = len(data)
            tf.addfile(ti, io.BytesIO(data))
    return buf.getvalue()


TAR_EXT = {"gz": "tar.gz", "xz": "tar.xz", "bz2": "tar.bz2"}


@family("zip-member-size", "zip", variants=("oversize", "nested-doc"), ms=(1, 32, 256))
def zip_member(m, variant):
    buf = io.BytesIO()
    with zipfile.ZipFile(buf, "w", zipfile.ZIP_DEFLATED) as z:
        z.writestr("small.txt", "text ZB00001")
        z.writestr("big.txt", bytes(m * 1024 * 1024))
        z.writestr("after.txt", "text ZB00002")
    return buf.getvalue()


# ---- 7z header counts ---------------------------------------------------------------------------------------------
@family("7z-header-counts", "7z", variants=("num-files", "num-folders", "num-pack-streams", "name-bytes"), ms=(10, 10**6, 10**9, 2**62))
def sevenz_header_counts(m, variant):
    from vf.gen import sevenz
    n = sevenz.number
    K = sevenz
    if variant == "num-files":
        header = bytes([K.K_HEADER, K.K_FILES_INFO]) + n(m) + bytes([K.K_END, K.K_END])
    elif variant == "num-folders":
        header = bytes([K.K_HEADER, K.K_MAIN_STREAMS_INFO, K.K_UNPACK_INFO, K.K_FOLDER]) + n(m) + b"\x00" + bytes([K.K_END, K.K_END, K.K_END])
    elif variant == "num-pack-streams":
        header = bytes([K.K_HEADER, K.K_MAIN_STREAMS_INFO, K.K_PACK_INFO]) + n(0) + n(m) + bytes([K.K_END, K.K_END, K.K_END])
    else:
        header = bytes([K.K_HEADER, K.K_FILES_INFO]) + n(1) + bytes([K.K_NAMES]) + n(m) + b"\x00" + "a.txt".encode("utf-16-le") + b"\0\0" + bytes([K.K_END, K.K_END])
    return sevenz.raw_header_archive(header)


# ---- PDF loops ------------------------------------------------------------------------------------------------------
@family("pdf-loops", "pdf", variants=("kids-self", "kids-parent", "kids-fanout", "contents-array"), ms=(10, 1000, 20000))
def pdf_loops(m, variant):
    objs = {1: b"<< /Type /Catalog /Pages 2 0 R >>", 4: b"<< /Type /Font /Subtype /Type1 /BaseFont /Helvetica >>"}
    stream = b"BT /F1 12 Tf 72 700 Td (ZB00001 hello) Tj ET"
    objs[5] = b"<< /Length %d >>\nstream\n" % len(stream) + stream + b"\nendstream"
    page = b"<< /Type /Page /Parent 2 0 R /MediaBox [0 0 612 792] /Resources << /Font << /F1 4 0 R >> >> /Contents %s >>"
    if variant == "kids-self":
        objs[2] = b"<< /Type /Pages /Kids [3 0 R 2 0 R] /Count %d >>" % m
        objs[3] = page % b"5 0 R"
    elif variant == "kids-parent":
        objs[2] = b"<< /Type /Pages /Kids [6 0 R] /Count %d >>" % m
        objs[6] = b"<< /Type /Pages /Parent 2 0 R /Kids [3 0 R 2 0 R] /Count %d >>" % m
        objs[3] = page % b"5 0 R"
    elif variant == "kids-fanout":      # the same page object listed m times
        objs[2] = b"<< /Type /Pages /Kids [" + b"3 0 R " * m + b"] /Count %d >>" % m
        objs[3] = page % b"5 0 R"
    else:                               # one page whose /Contents lists the same stream m times
        objs[2] = b"<< /Type /Pages /Kids [3 0 R] /Count 1 >>"
        objs[3] = page % (b"[" + b"5 0 R " * m + b"]")
    out = bytearray(b"%PDF-1.4\n%\xe2\xe3\xcf\xd3\n")
    offs = {}
    for num in sorted(objs):
        offs[num] = len(out)
        out += b"%d 0 obj\n" % num + objs[num] + b"\nendobj\n"
    xref = len(out)
    size = max(objs) + 1
    out += b"xref\n0 %d\n" % size + b"0000000000 65535 f \n"
    for num in range(1, size):
        out += (b"%010d 00000 n \n" % offs[num]) if num in offs else b"0000000000 65535 f \n"
    out += b"trailer\n<< /Size %d /Root 1 0 R >>\nstartxref\n%d\n%%%%EOF\n" % (size, xref)
    return bytes(out)


# ---- mail ------------------------------------------------------------------------------------------------------------
@family("mbox-from-lines", "mbox", variants=("bare", "in-body"), ms=(10, 1000, 20000))
def mbox_from(m, variant):
    if variant == "bare":
        return b"".join(b"From a@b.c Thu Jan  1 00:00:00 2024\n\n" for _ in range(m))
    return (b"From a@b.c Thu Jan  1 00:00:00 2024\nSubject: ZB00001\nFrom: a@b.c\nTo: d@e.f\n\n" + b"From here on every line looks like a separator\n" * m)


@family("eml-nesting", "eml", variants=("multipart", "rfc822"), ms=(10, 100, 1000))
def eml_nesting(m, variant):
    if variant == "multipart":
        head = "".join(f'Content-Type: multipart/mixed; boundary="b{i}"\n\n--b{i}\n' for i in range(m))
        tail = "".join(f"\n--b{i}--\n" for i in reversed(range(m)))
        return ("Subject: ZB00001\nFrom: a@b.c\nTo: d@e.f\nMIME-Version: 1.0\n" + head + "Content-Type: text/plain\n\nZB00002 body\n" + tail).encode()
    head = "".join("Content-Type: message/rfc822\n\nSubject: inner\nFrom: a@b.c\n" for _ in range(m))
    return ("Subject: ZB00001\nFrom: a@b.c\nTo: d@e.f\nMIME-Version: 1.0\n" + head + "Content-Type: text/plain\n\nZB00002 body\n").encode()


# ---- stored inputs found by the C01 fuzzers whose cost, not whose outcome, is the problem ------------------------------
@family("ole-forged-stream-size", "doc", variants=("doc",), ms=(1,))
def ole_forged_stream_size(m, variant):
    """3.6 KB .doc (atheris): a directory entry declares a stream far larger than the file over a cyclic FAT chain; olefile reads 'sectors' until the declared size is reached."""
    import os
    with open(os.path.join(os.path.dirname(os.path.dirname(os.path.dirname(os.path.abspath(__file__)))), "corpus", "c12", "doc-ole-stream-size.bin"), "rb") as fh:
        return fh.read()


def build(name: str, m: int, variant) -> tuple[bytes, str, int]:
    f = FAMILIES[name]
    raw = f["fn"](m, variant)
    ext = f["ext"]
    if name == "nesting":
        ext = NEST_EXT[variant]
    elif name in ("ole-property-count", "ole-vector-length"):
        ext = OLE_EXT[variant]
    elif name == "tar-ratio":
        ext = TAR_EXT[variant]
    if raw[:2] == b"PK" and ext != "zip":
        u = zip_uncompressed(raw)
    else:
        u = len(raw)
    return raw, ext, max(u, len(raw))
