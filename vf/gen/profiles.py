"""Per-format profiles: which model features the renderer can express, how to render, how the documentation places text."""
from __future__ import annotations

from vf.gen import odf, ooxml

FLOW_INLINE = {"run.multi", "run.tab", "run.break", "run.link"}

PROFILES = {
    "docx": {
        "ext": "docx", "render": lambda doc, **kw: ooxml.render_docx(doc, **kw), "selfcheck": ooxml.wellformed,
        "features": FLOW_INLINE | {"run.ins", "run.del", "run.comment-ref", "run.note-ref", "run.field", "container.sdt.inline", "para.heading", "list.flat", "list.nested",
                                   "table.simple", "table.multi-para-cell", "table.nested", "table.empty-cell", "table.header-rows", "container.sdt", "container.textbox",
                                   "excluded.header-footer", "excluded.comment"},
        "table_text_in_full_text": True, "unit_kind": "flow", "max_units": 1,
    },
    "pptx": {
        "ext": "pptx", "render": lambda doc, **kw: ooxml.render_pptx(doc, **kw), "selfcheck": ooxml.wellformed,
        "features": {"run.multi", "run.tab", "run.break", "run.link", "run.field", "para.heading", "list.flat", "list.nested", "table.simple", "table.multi-para-cell", "table.empty-cell",
                     "container.group", "unit.multi", "unit.empty", "excluded.speaker-notes", "excluded.header-footer", "excluded.comment"},
        "table_text_in_full_text": True, "unit_kind": "slide", "max_units": 4,
        "residue_ignore": r"\b\d{1,3}\b",  # slide-number placeholders are deliberately kept by the extractor (class M)
    },
    "odt": {
        "ext": "odt", "render": lambda doc, **kw: odf.render_odt(doc, **kw), "selfcheck": odf.wellformed,
        "features": FLOW_INLINE | {"run.ins", "run.del", "run.comment-ref", "run.note-ref", "run.field", "para.heading", "list.flat", "list.nested", "table.simple",
                                   "table.multi-para-cell", "table.nested", "table.empty-cell", "table.header-rows", "container.section", "container.textbox",
                                   "excluded.header-footer", "excluded.comment"},
        "table_text_in_full_text": True, "unit_kind": "flow", "max_units": 1,
    },
    "odp": {
        "ext": "odp", "render": lambda doc, **kw: odf.render_odp(doc, **kw), "selfcheck": odf.wellformed,
        "features": FLOW_INLINE | {"para.heading", "list.flat", "list.nested", "table.simple", "table.multi-para-cell", "table.empty-cell", "table.header-rows", "container.group",
                                   "container.custom-shape", "unit.multi", "unit.empty", "excluded.speaker-notes", "excluded.header-footer", "excluded.comment"},
        "table_text_in_full_text": False, "unit_kind": "slide", "max_units": 4,
    },
    "odg": {
        "ext": "odg", "render": lambda doc, **kw: odf.render_odg(doc, **kw), "selfcheck": odf.wellformed,
        "features": FLOW_INLINE | {"list.flat", "list.nested", "table.simple", "container.group", "container.custom-shape", "unit.multi", "unit.empty"},
        "table_text_in_full_text": True, "unit_kind": "page-merged", "max_units": 3,
    },
}
