"""Per-format profiles: which model features the renderer can express, how to render, how the documentation places text."""
from __future__ import annotations

from vf.gen import legacy, odf, ooxml, rtfgen, simple

FLOW_INLINE = {"run.multi", "run.tab", "run.break", "run.link"}

PROFILES = {
    "docx": {
        "ext": "docx", "render": lambda doc, **kw: ooxml.render_docx(doc, **kw), "selfcheck": ooxml.wellformed,
        "features": FLOW_INLINE | {"run.ins", "run.del", "run.comment-ref", "run.note-ref", "run.field", "container.sdt.inline", "para.heading", "list.flat", "list.nested",
                                   "table.simple", "table.multi-para-cell", "table.nested", "table.empty-cell", "table.header-rows", "container.sdt", "container.textbox",
                                   "excluded.header-footer", "excluded.comment"},
        "table_text_in_full_text": True, "unit_kind": "flow", "max_units": 1, "opts": {"heading_styles": [None, None, "id-only"], "no_core": [False, False, True]},
    },
    "pptx": {
        "ext": "pptx", "render": lambda doc, **kw: ooxml.render_pptx(doc, **kw), "selfcheck": ooxml.wellformed,
        "features": {"run.multi", "run.tab", "run.break", "run.link", "run.field", "para.heading", "list.flat", "list.nested", "table.simple", "table.multi-para-cell", "table.empty-cell",
                     "container.group", "unit.multi", "unit.empty", "excluded.speaker-notes", "excluded.header-footer", "excluded.comment"},
        "table_text_in_full_text": True, "unit_kind": "slide", "max_units": 4,
        "opts": {"permute_parts": [False, True], "abs_targets": [False, False, True], "layout": [None, None, "same"], "merged_cells": [False, False, True], "no_core": [False, False, True]},
        "residue_ignore": r"\b\d{1,3}\b",  # slide-number placeholders are deliberately kept by the extractor (class M)
    },
    "odt": {
        "ext": "odt", "render": lambda doc, **kw: odf.render_odt(doc, **kw), "selfcheck": odf.wellformed,
        "features": FLOW_INLINE | {"run.ins", "run.del", "run.comment-ref", "run.note-ref", "run.field", "para.heading", "list.flat", "list.nested", "table.simple",
                                   "table.multi-para-cell", "table.nested", "table.empty-cell", "table.header-rows", "container.section", "container.textbox",
                                   "excluded.header-footer", "excluded.comment"},
        "table_text_in_full_text": True, "unit_kind": "flow", "max_units": 1, "opts": {"no_meta": [False, False, True], "run_space": [False, False, True]},
    },
    "odp": {
        "ext": "odp", "render": lambda doc, **kw: odf.render_odp(doc, **kw), "selfcheck": odf.wellformed,
        "features": FLOW_INLINE | {"para.heading", "list.flat", "list.nested", "table.simple", "table.multi-para-cell", "table.empty-cell", "table.header-rows", "container.group",
                                   "container.custom-shape", "unit.multi", "unit.empty", "excluded.speaker-notes", "excluded.header-footer", "excluded.comment"},
        "table_text_in_full_text": False, "unit_kind": "slide", "max_units": 4, "opts": {"subtitle_styles": [False, True], "no_meta": [False, False, True], "run_space": [False, False, True]},
    },
    "odg": {
        "ext": "odg", "render": lambda doc, **kw: odf.render_odg(doc, **kw), "selfcheck": odf.wellformed,
        "features": FLOW_INLINE | {"list.flat", "list.nested", "table.simple", "container.group", "container.custom-shape", "unit.multi", "unit.empty"},
        "table_text_in_full_text": True, "unit_kind": "page-merged", "max_units": 3,
    },
    "rtf": {
        "ext": "rtf", "render": lambda doc, **kw: rtfgen.render_rtf(doc, **kw), "selfcheck": rtfgen.balanced,
        "features": FLOW_INLINE | {"run.ins", "run.del", "run.comment-ref", "run.note-ref", "run.field", "para.heading", "list.flat", "list.nested", "table.simple",
                                   "table.multi-para-cell", "table.empty-cell", "excluded.header-footer", "excluded.comment", "unit.multi", "unit.empty"},
        "table_text_in_full_text": True, "unit_kind": "page", "max_units": 3, "decoration": [], "residue_ignore": r"\b\d{1,3}\.",  # \\listtext numbering
        "opts": {"u_words": [False, False, True], "spaced_cells": [True, True, False], "page_break": [False, False, "nested", "deep", "par-in-group"]},
    },
    "html": {
        "ext": "html", "render": lambda doc, **kw: simple.render_html(doc, **kw),
        "features": FLOW_INLINE | {"run.ins", "run.comment-ref", "container.sdt.inline", "para.heading", "list.flat", "list.nested", "table.simple", "table.multi-para-cell",
                                   "table.nested", "table.empty-cell", "table.header-rows", "table.ragged", "container.section", "container.group", "excluded.header-footer", "excluded.comment"},
        "table_text_in_full_text": True, "unit_kind": "single", "max_units": 1, "opts": {"inline_removed": [False, False, "script", "style", "noscript"], "charset": [None, None, "windows-1252", "iso-8859-2", "iso-8859-15"], "late_meta": [False, True], "run_space": [False, True]},
    },
    "mhtml": {
        "ext": "mhtml", "render": lambda doc, **kw: simple.render_mhtml(doc, **kw),
        "features": FLOW_INLINE | {"run.ins", "para.heading", "list.flat", "list.nested", "table.simple", "table.multi-para-cell", "table.empty-cell", "container.section",
                                   "excluded.header-footer"},
        "table_text_in_full_text": True, "unit_kind": "single", "max_units": 1, "opts": {"inline_removed": [False, False, "script", "style", "noscript"]},
    },
    "epub": {
        "ext": "epub", "render": lambda doc, **kw: simple.render_epub(doc, **kw),
        "features": FLOW_INLINE | {"run.ins", "run.comment-ref", "para.heading", "list.flat", "list.nested", "table.simple", "table.multi-para-cell", "table.empty-cell",
                                   "table.header-rows", "container.section", "excluded.comment", "unit.multi", "unit.empty"},
        "table_text_in_full_text": False, "unit_kind": "chapter", "max_units": 4, "unit_names": "Chapter ",
        "opts": {"manifest_reversed": [False, True], "inline_removed": [False, False, "script", "style", "noscript"], "selfclose_empty_cells": [False, True], "chapter_names": [None, None, "odd"], "run_space": [False, True], "repeat_dc": [False, True]},
    },
    "txt": {"sep_any": True, "ext": "txt", "render": lambda doc, **kw: simple.render_txt(doc, **kw), "features": {"run.multi", "run.tab", "run.break", "para.heading", "list.flat", "list.nested", "table.simple"},
            "table_text_in_full_text": True, "unit_kind": "single", "max_units": 1},
    "md": {"sep_any": True, "ext": "md", "render": lambda doc, **kw: simple.render_md(doc, **kw), "features": {"run.multi", "run.break", "para.heading", "list.flat", "list.nested", "table.simple"},
           "table_text_in_full_text": True, "unit_kind": "single", "max_units": 1},
    "csv": {"sep_any": True, "ext": "csv", "render": lambda doc, **kw: simple.render_csv(doc, **kw), "features": {"run.multi", "table.simple", "table.empty-cell"},
            "table_text_in_full_text": True, "unit_kind": "single", "max_units": 1},
    "tsv": {"sep_any": True, "ext": "tsv", "render": lambda doc, **kw: simple.render_tsv(doc, **kw), "features": {"run.multi", "table.simple", "table.empty-cell"},
            "table_text_in_full_text": True, "unit_kind": "single", "max_units": 1},
    "json": {"sep_any": True, "ext": "json", "render": lambda doc, **kw: simple.render_json(doc, **kw), "features": {"run.multi", "list.flat", "table.simple"},
             "table_text_in_full_text": True, "unit_kind": "single", "max_units": 1, "decoration": ["units", "lines"]},
    "pdf": {"ext": "pdf", "render": lambda doc, **kw: simple.render_pdf(doc, **kw), "features": {"run.multi", "run.break", "list.flat", "list.nested", "table.simple", "unit.multi", "unit.empty"},
            "table_text_in_full_text": True, "unit_kind": "page", "max_units": 3, "opts": {"bare_blank_pages": [False, True]}},
    "eml": {"ext": "eml", "render": lambda doc, **kw: simple.render_eml(doc, **kw), "features": {"run.multi", "run.break", "list.flat", "table.simple"},
            "table_text_in_full_text": True, "unit_kind": "message", "max_units": 1},
    "mbox": {"ext": "mbox", "render": lambda doc, **kw: simple.render_mbox(doc, **kw), "features": {"run.multi", "run.break", "list.flat", "table.simple", "unit.multi"},
             "table_text_in_full_text": True, "unit_kind": "message", "max_units": 3, "opts": {"crlf": [False, True], "message_ids": [None, None, "none", "same"], "forward": [False, False, True]}},
    "ppt": {"ext": "ppt", "render": lambda doc, **kw: legacy.render_ppt(doc, **kw),
            "features": {"run.multi", "run.break", "para.heading", "list.flat", "unit.multi", "unit.empty", "excluded.speaker-notes"},
            "table_text_in_full_text": True, "unit_kind": "slide", "max_units": 4, "opts": {"codepage": [65001, 65001, 1252, 1200], "text_placement": ["both", "both", "outline"], "two_titles": [False, False, True]}},
    "doc": {"ext": "doc", "render": lambda doc, **kw: legacy.render_doc(doc, **kw),
            "features": {"run.multi", "list.flat"}, "decoration": [w for w in legacy.FILLER.split()] + ["Lorem"],
            "table_text_in_full_text": True, "unit_kind": "flow", "max_units": 1, "opts": {"codepage": [65001, 65001, 1252, 1200]}},
}
