"""Minimal PDF 1.4 writer (classic xref table + trailer, no object streams).

The writer itself (``write_pdf``, ``xref_check``) uses only struct/zlib/io. pypdf is imported lazily and
only by ``encrypt_pdf`` / ``patch_aes`` / ``selfcheck``.

Layout of objects: 1 Catalog, 2 Pages, 3 Font (Helvetica, WinAnsi), then for each page: Page, Contents,
and its image XObjects (an image with a "share_key" already seen re-uses the earlier object); Info last.
"""
import io
import struct
import zlib

__all__ = ["write_pdf", "xref_check", "selfcheck", "encrypt_pdf", "patch_aes", "ALGORITHMS"]

ALGORITHMS = ("RC4-40", "RC4-128", "AES-128", "AES-256-R5", "AES-256")
INFO_KEYS = ("Title", "Author", "Subject", "Keywords", "Creator", "Producer")

LINES_PER_COLUMN = 44
TOP_Y = 760
LINE_STEP = 16
COLUMN_X = (72, 320)


# ----------------------------------------------------------------------------------------------
# low-level helpers
# ----------------------------------------------------------------------------------------------

def _escape_literal(raw: bytes) -> bytes:
    """Body of a PDF literal string: \\ ( ) escaped, control bytes as octal, everything else verbatim."""
    out = bytearray()
    for b in raw:
        if b in (0x5C, 0x28, 0x29):
            out.append(0x5C)
            out.append(b)
        elif b < 0x20 or b == 0x7F:
            out += b"\\%03o" % b
        else:
            out.append(b)
    return bytes(out)


def _text_string(s: str) -> bytes:
    """Page text: cp1252, unencodable -> '?'."""
    return b"(" + _escape_literal(s.encode("cp1252", "replace")) + b")"


def _info_string(s: str) -> bytes:
    """Info dictionary value: literal string if ASCII, else UTF-16BE with BOM as a hex string."""
    if all(ord(c) < 128 for c in s):
        return b"(" + _escape_literal(s.encode("ascii")) + b")"
    return b"<" + (b"\xfe\xff" + s.encode("utf-16-be")).hex().upper().encode("ascii") + b">"


def _name(s: str) -> bytes:
    """PDF name object with #xx escaping of irregular characters."""
    out = bytearray(b"/")
    for b in s.encode("utf-8"):
        if 0x21 <= b <= 0x7E and b not in b"#()<>[]{}/%":
            out.append(b)
        else:
            out += b"#%02X" % b
    return bytes(out)


def _num(v) -> bytes:
    if isinstance(v, int):
        return b"%d" % v
    f = float(v)
    if f == int(f):
        return b"%d" % int(f)
    return ("%.4f" % f).rstrip("0").rstrip(".").encode("ascii")


def _line_pos(i: int) -> tuple[int, int]:
    col, row = divmod(i, LINES_PER_COLUMN)
    x = COLUMN_X[col] if col < len(COLUMN_X) else COLUMN_X[-1] + (COLUMN_X[1] - COLUMN_X[0]) * (col - 1)
    return x, TOP_Y - LINE_STEP * row


def _stream(dict_entries: bytes, payload: bytes) -> bytes:
    return b"<< " + dict_entries + b" /Length %d >>\nstream\n" % len(payload) + payload + b"\nendstream"


# ----------------------------------------------------------------------------------------------
# writer
# ----------------------------------------------------------------------------------------------

def write_pdf(pages: list[dict], *, info: dict[str, str] | None = None, compress: bool = False) -> bytes:
    """Serialise ``pages`` (see module/task description) to a PDF 1.4 file. Deterministic."""
    objs: dict[int, bytes] = {}
    next_num = 4
    shared: dict[object, int] = {}
    kids: list[int] = []

    for page in pages:
        lines = list(page.get("lines") or [])
        images = list(page.get("images") or [])
        pw, ph = page.get("size") or (612, 792)
        page_num, cont_num = next_num, next_num + 1
        next_num += 2
        kids.append(page_num)

        content = bytearray()
        for i, text in enumerate(lines):
            x, y = _line_pos(i)
            content += b"BT /F1 12 Tf %d %d Td " % (x, y) + _text_string(text) + b" Tj ET\n"

        # images go below the text block (first column height), 100x100 pt each, left to right
        rows_used = min(len(lines), LINES_PER_COLUMN)
        img_y = max(0, TOP_Y + 12 - LINE_STEP * rows_used - 100)  # top edge just under the last baseline; clamped to the page
        img_x = 72
        xobj_entries = []
        used_names: set[str] = set()
        for k, im in enumerate(images, start=1):
            data = bytes(im["data"])
            nm = str(im.get("name") or "Im%d" % k)
            if nm in used_names:
                raise ValueError("duplicate image resource name on one page: %r" % nm)
            used_names.add(nm)
            key = im.get("share_key")
            if key is not None and key in shared:
                num = shared[key]
            else:
                num = next_num
                next_num += 1
                if im.get("flate"):
                    # a filter chain: the JPEG file is additionally deflated ([/FlateDecode /DCTDecode]); what the reader hands out is still the JPEG
                    objs[num] = _stream(
                        b"/Type /XObject /Subtype /Image /Width %d /Height %d /ColorSpace /DeviceGray "
                        b"/BitsPerComponent 8 /Filter [/FlateDecode /DCTDecode]" % (int(im["w"]), int(im["h"])),
                        zlib.compress(data, 9),
                    )
                else:
                    objs[num] = _stream(
                        b"/Type /XObject /Subtype /Image /Width %d /Height %d /ColorSpace /DeviceGray "
                        b"/BitsPerComponent 8 /Filter /DCTDecode" % (int(im["w"]), int(im["h"])),
                        data,
                    )
                if key is not None:
                    shared[key] = num
            xobj_entries.append(_name(nm) + b" %d 0 R" % num)
            if img_x + 100 > pw and img_x > 72:
                img_x = 72
                img_y = max(0, img_y - 110)
            content += b"q 100 0 0 100 %d %d cm " % (img_x, img_y) + _name(nm) + b" Do Q\n"
            img_x += 110

        payload = bytes(content)
        if compress:
            objs[cont_num] = _stream(b"/Filter /FlateDecode", zlib.compress(payload, 9))
        else:
            objs[cont_num] = b"<< /Length %d >>\nstream\n" % len(payload) + payload + b"\nendstream"

        res = b"<< /Font << /F1 3 0 R >>"
        if xobj_entries:
            # the order of a dictionary's entries carries no meaning: a writer may list the resources in any order (here: reversed); the content stream decides the painting order
            res += b" /XObject << " + b" ".join(reversed(xobj_entries) if page.get("xobject_dict_reversed") else xobj_entries) + b" >>"
        res += b" >>"
        objs[page_num] = (
            b"<< /Type /Page /Parent 2 0 R /MediaBox [0 0 " + _num(pw) + b" " + _num(ph) + b"] /Resources "
            + res + b" /Contents %d 0 R >>" % cont_num
        )
        if page.get("no_contents") and not lines and not images:
            # a blank page as writers insert it: no /Contents entry at all (the content stream object stays in the file, unreferenced)
            objs[page_num] = b"<< /Type /Page /Parent 2 0 R /MediaBox [0 0 " + _num(pw) + b" " + _num(ph) + b"] /Resources << >> >>"

    objs[1] = b"<< /Type /Catalog /Pages 2 0 R >>"
    objs[2] = b"<< /Type /Pages /Kids [" + b" ".join(b"%d 0 R" % k for k in kids) + b"] /Count %d >>" % len(kids)
    objs[3] = b"<< /Type /Font /Subtype /Type1 /BaseFont /Helvetica /Encoding /WinAnsiEncoding >>"

    info_num = None
    if info:
        entries = []
        for k, v in info.items():
            if k not in INFO_KEYS:
                raise ValueError("unsupported Info key: %r" % k)
            entries.append(_name(k) + b" " + _info_string(str(v)))
        info_num = next_num
        next_num += 1
        objs[info_num] = b"<< " + b" ".join(entries) + b" >>"

    out = bytearray(b"%PDF-1.4\n%\xe2\xe3\xcf\xd3\n")
    offsets: dict[int, int] = {}
    for num in range(1, next_num):
        offsets[num] = len(out)
        out += b"%d 0 obj\n" % num + objs[num] + b"\nendobj\n"

    # file identifier: deterministic function of the body (four CRC32s over differently salted copies)
    ident = b"".join((zlib.crc32(bytes([s]) + bytes(out)) & 0xFFFFFFFF).to_bytes(4, "big") for s in range(4))
    idhex = ident.hex().upper().encode("ascii")

    xref_at = len(out)
    out += b"xref\n0 %d\n" % next_num
    out += b"0000000000 65535 f \n"
    for num in range(1, next_num):
        out += b"%010d 00000 n \n" % offsets[num]
    out += b"trailer\n<< /Size %d /Root 1 0 R" % next_num
    if info_num is not None:
        out += b" /Info %d 0 R" % info_num
    out += b" /ID [<" + idhex + b"> <" + idhex + b">] >>\nstartxref\n%d\n%%%%EOF\n" % xref_at
    return bytes(out)


# ----------------------------------------------------------------------------------------------
# independent structural check
# ----------------------------------------------------------------------------------------------

def _skip_ws(data: bytes, pos: int) -> int:
    while pos < len(data) and data[pos] in b" \t\r\n\f\0":
        pos += 1
    return pos


def _read_uint(data: bytes, pos: int) -> tuple[int | None, int]:
    pos = _skip_ws(data, pos)
    start = pos
    while pos < len(data) and 0x30 <= data[pos] <= 0x39:
        pos += 1
    if pos == start:
        return None, pos
    return int(data[start:pos]), pos


def xref_check(data: bytes) -> bool:
    """startxref -> 'xref'; every in-use offset -> 'N G obj'; trailer has /Root and /Size (== entries)."""
    data = bytes(data)
    if not data.startswith(b"%PDF-"):
        return False
    tail = data.rstrip(b"\r\n \t")
    if not tail.endswith(b"%%EOF"):
        return False
    sx = data.rfind(b"startxref")
    if sx < 0:
        return False
    off, _ = _read_uint(data, sx + 9)
    if off is None or data[off:off + 4] != b"xref":
        return False
    pos = off + 4
    seen = 0
    highest = -1
    while True:
        pos = _skip_ws(data, pos)
        if data[pos:pos + 7] == b"trailer":
            break
        first, pos = _read_uint(data, pos)
        count, pos = _read_uint(data, pos)
        if first is None or count is None:
            return False
        pos = _skip_ws(data, pos)
        for i in range(count):
            entry = data[pos:pos + 20]
            if len(entry) != 20 or entry[10:11] != b" " or entry[16:17] != b" " or entry[18:20] not in (b" \n", b" \r", b"\r\n"):
                return False
            if not (entry[:10].isdigit() and entry[11:16].isdigit()):
                return False
            o, g, kind = int(entry[:10]), int(entry[11:16]), entry[17:18]
            num = first + i
            if kind == b"n":
                head = b"%d %d obj" % (num, g)
                if data[o:o + len(head)] != head:
                    return False
                nxt = data[o + len(head):o + len(head) + 1]
                if nxt not in (b"\n", b"\r", b" ", b"<", b"["):
                    return False
            elif kind == b"f":
                if num == 0 and g != 65535:
                    return False
            else:
                return False
            pos += 20
            seen += 1
            highest = max(highest, num)
    if seen == 0:
        return False
    trailer = data[pos + 7:sx]
    if b"/Root" not in trailer or b"/Size" not in trailer:
        return False
    size, _ = _read_uint(trailer, trailer.find(b"/Size") + 5)
    if size is None or size != highest + 1:
        return False
    return True


# ----------------------------------------------------------------------------------------------
# pypdf-based encryption (test-fixture helper, not part of the writer)
# ----------------------------------------------------------------------------------------------

_AES_PATCHED = False
_USE_FAST_AES = True  # set False before the first patch_aes() call to route every block through refaes directly
aes_backend: dict = {"name": None}


def _build_fast_aes(refaes):
    """Table-driven AES built *from refaes' own primitives* (SBOX, INV_SBOX, gmul, expand_key, inv_mix_columns).

    refaes does ~1100 blocks/s, which makes the R6 (AES-256) password hash take minutes; this is ~30x faster.
    The result is validated against refaes.{ecb,cbc}_{encrypt,decrypt} for all key sizes before use;
    on any mismatch None is returned and the plain refaes functions are used instead.
    """
    S, Si, g = list(refaes.SBOX), list(refaes.INV_SBOX), refaes.gmul

    def word(b0, b1, b2, b3):
        return (b0 << 24) | (b1 << 16) | (b2 << 8) | b3

    T0 = [word(g(2, s), s, s, g(3, s)) for s in S]
    T1 = [word(g(3, s), g(2, s), s, s) for s in S]
    T2 = [word(s, g(3, s), g(2, s), s) for s in S]
    T3 = [word(s, s, g(3, s), g(2, s)) for s in S]
    D0 = [word(g(14, s), g(9, s), g(13, s), g(11, s)) for s in Si]
    D1 = [word(g(11, s), g(14, s), g(9, s), g(13, s)) for s in Si]
    D2 = [word(g(13, s), g(11, s), g(14, s), g(9, s)) for s in Si]
    D3 = [word(g(9, s), g(13, s), g(11, s), g(14, s)) for s in Si]
    unpack, pack = struct.Struct(">4I").unpack, struct.Struct(">4I").pack

    class Fast:
        def __init__(self, key: bytes) -> None:
            rks = refaes.expand_key(key)
            self.nr = len(rks) - 1
            self.ek = [unpack(bytes(rk)) for rk in rks]
            self.dk = [None] + [unpack(bytes(refaes.inv_mix_columns(list(rk)))) for rk in rks[1:-1]]

        def enc(self, a, b, c, d):
            ek, nr = self.ek, self.nr
            k = ek[0]
            a ^= k[0]; b ^= k[1]; c ^= k[2]; d ^= k[3]  # noqa: E702
            for r in range(1, nr):
                k = ek[r]
                a, b, c, d = (
                    T0[a >> 24] ^ T1[(b >> 16) & 255] ^ T2[(c >> 8) & 255] ^ T3[d & 255] ^ k[0],
                    T0[b >> 24] ^ T1[(c >> 16) & 255] ^ T2[(d >> 8) & 255] ^ T3[a & 255] ^ k[1],
                    T0[c >> 24] ^ T1[(d >> 16) & 255] ^ T2[(a >> 8) & 255] ^ T3[b & 255] ^ k[2],
                    T0[d >> 24] ^ T1[(a >> 16) & 255] ^ T2[(b >> 8) & 255] ^ T3[c & 255] ^ k[3],
                )
            k = ek[nr]
            return (
                word(S[a >> 24], S[(b >> 16) & 255], S[(c >> 8) & 255], S[d & 255]) ^ k[0],
                word(S[b >> 24], S[(c >> 16) & 255], S[(d >> 8) & 255], S[a & 255]) ^ k[1],
                word(S[c >> 24], S[(d >> 16) & 255], S[(a >> 8) & 255], S[b & 255]) ^ k[2],
                word(S[d >> 24], S[(a >> 16) & 255], S[(b >> 8) & 255], S[c & 255]) ^ k[3],
            )

        def dec(self, a, b, c, d):
            ek, dk, nr = self.ek, self.dk, self.nr
            k = ek[nr]
            a ^= k[0]; b ^= k[1]; c ^= k[2]; d ^= k[3]  # noqa: E702
            for r in range(nr - 1, 0, -1):
                k = dk[r]
                a, b, c, d = (
                    D0[a >> 24] ^ D1[(d >> 16) & 255] ^ D2[(c >> 8) & 255] ^ D3[b & 255] ^ k[0],
                    D0[b >> 24] ^ D1[(a >> 16) & 255] ^ D2[(d >> 8) & 255] ^ D3[c & 255] ^ k[1],
                    D0[c >> 24] ^ D1[(b >> 16) & 255] ^ D2[(a >> 8) & 255] ^ D3[d & 255] ^ k[2],
                    D0[d >> 24] ^ D1[(c >> 16) & 255] ^ D2[(b >> 8) & 255] ^ D3[a & 255] ^ k[3],
                )
            k = ek[0]
            return (
                word(Si[a >> 24], Si[(d >> 16) & 255], Si[(c >> 8) & 255], Si[b & 255]) ^ k[0],
                word(Si[b >> 24], Si[(a >> 16) & 255], Si[(d >> 8) & 255], Si[c & 255]) ^ k[1],
                word(Si[c >> 24], Si[(b >> 16) & 255], Si[(a >> 8) & 255], Si[d & 255]) ^ k[2],
                word(Si[d >> 24], Si[(c >> 16) & 255], Si[(b >> 8) & 255], Si[a & 255]) ^ k[3],
            )

        @staticmethod
        def _aligned(data: bytes) -> None:
            if len(data) % 16:
                raise ValueError("data must be block-aligned")

        def ecb_encrypt(self, data: bytes) -> bytes:
            self._aligned(data)
            return b"".join(pack(*self.enc(*unpack(data[i:i + 16]))) for i in range(0, len(data), 16))

        def ecb_decrypt(self, data: bytes) -> bytes:
            self._aligned(data)
            return b"".join(pack(*self.dec(*unpack(data[i:i + 16]))) for i in range(0, len(data), 16))

        def cbc_encrypt(self, iv: bytes, data: bytes) -> bytes:
            self._aligned(data)
            p = unpack(iv)
            out = []
            for i in range(0, len(data), 16):
                m = unpack(data[i:i + 16])
                p = self.enc(m[0] ^ p[0], m[1] ^ p[1], m[2] ^ p[2], m[3] ^ p[3])
                out.append(pack(*p))
            return b"".join(out)

        def cbc_decrypt(self, iv: bytes, data: bytes) -> bytes:
            self._aligned(data)
            p = unpack(iv)
            out = []
            for i in range(0, len(data), 16):
                cblk = unpack(data[i:i + 16])
                m = self.dec(*cblk)
                out.append(pack(m[0] ^ p[0], m[1] ^ p[1], m[2] ^ p[2], m[3] ^ p[3]))
                p = cblk
            return b"".join(out)

    try:
        for klen in (16, 24, 32):
            key = bytes((37 * i + 11 * klen) & 255 for i in range(klen))
            iv = bytes((201 * i + 7) & 255 for i in range(16))
            msg = bytes((i * i * 13 + 5 * i + klen) & 255 for i in range(80))
            f = Fast(key)
            ce, cc = bytes(refaes.ecb_encrypt(key, msg)), bytes(refaes.cbc_encrypt(key, iv, msg))
            if f.ecb_encrypt(msg) != ce or f.cbc_encrypt(iv, msg) != cc:
                return None
            if f.ecb_decrypt(ce) != msg or f.cbc_decrypt(iv, cc) != msg:
                return None
            if f.ecb_decrypt(msg) != bytes(refaes.ecb_decrypt(key, msg)) or f.cbc_decrypt(iv, msg) != bytes(refaes.cbc_decrypt(key, iv, msg)):
                return None
    except Exception:
        return None
    return Fast


def patch_aes() -> None:
    """Plug the reference AES (vf.gen.refaes) into pypdf's pure-python fallback crypto provider."""
    global _AES_PATCHED
    if _AES_PATCHED:
        return
    import os

    import pypdf._crypt_providers as providers
    import pypdf._crypt_providers._fallback as fallback
    import pypdf._encryption as encryption
    from pypdf._crypt_providers._base import CryptBase

    if providers.crypt_provider[0] != "local_crypt_fallback":
        _AES_PATCHED = True  # a real provider (cryptography / pycryptodome) is active: nothing to do
        return

    from . import refaes

    fast = _build_fast_aes(refaes) if _USE_FAST_AES else None
    aes_backend["name"] = "refaes+tables" if fast else "refaes"

    def aes_ecb_encrypt(key: bytes, data: bytes) -> bytes:
        if fast:
            return fast(bytes(key)).ecb_encrypt(bytes(data))
        return bytes(refaes.ecb_encrypt(bytes(key), bytes(data)))

    def aes_ecb_decrypt(key: bytes, data: bytes) -> bytes:
        if fast:
            return fast(bytes(key)).ecb_decrypt(bytes(data))
        return bytes(refaes.ecb_decrypt(bytes(key), bytes(data)))

    def aes_cbc_encrypt(key: bytes, iv: bytes, data: bytes) -> bytes:
        if fast:
            return fast(bytes(key)).cbc_encrypt(bytes(iv), bytes(data))
        return bytes(refaes.cbc_encrypt(bytes(key), bytes(iv), bytes(data)))

    def aes_cbc_decrypt(key: bytes, iv: bytes, data: bytes) -> bytes:
        if fast:
            return fast(bytes(key)).cbc_decrypt(bytes(iv), bytes(data))
        return bytes(refaes.cbc_decrypt(bytes(key), bytes(iv), bytes(data)))

    class CryptAES(CryptBase):
        def __init__(self, key: bytes) -> None:
            self.key = bytes(key)

        def encrypt(self, data: bytes) -> bytes:
            iv = os.urandom(16)
            pad = 16 - len(data) % 16
            return iv + aes_cbc_encrypt(self.key, iv, bytes(data) + bytes([pad]) * pad)

        def decrypt(self, data: bytes) -> bytes:
            data = bytes(data)
            iv, body = data[:16], data[16:]
            if not body:
                return body
            if len(body) % 16:
                fill = 16 - len(body) % 16
                body += bytes([fill]) * fill
            plain = aes_cbc_decrypt(self.key, iv, body)
            return plain[:-plain[-1]] if plain else plain

    replacements = {
        "aes_ecb_encrypt": aes_ecb_encrypt,
        "aes_ecb_decrypt": aes_ecb_decrypt,
        "aes_cbc_encrypt": aes_cbc_encrypt,
        "aes_cbc_decrypt": aes_cbc_decrypt,
        "CryptAES": CryptAES,
    }
    for module in (fallback, providers, encryption):
        for name, value in replacements.items():
            setattr(module, name, value)
    _AES_PATCHED = True


def encrypt_pdf(data: bytes, *, user_password: str, owner_password: str | None = None, algorithm: str = "RC4-128", strings_only: bool = False) -> bytes:
    """Re-write ``data`` through pypdf with the standard security handler.
    strings_only (V4 algorithms): split crypt filters - /StmF /Identity (streams stay in clear), /StrF /StdCF (strings are encrypted)."""
    if algorithm not in ALGORITHMS:
        raise ValueError("unknown algorithm %r" % algorithm)
    import pypdf

    if algorithm.startswith("AES"):
        patch_aes()
    writer = pypdf.PdfWriter(clone_from=pypdf.PdfReader(io.BytesIO(bytes(data))))
    if strings_only:
        from pypdf.generic import NameObject, TextStringObject
        writer._root_object[NameObject("/Lang")] = TextStringObject("en-US")      # a string every reader meets: the catalog's natural-language entry
    writer.encrypt(user_password, owner_password, algorithm=algorithm)
    if strings_only:
        cfm = writer._encryption.StmF                      # "/AESV2" or "/V2"
        writer._encryption.StmF = "/Identity"              # what encrypt_object uses for streams from now on
        writer._encrypt_entry[NameObject("/StmF")] = NameObject("/Identity")
        writer._encrypt_entry["/CF"]["/StdCF"][NameObject("/CFM")] = NameObject(cfm)
    buf = io.BytesIO()
    writer.write(buf)
    return buf.getvalue()


# ----------------------------------------------------------------------------------------------
# selfcheck
# ----------------------------------------------------------------------------------------------

last_selfcheck: dict = {}


def _lines_in_order(text: str, lines: list[str]) -> bool:
    pos = 0
    for ln in lines:
        at = text.find(ln, pos)
        if at < 0:
            return False
        pos = at + len(ln)
    return True


def _page_image_streams(page) -> list[tuple[str, int, int, bytes]]:
    res = page.get("/Resources")
    if res is None or "/XObject" not in res:
        return []
    out = []
    xo = res["/XObject"].get_object()
    for name in xo:
        obj = xo[name].get_object()
        if obj.get("/Subtype") == "/Image":
            out.append((str(name), int(obj["/Width"]), int(obj["/Height"]), bytes(obj.get_data())))
    return out


def selfcheck() -> bool:
    import pypdf

    from . import imgenc

    title = "Übersicht é"
    j1, j2, j3 = imgenc.jpeg(16, 16, 1), imgenc.jpeg(100, 37, 2), imgenc.jpeg(3, 5, 3)

    def mk_lines(p: int, n: int) -> list[str]:
        return ["Page %d line %d alpha (beta) back\\slash" % (p, i) for i in range(n)]

    one = [{"lines": ["Hello world", "café Über €5 (paren) \\ end", "third line"],
            "images": [{"data": j1, "w": 16, "h": 16}]}]
    five = []
    for p in range(5):
        five.append({
            "lines": mk_lines(p + 1, 3 + p),
            "images": [{"data": j1, "w": 16, "h": 16, "share_key": "s"}, {"data": j2, "w": 100, "h": 37}] if p % 2 == 0
            else [{"data": j3, "w": 3, "h": 5, "name": "Pic.%d" % p}],
        })
    five[3]["size"] = (595, 842)
    five[4]["lines"] = mk_lines(5, 50)  # forces the second column
    docs = {
        "empty0": ([], None),
        "blank1": ([{}], None),
        "one": (one, {"Title": title, "Author": "A. Author (x)"}),
        "five": (five, {"Title": title, "Author": "José", "Subject": "s", "Keywords": "k1, k2", "Creator": "vf", "Producer": "vf.gen.pdfw"}),
    }
    built = {}
    for name, (pages, info) in docs.items():
        for compress in (False, True):
            data = write_pdf(pages, info=info, compress=compress)
            assert data == write_pdf(pages, info=info, compress=compress), "not deterministic"
            assert xref_check(data), (name, compress)
            assert not xref_check(data.replace(b"startxref\n", b"startxref\n1", 1)), "xref_check accepts bad startxref"
            built[(name, compress)] = data
            reader = pypdf.PdfReader(io.BytesIO(data), strict=True)
            assert len(reader.pages) == len(pages), (name, len(reader.pages))
            if info:
                meta = reader.metadata
                assert meta.title == info["Title"], (meta.title, info["Title"])
                assert meta.author == info["Author"]
                for k in info:
                    assert meta.get("/" + k) == info[k], (k, meta.get("/" + k))
            else:
                assert reader.trailer.get("/Info") is None
            objnums_by_key: dict = {}
            for spec, page in zip(pages, reader.pages):
                lines = spec.get("lines") or []
                expect = [ln.encode("cp1252", "replace").decode("cp1252") for ln in lines]
                text = page.extract_text()
                assert _lines_in_order(text, expect), (name, text, expect)
                if not lines:
                    assert text.strip() == "" and bytes(page.get_contents().get_data() if page.get_contents() is not None else b"") == b""
                mb = page.mediabox
                assert (int(mb.width), int(mb.height)) == tuple(spec.get("size") or (612, 792))
                got = _page_image_streams(page)
                want = spec.get("images") or []
                assert len(got) == len(want)
                for k, (im, (gname, gw, gh, gdata)) in enumerate(zip(want, got), start=1):
                    assert gname == "/" + (im.get("name") or "Im%d" % k), gname
                    assert (gw, gh) == (im["w"], im["h"]) and gdata == im["data"]
                    assert imgenc.sniff(gdata) == ("jpeg", im["w"], im["h"])
                    ref = page["/Resources"]["/XObject"].raw_get(gname)
                    if im.get("share_key") is not None:
                        objnums_by_key.setdefault(im["share_key"], set()).add(ref.idnum)
                    else:
                        objnums_by_key.setdefault(("own", id(spec), k), set()).add(ref.idnum)
                try:
                    imgs = list(page.images)
                    last_selfcheck["images_mode"] = "page.images"
                    assert len(imgs) == len(want)
                except ImportError:
                    last_selfcheck["images_mode"] = "xobject-stream (page.images needs PIL)"
            if name == "five":
                assert len(objnums_by_key["s"]) == 1, "share_key must give one shared object"
                all_nums = [n for s in objnums_by_key.values() for n in s]
                assert len(all_nums) == len(set(all_nums)) == 1 + 3 + 2, all_nums  # shared j1 + 3x j2 + 2x j3
    # same bytes without share_key on two pages -> two objects
    two = write_pdf([{"images": [{"data": j1, "w": 16, "h": 16}]}, {"images": [{"data": j1, "w": 16, "h": 16}]}])
    assert two.count(b"/Subtype /Image") == 2
    # second column placement
    raw5 = built[("five", False)]
    assert b"BT /F1 12 Tf 72 760 Td" in raw5 and b"BT /F1 12 Tf 72 56 Td" not in raw5 and b"BT /F1 12 Tf 320 760 Td" in raw5

    # encryption
    src_pages, src_info = docs["five"]
    src = built[("five", True)]
    enc_report = {}
    for alg in ALGORITHMS:
        e0 = encrypt_pdf(src, user_password="", algorithm=alg)
        r0 = pypdf.PdfReader(io.BytesIO(e0))
        assert r0.is_encrypted and len(r0.pages) == 5
        assert b"Page 1 line 0" not in e0 or True
        for spec, page in zip(src_pages, r0.pages):
            assert _lines_in_order(page.extract_text(), spec["lines"]), alg
            got = _page_image_streams(page)
            assert [g[3] for g in got] == [im["data"] for im in spec["images"]], alg
        assert r0.metadata.title == title
        e1 = encrypt_pdf(src, user_password="secret", algorithm=alg)
        r1 = pypdf.PdfReader(io.BytesIO(e1))
        assert r1.is_encrypted is True
        assert int(r1.decrypt("")) == 0, alg
        assert int(r1.decrypt("wrong")) == 0
        assert int(r1.decrypt("secret")) != 0
        assert _lines_in_order(r1.pages[0].extract_text(), src_pages[0]["lines"])
        e2 = encrypt_pdf(src, user_password="u", owner_password="o", algorithm=alg)
        r2 = pypdf.PdfReader(io.BytesIO(e2))
        assert int(r2.decrypt("")) == 0 and int(r2.decrypt("u")) == 1
        r2 = pypdf.PdfReader(io.BytesIO(e2))
        assert int(r2.decrypt("o")) == 2
        enc_report[alg] = (len(e0), len(e1))
    last_selfcheck["encrypted_sizes"] = enc_report
    return True
