"""Mutators (DESIGN §3.4): valid bytes -> hostile bytes.  A mutation is a JSON-able recipe so that every case replays:
   {"op": "truncate", "at": f}           cut at fraction f in [0,1)
   {"op": "flip", "pos": f, "bit": b}    flip one bit
   {"op": "set", "pos": f, "val": v}     overwrite one byte
   {"op": "int", "pos": f, "width": w, "val": name}   stomp an aligned 2/4/8-byte little-endian integer with 0 / 1 / 0x7fffffff / 0xffffffff ...
   {"op": "dup", "pos": f, "len": f2}    duplicate a range in place
   {"op": "del", "pos": f, "len": f2}    delete a range
   {"op": "ins", "pos": f, "hex": ".."}  insert bytes
   {"op": "splice", "pos": f, "other": k, "opos": f2, "len": f3}   copy a range of another input into this one
   {"op": "zip-member", "member": f, "inner": [recipes]}            keep a valid ZIP shell, mutate one member's bytes
   {"op": "zip-drop", "member": f} / {"op": "zip-dupname", "member": f} / {"op": "zip-xml", "member": f, "kind": name}
   {"op": "ole-stream", "stream": f, "inner": [recipes]}             keep a valid OLE2 shell, mutate one stream's bytes
"""
from __future__ import annotations

import io
import zipfile

from hypothesis import strategies as st

INTS = {"zero": 0, "one": 1, "max31": 0x7FFFFFFF, "max32": 0xFFFFFFFF, "neg1": -1, "big": 0x7FFFFFFFFFFFFFFF, "mid": 0x10000}
_NUMBER_KINDS = {"number-huge": b"1000000000000000", "number-negative": b"-1", "number-float": b"1e308", "number-nan": b"NaN", "number-2p31": b"2147483648"}
XML_KINDS = ["unbalanced", "huge-attr", "wrong-ns", "entity", "deep", "bad-utf8", "empty", "no-root", "text-bomb", "doctype"] + sorted(_NUMBER_KINDS)


DICTS = {
    "rtf": [b"\\'", b"\\'zz", b"\\'4", b"\\'\n", b"\\u", b"\\u-1?", b"\\u65536 ", b"\\u-32768\\u-9156?", b"\\uc0 ", b"\\uc9999 ", b"\\bin5 ", b"\\bin99999999 ", b"{", b"}", b"{\\*\\", b"\\pict ", b"\\par ",
            b"\\cell ", b"\\row ", b"\\trowd ", b"\\page ", b"\\ansicpg65001 ", b"\\ansicpg0 ", b"\\ansicpg99999 ", b"{\\fonttbl", b"{\\info", b"\\", b"\\\n", b"\\~", b"\x00", b"{\\object\\objdata ", b"\\deleted ",
            b"\\u-9156?", b"\\u-10179?", b"\\u-10179?\\u-8704?", b"\\u55357?", b"\\u56836?", b"\\fcharset128 ", b"\\f99999 ", b"\\-", b"\\sect ", b"\\footnote ", b"{\\field{\\*\\fldinst HYPERLINK \"x\"}{\\fldrslt y}}", b"\\upr", b"\\ud"],
    "html": [b"<", b">", b"<!--", b"-->", b"<![CDATA[", b"]]>", b"<script>", b"</script>", b"<style>", b"<table>", b"</table>", b"<tr>", b"<td colspan=99999999>", b"<td rowspan=-1>", b"&#x110000;", b"&#99999999999;",
             b"&bogus;", b"&#xD800;", b"<meta charset=bogus>", b"<meta charset=utf-16>", b"<meta http-equiv=Content-Type content='text/html; charset=x-user-defined'>", b"\x00", b"<br", b"<a href=", b"</", b"<svg>",
             b"<?xml version='1.0' encoding='bogus'?>", b"<!DOCTYPE", b"<li>", b"<ol start=x>", b"<h7>", b"<img src=data:image/png;base64,AAAA>", b"<title>", b"<base href=", b"\xff\xfe", b"<p/>"],
    "mail": [b"\nFrom ", b"\n\n", b"\nContent-Type: multipart/mixed; boundary=x\n", b"\n--x\n", b"\n--x--\n", b"\nContent-Transfer-Encoding: base64\n", b"\nContent-Transfer-Encoding: quoted-printable\n",
             b"=?utf-8?b?////?=", b"=?bogus?q?x?=", b"=?utf-8?q?=ZZ?=", b"\nContent-Type: message/rfc822\n", b"\nContent-Type: text/html; charset=bogus\n", b"\nDate: garbage\n", b"\nDate: Thu, 99 Jan 2024 25:61:61 +9999\n", b"=\n",
             b"=ZZ", b"\r", b"\nContent-Disposition: attachment; filename*=utf-8''%ff\n", b"\nSubject: \n\t\n", b"\nTo: <>, a@, @b, \"x\n", b"\nContent-Type: text/plain; charset=\"utf-16\"\n", b"\nMIME-Version: 1.0\n",
             b"\nContent-Type: multipart/related; boundary=\"\"\n", b"\nContent-Location: file:///x\n", b"\x00", b"\nFrom nobody Thu Jan  1 00:00:00 1970\n", b">From ", b"\nSubject: Gr\xfc\xdfe\n", b"\xff", b"\nX-Bin: \x80\x81\n", b"\nFrom: \xe4 <a@b.c>\n", b"\nContent-Type: text/plain; charset=\xff\n"],
    "pdf": [b" obj", b"endobj", b"stream\n", b"\nendstream", b"xref", b"trailer", b"startxref", b"<<", b">>", b"/Length 99999999", b"/Kids [1 0 R]", b"/Parent 1 0 R", b"/Filter /FlateDecode", b"/Filter /LZWDecode",
            b"/Filter [/ASCIIHexDecode /FlateDecode]", b"/Filter /DCTDecode", b"/Encrypt 1 0 R", b"/Prev 0", b"/Type /ObjStm", b"/Type /XRef", b"0 0 R", b"(", b")", b"\\", b"BT", b"ET", b" Tj", b"/ToUnicode 1 0 R",
            b"beginbfrange", b"<FFFF> <0000> <0041>", b"/Count -1", b"/Count 99999999", b"/MediaBox [0 0 0 0]", b"/Rotate 45", b"/W [1 2 1]", b"/Index [0 99999999]", b"/Size 0", b"%%EOF", b"/Contents [", b"/Subtype /Image",
            b"/Width 99999999", b"/ColorSpace [/Indexed /DeviceRGB 255 1 0 R]", b"/DecodeParms << /Predictor 12 /Columns 0 >>", b"ID", b"EI"],
    "text": [b'"', b",", b"\n", b"\r", b"\x00", b"\xff\xfe", b"\xfe\xff", b"\xef\xbb\xbf", b"{", b"[", b"}", b"]", b"\\u", b"\\ud800", b"1e999", b"\t", b"|", b"#", b"```", b"\xc3", b"\xe2\x82", b"\xf4\x90\x80\x80", b";", b"'", b":"],
}
LEAD = {"rtf": b"\\", "html": b"<", "mail": b"\n", "pdf": b"/", "text": b"\n"}
DICT_FOR = {"rtf": "rtf", "html": "html", "mhtml": "mail", "eml": "mail", "mbox": "mail", "pdf": "pdf", "txt": "text", "csv": "text", "json": "text", "md": "text"}


def _pos(data, f):
    return min(len(data) - 1, int(f * len(data))) if data else 0


def apply_one(data: bytes, r: dict, others: list[bytes] | None = None) -> bytes:
    op = r["op"]
    if op == "truncate":
        return data[:int(r["at"] * len(data))]
    if not data and op not in ("ins",):
        return data
    if op == "flip":
        b = bytearray(data)
        b[_pos(data, r["pos"])] ^= 1 << (r["bit"] % 8)
        return bytes(b)
    if op == "set":
        b = bytearray(data)
        b[_pos(data, r["pos"])] = r["val"] % 256
        return bytes(b)
    if op == "int":
        w = r["width"]
        p = (_pos(data, r["pos"]) // w) * w
        if p + w > len(data):
            return data
        v = INTS[r["val"]] & ((1 << (8 * w)) - 1)
        return data[:p] + v.to_bytes(w, "little") + data[p + w:]
    if op == "dup":
        p = _pos(data, r["pos"])
        n = max(1, int(r["len"] * min(len(data) - p, 4096)))
        return data[:p + n] + data[p:p + n] + data[p + n:]
    if op == "del":
        p = _pos(data, r["pos"])
        n = max(1, int(r["len"] * min(len(data) - p, 4096)))
        return data[:p] + data[p + n:]
    if op == "ins":
        p = int(r["pos"] * len(data))
        return data[:p] + bytes.fromhex(r["hex"]) + data[p:]
    if op == "splice":
        if not others:
            return data
        o = others[r["other"] % len(others)]
        if not o:
            return data
        p, q = _pos(data, r["pos"]), _pos(o, r["opos"])
        n = max(1, int(r["len"] * min(len(o) - q, 8192)))
        return data[:p] + o[q:q + n] + data[p:]
    if op == "dict":
        toks = DICTS[r["fmt"]]
        tok = toks[r["tok"] % len(toks)]
        p = int(r["pos"] * len(data))
        if r.get("snap"):          # move to just after the nearest following occurrence of the format's lead byte (a control word, a tag, a header line)
            q = data.find(LEAD[r["fmt"]], p)
            p = q if q >= 0 else p
        return data[:p] + tok + (data[p + len(tok):] if r.get("over") else data[p:])
    if op.startswith("zip-"):
        return _zip_mutate(data, r, others)
    if op == "ole-stream":
        return _ole_mutate(data, r, others)
    raise ValueError(op)


def apply(data: bytes, recipes: list[dict], others: list[bytes] | None = None) -> bytes:
    for r in recipes:
        data = apply_one(data, r, others)
    return data


def _xml_damage(xml: bytes, kind: str) -> bytes:
    if kind == "unbalanced":
        i = xml.rfind(b"</")
        return xml[:i] if i > 0 else xml + b"<x>"
    if kind == "huge-attr":
        i = xml.find(b">", xml.find(b"?>") + 2)
        return xml[:i] + b' vf="' + b"A" * 200000 + b'"' + xml[i:] if i > 0 else xml
    if kind == "wrong-ns":
        return xml.replace(b"http://", b"urn:x-vf:", 3)
    if kind == "entity":
        body = xml[xml.find(b"?>") + 2:] if xml.startswith(b"<?xml") else xml
        return b'<?xml version="1.0"?><!DOCTYPE r [<!ENTITY a "aaaaaaaaaa"><!ENTITY b "&a;&a;&a;&a;&a;&a;&a;&a;"><!ENTITY c "&b;&b;&b;&b;&b;&b;&b;&b;">]>' + body.replace(b">", b">&c;", 1)
    if kind == "doctype":
        body = xml[xml.find(b"?>") + 2:] if xml.startswith(b"<?xml") else xml
        return b'<?xml version="1.0"?><!DOCTYPE r SYSTEM "file:///etc/passwd">' + body
    if kind == "deep":
        return xml[:xml.rfind(b"</")] + b"<d>" * 3000 + b"x" + b"</d>" * 3000 + xml[xml.rfind(b"</"):] if b"</" in xml else xml
    if kind == "bad-utf8":
        i = len(xml) // 2
        return xml[:i] + b"\xff\xfe\xc0\xaf" + xml[i:]
    if kind == "empty":
        return b""
    if kind == "no-root":
        return b'<?xml version="1.0"?>'
    if kind in _NUMBER_KINDS:
        # container-aware: every decimal attribute value (counts, sizes, indexes) becomes one extreme number
        import re as _re
        # row numbers of spreadsheet parts (<row r="5">) are left alone: a far row makes the reader build every row in between, which is a listed finding of C12
        # (dense grid model) and would sit right at C01's CPU budget
        return _re.sub(rb'(?<! r)="\d{1,9}"', b'="' + _NUMBER_KINDS[kind] + b'"', xml)
    if kind == "text-bomb":
        i = xml.rfind(b"</")
        return xml[:i] + b"Z" * 300000 + xml[i:] if i > 0 else xml
    raise ValueError(kind)


def _zip_mutate(data: bytes, r: dict, others):
    try:
        src = zipfile.ZipFile(io.BytesIO(data))
        infos = src.infolist()
    except Exception:
        return data
    if not infos:
        return data
    idx = min(len(infos) - 1, int(r["member"] * len(infos)))
    if r.get("name") is not None:      # deterministic sweeps address the member by name
        idx = next((i for i, zi in enumerate(infos) if zi.filename == r["name"]), idx)
    buf = io.BytesIO()
    with zipfile.ZipFile(buf, "w") as out:
        for i, zi in enumerate(infos):
            try:
                content = src.read(zi.filename)
            except Exception:
                content = b""
            comp = zipfile.ZIP_STORED if zi.filename == "mimetype" else zipfile.ZIP_DEFLATED
            if i == idx:
                if r["op"] == "zip-drop":
                    continue
                if r["op"] == "zip-member":
                    content = apply(content, r["inner"], others)
                elif r["op"] == "zip-xml":
                    content = _xml_damage(content, r["kind"])
                elif r["op"] == "zip-dupname":
                    out.writestr(zipfile.ZipInfo(zi.filename, date_time=(2024, 1, 1, 0, 0, 0)), b"<dup/>", compress_type=comp)
            import warnings
            with warnings.catch_warnings():
                warnings.simplefilter("ignore")
                out.writestr(zipfile.ZipInfo(zi.filename, date_time=(2024, 1, 1, 0, 0, 0)), content, compress_type=comp)
    return buf.getvalue()


def _ole_mutate(data: bytes, r: dict, others):
    from vf.gen import ole2
    try:
        streams = ole2.read_cfb(data)
    except Exception:
        return data
    if not streams:
        return data
    names = sorted(streams)
    name = names[min(len(names) - 1, int(r["stream"] * len(names)))]
    streams[name] = apply(streams[name], r["inner"], others)
    try:
        return ole2.write_cfb(streams)
    except Exception:
        return data


# ---- strategies ----------------------------------------------------------------------------------------------------
_F = st.integers(0, 999999).map(lambda x: x / 1000000)


def byte_recipe():
    return st.one_of(
        st.fixed_dictionaries({"op": st.just("truncate"), "at": _F}),
        st.fixed_dictionaries({"op": st.just("flip"), "pos": _F, "bit": st.integers(0, 7)}),
        st.fixed_dictionaries({"op": st.just("set"), "pos": _F, "val": st.sampled_from([0, 1, 0x7F, 0x80, 0xFF, 0x3C, 0x7B, 0x5C])}),
        st.fixed_dictionaries({"op": st.just("int"), "pos": _F, "width": st.sampled_from([2, 4, 8]), "val": st.sampled_from(sorted(INTS))}),
        st.fixed_dictionaries({"op": st.just("dup"), "pos": _F, "len": _F}),
        st.fixed_dictionaries({"op": st.just("del"), "pos": _F, "len": _F}),
        st.fixed_dictionaries({"op": st.just("ins"), "pos": _F, "hex": st.binary(min_size=1, max_size=12).map(bytes.hex)}),
        st.fixed_dictionaries({"op": st.just("splice"), "pos": _F, "other": st.integers(0, 50), "opos": _F, "len": _F}),
    )


def dict_recipe(fmt: str):
    return st.fixed_dictionaries({"op": st.just("dict"), "fmt": st.just(fmt), "pos": _F, "tok": st.integers(0, 63), "over": st.booleans(), "snap": st.booleans()})


def recipes(container: str | None, ext: str | None = None):
    """container: 'zip' | 'ole' | None; ext selects a token dictionary for the text-like formats"""
    base = st.lists(byte_recipe(), min_size=1, max_size=3)
    if ext in DICT_FOR:
        d = dict_recipe(DICT_FOR[ext])
        return st.one_of(base, st.lists(d, min_size=1, max_size=3), st.lists(st.one_of(d, d, byte_recipe()), min_size=1, max_size=4))
    if container == "zip":
        zipops = st.one_of(
            st.fixed_dictionaries({"op": st.just("zip-member"), "member": _F, "inner": st.lists(byte_recipe(), min_size=1, max_size=3)}),
            st.fixed_dictionaries({"op": st.just("zip-xml"), "member": _F, "kind": st.sampled_from(XML_KINDS)}),
            st.fixed_dictionaries({"op": st.just("zip-drop"), "member": _F}),
            st.fixed_dictionaries({"op": st.just("zip-dupname"), "member": _F}),
        )
        return st.one_of(base, st.lists(zipops, min_size=1, max_size=2), st.lists(zipops, min_size=1, max_size=2))
    if container == "ole":
        oleop = st.fixed_dictionaries({"op": st.just("ole-stream"), "stream": _F, "inner": st.lists(byte_recipe(), min_size=1, max_size=3)})
        return st.one_of(base, st.lists(oleop, min_size=1, max_size=2), st.lists(oleop, min_size=1, max_size=2))
    return base
