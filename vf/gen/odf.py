"""ODF renderers written from the OpenDocument 1.2 specification (raw XML + zipfile): odt, odp, odg, odf(formula).  (ods lives in sheets.py)"""
from __future__ import annotations

import io
import zipfile
from xml.sax.saxutils import escape, quoteattr

NSDECL = ('xmlns:office="urn:oasis:names:tc:opendocument:xmlns:office:1.0" xmlns:style="urn:oasis:names:tc:opendocument:xmlns:style:1.0" '
          'xmlns:text="urn:oasis:names:tc:opendocument:xmlns:text:1.0" xmlns:table="urn:oasis:names:tc:opendocument:xmlns:table:1.0" '
          'xmlns:draw="urn:oasis:names:tc:opendocument:xmlns:drawing:1.0" xmlns:fo="urn:oasis:names:tc:opendocument:xmlns:xsl-fo-compatible:1.0" '
          'xmlns:xlink="http://www.w3.org/1999/xlink" xmlns:dc="http://purl.org/dc/elements/1.1/" xmlns:meta="urn:oasis:names:tc:opendocument:xmlns:meta:1.0" '
          'xmlns:svg="urn:oasis:names:tc:opendocument:xmlns:svg-compatible:1.0" xmlns:presentation="urn:oasis:names:tc:opendocument:xmlns:presentation:1.0" '
          'xmlns:math="http://www.w3.org/1998/Math/MathML" xmlns:number="urn:oasis:names:tc:opendocument:xmlns:datastyle:1.0" office:version="1.2"')
MIMETYPES = {"odt": "application/vnd.oasis.opendocument.text", "odp": "application/vnd.oasis.opendocument.presentation", "ods": "application/vnd.oasis.opendocument.spreadsheet",
             "odg": "application/vnd.oasis.opendocument.graphics", "odf": "application/vnd.oasis.opendocument.formula"}
IMG_MIME = {"png": "image/png", "jpeg": "image/jpeg", "jpg": "image/jpeg", "gif": "image/gif", "bmp": "image/bmp"}


def meta_xml(props: dict | None) -> str:
    p = props or {}
    parts = ["<meta:generator>vf/1.0</meta:generator>", "<meta:creation-date>2024-03-01T12:00:00</meta:creation-date>", "<dc:date>2024-03-02T12:00:00</dc:date>",
             "<meta:editing-cycles>3</meta:editing-cycles>", "<meta:editing-duration>PT5M</meta:editing-duration>"]
    if p.get("title") is not None:
        parts.append(f"<dc:title>{escape(p['title'])}</dc:title>")
    if p.get("description") is not None:
        parts.append(f"<dc:description>{escape(p['description'])}</dc:description>")
    if p.get("subject") is not None:
        parts.append(f"<dc:subject>{escape(p['subject'])}</dc:subject>")
    if p.get("author") is not None:
        parts.append(f"<dc:creator>{escape(p['author'])}</dc:creator><meta:initial-creator>{escape(p['author'])}</meta:initial-creator>")
    if p.get("keywords") is not None:
        parts.append(f"<meta:keyword>{escape(p['keywords'])}</meta:keyword>")
    return f'<?xml version="1.0" encoding="UTF-8"?><office:document-meta {NSDECL}><office:meta>{"".join(parts)}</office:meta></office:document-meta>'


def package(kind: str, content: str, *, styles: str | None = None, props=None, media: dict | None = None, manifest_extra: str = "", extra_files: dict | None = None, meta: bool = True) -> bytes:
    """meta=False: a package without meta.xml (minimal writers leave it out when there are no document properties)"""
    media = media or {}
    entries = [f'<manifest:file-entry manifest:full-path="/" manifest:version="1.2" manifest:media-type="{MIMETYPES[kind]}"/>',
               '<manifest:file-entry manifest:full-path="content.xml" manifest:media-type="text/xml"/>'] + (
               ['<manifest:file-entry manifest:full-path="meta.xml" manifest:media-type="text/xml"/>'] if meta else [])
    if styles is not None:
        entries.append('<manifest:file-entry manifest:full-path="styles.xml" manifest:media-type="text/xml"/>')
    for name in media:
        ext = name.rsplit(".", 1)[-1].lower()
        entries.append(f'<manifest:file-entry manifest:full-path={quoteattr(name)} manifest:media-type="{IMG_MIME.get(ext, "application/octet-stream")}"/>')
    manifest = ('<?xml version="1.0" encoding="UTF-8"?><manifest:manifest xmlns:manifest="urn:oasis:names:tc:opendocument:xmlns:manifest:1.0" manifest:version="1.2">'
                + "".join(entries) + manifest_extra + "</manifest:manifest>")
    buf = io.BytesIO()
    with zipfile.ZipFile(buf, "w") as z:
        z.writestr(zipfile.ZipInfo("mimetype", date_time=(2024, 3, 1, 12, 0, 0)), MIMETYPES[kind], compress_type=zipfile.ZIP_STORED)
        for name, data in [("content.xml", content)] + ([("meta.xml", meta_xml(props))] if meta else []) + ([("styles.xml", styles)] if styles is not None else []) + [("META-INF/manifest.xml", manifest)]:
            zi = zipfile.ZipInfo(name, date_time=(2024, 3, 1, 12, 0, 0))
            z.writestr(zi, data.encode("utf-8"), compress_type=zipfile.ZIP_DEFLATED)
        for name, data in media.items():
            z.writestr(zipfile.ZipInfo(name, date_time=(2024, 3, 1, 12, 0, 0)), data, compress_type=zipfile.ZIP_STORED)
        for name, data in (extra_files or {}).items():
            z.writestr(zipfile.ZipInfo(name, date_time=(2024, 3, 1, 12, 0, 0)), data, compress_type=zipfile.ZIP_DEFLATED)
    return buf.getvalue()


AUTO_STYLES = ('<office:automatic-styles><style:style style:name="P1" style:family="paragraph"/><style:style style:name="T1" style:family="text"><style:text-properties fo:font-weight="bold"/></style:style>'
               '<style:style style:name="T2" style:family="text"><style:text-properties fo:font-style="italic" fo:color="#ff0000"/></style:style>'
               '<style:style style:name="fr1" style:family="graphic"/><style:style style:name="Tbl1" style:family="table"/></office:automatic-styles>')


class _St:
    def __init__(self, doc, images, opts):
        self.doc, self.images, self.opts = doc, images or [], opts or {}
        self.changes = []  # deleted regions: (id, inlines)
        self.nid = 0
        self.media = {}

    def next(self, prefix):
        self.nid += 1
        return f"{prefix}{self.nid}"


def _t_inlines(inl, st):
    out = []
    for i in inl:
        k = i["k"]
        if k == "t":
            sty = i.get("sty", 0)
            if sty == 0:
                out.append(escape(i["tok"]))
            elif sty == 3:
                out.append(f'<text:span text:style-name="T1">{escape(i["tok"][:3])}</text:span>{escape(i["tok"][3:])}')
            else:
                out.append(f'<text:span text:style-name="T{sty}">{escape(i["tok"])}</text:span>')
        elif k == "tab":
            out.append("<text:tab/>")
        elif k == "br":
            out.append("<text:line-break/>")
        elif k == "link":
            out.append(f'<text:a xlink:type="simple" xlink:href={quoteattr(i.get("url", "https://example.org/"))}>{_t_inlines(i["inl"], st)}</text:a>')
        elif k == "ins":
            cid = st.next("ct")
            st.changes.append((cid, None))
            out.append(f'<text:change-start text:change-id="{cid}"/>{_t_inlines(i["inl"], st)}<text:change-end text:change-id="{cid}"/>')
        elif k == "del":
            cid = st.next("ct")
            st.changes.append((cid, i["inl"]))
            out.append(f'<text:change text:change-id="{cid}"/>')
        elif k == "cref":
            c = st.doc["comments"][i["id"]]
            out.append(f'<office:annotation office:name="__Annotation__{i["id"]}"><dc:creator>vf</dc:creator><dc:date>2024-03-01T12:00:00</dc:date><text:p>{_t_inlines(c, st)}</text:p></office:annotation>')
        elif k == "note":
            nid = st.next("ftn")
            out.append(f'<text:note text:id="{nid}" text:note-class="footnote"><text:note-citation>{st.nid}</text:note-citation><text:note-body><text:p>{_t_inlines(i["inl"], st)}</text:p></text:note-body></text:note>')
        elif k == "field":
            out.append(f'<text:user-defined text:name="x">{escape(i["tok"])}</text:user-defined>')
        elif k == "sdt":
            out.append(f'<text:span text:style-name="T2">{_t_inlines(i["inl"], st)}</text:span>')
        else:
            raise ValueError(k)
    # run_space: the inline pieces of a paragraph are separated by one blank in the source (a single blank between inline elements is a significant character in ODF,
    # also when it is the only text between a skipped note/annotation anchor and the next span)
    if not st.opts.get("run_space"):
        return "".join(out)
    # ... and a note / annotation anchor sits directly behind the word it belongs to, so the blank behind the anchor is the only separator of the two words around it
    anchored = [i["k"] in ("note", "cref") for i in inl]
    return "".join(("" if (n == 0 or anchored[n]) else " ") + piece for n, piece in enumerate(out))


def _image_frame(st, idx, anchor="as-char", extra_attrs=""):
    img = st.images[idx]
    form = st.opts.get("img_ref", "relative")
    name = f"Pictures/image{idx + 1}.{img['ext']}"
    if st.opts.get("share_media"):
        # one picture part placed several times (a logo on every slide): later placements point at the part stored first
        name = next((n for n, d in st.media.items() if d == img["data"]), name)
    st.media[name] = img["data"]
    href = {"relative": name, "dot": "./" + name}[form] if not img.get("external") else img["external"]
    w, h = img.get("disp_w") or f"{img.get('w', 10) / 96 * 2.54:.4f}cm", img.get("disp_h") or f"{img.get('h', 10) / 96 * 2.54:.4f}cm"
    title = f"<svg:title>{escape(img['alt'])}</svg:title>" if img.get("alt") else ""
    frame = (f'<draw:frame draw:style-name="fr1" draw:name="Image{idx + 1}" text:anchor-type="{anchor}" svg:width="{w}" svg:height="{h}" draw:z-index="0"{extra_attrs}>'
             f'<draw:image xlink:href={quoteattr(href)} xlink:type="simple" xlink:show="embed" xlink:actuate="onLoad"/>{title}</draw:frame>')
    if st.opts.get("ghost_frame") and idx % 2 == 0:
        # a frame whose picture part is missing from the package (a broken link left behind by an editor) precedes the real one: it places no image and uses up no number
        frame = frame.replace(quoteattr(href), quoteattr(f"Pictures/missing{idx + 1}.{img['ext']}"), 1).replace(f'draw:name="Image{idx + 1}"', f'draw:name="Ghost{idx + 1}"', 1) + frame
    return frame


def _t_blocks(blocks, st):
    out = []
    for b in blocks:
        k = b["k"]
        if k == "p":
            if b.get("h"):
                out.append(f'<text:h text:style-name="Heading_20_{b["h"]}" text:outline-level="{b["h"]}">{_t_inlines(b["inl"], st)}</text:h>')
            else:
                out.append(f'<text:p text:style-name="P1">{_t_inlines(b["inl"], st)}</text:p>')
        elif k == "list":
            def lst(items):
                s = ['<text:list text:style-name="L1">']
                for it in items:
                    s.append(f'<text:list-item><text:p text:style-name="P1">{_t_inlines(it["inl"], st)}</text:p>')
                    if it.get("sub"):
                        s.append(lst(it["sub"]))
                    s.append("</text:list-item>")
                s.append("</text:list>")
                return "".join(s)
            out.append(lst(b["items"]))
        elif k == "tbl":
            ncol = max(len(r) for r in b["rows"])
            rows = []
            for ri, row in enumerate(b["rows"]):
                cells = "".join(f'<table:table-cell office:value-type="string">{_t_blocks(c["blocks"], st)}</table:table-cell>' for c in row)
                if st.opts.get("span_first_cell") and ri == 0 and ncol >= 2 and len(b["rows"]) >= 2:
                    # a title cell merged across the whole first row (only its first cell's content is rendered; used by the checks whose oracle is self-consistency: C04, C06)
                    cells = (f'<table:table-cell office:value-type="string" table:number-columns-spanned="{ncol}">{_t_blocks(row[0]["blocks"], st)}</table:table-cell>'
                             + "<table:covered-table-cell/>" * (ncol - 1))
                rows.append(f"<table:table-row>{cells}</table:table-row>")
            hdr = b.get("hdr", 0)
            body = (f"<table:table-header-rows>{''.join(rows[:hdr])}</table:table-header-rows>" if hdr else "") + "".join(rows[hdr:])
            out.append(f'<table:table table:name="{st.next("Table")}" table:style-name="Tbl1"><table:table-column table:number-columns-repeated="{ncol}"/>{body}</table:table>')
        elif k == "box":
            inner = _t_blocks(b["blocks"], st)
            if b["kind"] == "section":
                out.append(f'<text:section text:style-name="Sect1" text:name="{st.next("Section")}">{inner}</text:section>')
            elif b["kind"] == "textbox":
                out.append(f'<text:p text:style-name="P1"><draw:frame draw:style-name="fr1" draw:name="{st.next("Frame")}" text:anchor-type="paragraph" svg:width="6cm" draw:z-index="1">'
                           f'<draw:text-box fo:min-height="1cm">{inner}</draw:text-box></draw:frame></text:p>')
            else:
                out.append(inner)
        elif k == "pb":
            out.append('<text:p text:style-name="PB"/>')
        elif k == "img":
            out.append(f'<text:p text:style-name="P1">{_image_frame(st, b["id"])}</text:p>')
        else:
            raise ValueError(k)
    return "".join(out)


def _tracked(st):
    if not st.changes:
        return ""
    regions = []
    for cid, inl in st.changes:
        info = "<office:change-info><dc:creator>vf</dc:creator><dc:date>2024-03-01T12:00:00</dc:date></office:change-info>"
        if inl is None:
            regions.append(f'<text:changed-region xml:id="{cid}" text:id="{cid}"><text:insertion>{info}</text:insertion></text:changed-region>')
        else:
            regions.append(f'<text:changed-region xml:id="{cid}" text:id="{cid}"><text:deletion>{info}<text:p text:style-name="P1">{_t_inlines(inl, st)}</text:p></text:deletion></text:changed-region>')
    return f'<text:tracked-changes text:track-changes="true">{"".join(regions)}</text:tracked-changes>'


def render_odt(doc, *, images=None, opts=None) -> bytes:
    st = _St(doc, images, opts)
    body = "".join(_t_blocks(u["blocks"], st) for u in doc["units"])
    auto = AUTO_STYLES.replace("</office:automatic-styles>", '<style:style style:name="PB" style:family="paragraph"><style:paragraph-properties fo:break-before="page"/></style:style>'
                               '<style:style style:name="Sect1" style:family="section"/></office:automatic-styles>')
    content = (f'<?xml version="1.0" encoding="UTF-8"?><office:document-content {NSDECL}>{auto}<office:body><office:text>'
               f'<text:sequence-decls><text:sequence-decl text:display-outline-level="0" text:name="Illustration"/></text:sequence-decls>{_tracked(st)}{body}</office:text></office:body></office:document-content>')
    hf = ""
    if doc.get("header") is not None:
        hf = f'<style:header><text:p>{_t_inlines(doc["header"], st)}</text:p></style:header><style:footer><text:p>{_t_inlines(doc.get("footer") or [], st)}</text:p></style:footer>'
    heads = "".join(f'<style:style style:name="Heading_20_{i}" style:display-name="Heading {i}" style:family="paragraph" style:default-outline-level="{i}"/>' for i in range(1, 7))
    styles = (f'<?xml version="1.0" encoding="UTF-8"?><office:document-styles {NSDECL}><office:styles><style:style style:name="Standard" style:family="paragraph"/>{heads}</office:styles>'
              '<office:automatic-styles><style:page-layout style:name="pm1"/></office:automatic-styles>'
              f'<office:master-styles><style:master-page style:name="Standard" style:page-layout-name="pm1">{hf}</style:master-page></office:master-styles></office:document-styles>')
    return package("odt", content, styles=styles, props=doc.get("props"), media=st.media, meta=not (st.opts.get("no_meta") and not doc.get("props")))


# ---- presentations / drawings ------------------------------------------------------------------------------
def _page_frames(blocks, st, ctx):
    out = []
    for b in blocks:
        ctx["y"] += 1.5
        pos = f'svg:x="{1 + ctx["n"] * 0.01:.2f}cm" svg:y="{ctx["y"]:.2f}cm" svg:width="20cm" svg:height="1.2cm"'
        ctx["n"] += 1
        k = b["k"]
        if k in ("p", "list"):
            is_title = k == "p" and b.get("h") and not ctx["title"] and ctx["top"] and ctx["n"] == 1  # only the first frame: the documented order is title, body, other
            if is_title:
                ctx["title"] = True
            pclass = ' presentation:class="title"' if is_title else ""
            pstyle = "TitleText" if is_title else "P1"
            if not is_title and ctx["title"] and k == "p" and b.get("h") and st.opts.get("subtitle_styles"):
                pstyle = "SubTitle"         # a second title-like style on the slide: its text is ordinary slide text, the slide title stays the first one
            if k == "p":
                inner = f'<text:p text:style-name="{pstyle}">{_t_inlines(b["inl"], st)}</text:p>'
            else:
                def lst(items):
                    s = ["<text:list>"]
                    for it in items:
                        s.append(f'<text:list-item><text:p text:style-name="P1">{_t_inlines(it["inl"], st)}</text:p>')
                        if it.get("sub"):
                            s.append(lst(it["sub"]))
                        s.append("</text:list-item>")
                    s.append("</text:list>")
                    return "".join(s)
                inner = lst(b["items"])
            out.append(f'<draw:frame draw:style-name="fr1" draw:layer="layout" {pos}{pclass}><draw:text-box>{inner}</draw:text-box></draw:frame>')
        elif k == "tbl":
            ncol = max(len(r) for r in b["rows"])
            rows = []
            for ri, row in enumerate(b["rows"]):
                cells = "".join(f'<table:table-cell>{_t_blocks(c["blocks"], st)}</table:table-cell>' for c in row)
                if st.opts.get("span_first_cell") and ri == 0 and ncol >= 2 and len(b["rows"]) >= 2:
                    cells = f'<table:table-cell table:number-columns-spanned="{ncol}">{_t_blocks(row[0]["blocks"], st)}</table:table-cell>' + "<table:covered-table-cell/>" * (ncol - 1)
                rows.append(f"<table:table-row>{cells}</table:table-row>")
            hdr = b.get("hdr", 0)
            body = (f"<table:table-header-rows>{''.join(rows[:hdr])}</table:table-header-rows>" if hdr else "") + "".join(rows[hdr:])
            out.append(f'<draw:frame draw:style-name="fr1" draw:layer="layout" {pos}><table:table><table:table-column table:number-columns-repeated="{ncol}"/>{body}</table:table></draw:frame>')
        elif k == "box":
            save_top = ctx["top"]
            ctx["top"] = False
            inner = _page_frames(b["blocks"], st, ctx)
            ctx["top"] = save_top
            if b["kind"] == "group":
                out.append(f"<draw:g>{inner}</draw:g>")
            elif b["kind"] == "custom-shape":
                paras = "".join(f'<text:p>{_t_inlines(x["inl"], st)}</text:p>' for x in b["blocks"] if x["k"] == "p")
                out.append(f'<draw:custom-shape draw:style-name="fr1" draw:layer="layout" {pos}>{paras}<draw:enhanced-geometry draw:type="rectangle"/></draw:custom-shape>')
            else:
                out.append(inner)
        elif k == "img":
            out.append(_image_frame(st, b["id"], anchor="page", extra_attrs=f' draw:layer="layout" svg:x="1cm" svg:y="{ctx["y"]:.2f}cm"').replace(' text:anchor-type="page"', ""))
        else:
            raise ValueError(k)
    return "".join(out)


def render_odp(doc, *, images=None, opts=None, kind="odp") -> bytes:
    st = _St(doc, images, opts)
    pages = []
    for i, u in enumerate(doc["units"]):
        ctx = {"y": 0.0, "n": 0, "title": False, "top": True}
        frames = _page_frames(u["blocks"], st, ctx)
        notes = ""
        if u.get("notes") and kind == "odp":
            notes = (f'<presentation:notes draw:style-name="dp2"><draw:page-thumbnail draw:layer="layout" draw:page-number="{i + 1}"/>'
                     f'<draw:frame presentation:class="notes" draw:layer="layout" svg:x="2cm" svg:y="14cm" svg:width="16cm" svg:height="10cm"><draw:text-box><text:p>{_t_inlines(u["notes"], st)}</text:p></draw:text-box></draw:frame></presentation:notes>')
        if i == 0 and kind == "odp":  # Impress stores comments as page-level annotations
            for ci, c in enumerate(doc.get("comments") or []):
                notes += (f'<office:annotation svg:x="{ci}cm" svg:y="0cm"><dc:creator>vf</dc:creator><dc:date>2024-03-01T12:00:00</dc:date><text:p>{_t_inlines(c, st)}</text:p></office:annotation>')
        name = u.get("name") or f"page{i + 1}"
        pages.append(f'<draw:page draw:name={quoteattr(name)} draw:style-name="dp1" draw:master-page-name="Default">{frames}{notes}</draw:page>')
    bodytag = "office:presentation" if kind == "odp" else "office:drawing"
    content = f'<?xml version="1.0" encoding="UTF-8"?><office:document-content {NSDECL}>{AUTO_STYLES}<office:body><{bodytag}>{"".join(pages)}</{bodytag}></office:body></office:document-content>'
    footer = ""
    if doc.get("footer") is not None:
        footer = f'<draw:frame presentation:class="footer" draw:layer="backgroundobjects" svg:x="1cm" svg:y="19cm" svg:width="10cm" svg:height="1cm"><draw:text-box><text:p>{_t_inlines(doc["footer"], st)}</text:p></draw:text-box></draw:frame>'
    styles = (f'<?xml version="1.0" encoding="UTF-8"?><office:document-styles {NSDECL}><office:styles><style:style style:name="standard" style:family="graphic"/></office:styles>'
              '<office:automatic-styles><style:page-layout style:name="PM1"/></office:automatic-styles>'
              f'<office:master-styles><draw:layer-set><draw:layer draw:name="layout"/><draw:layer draw:name="backgroundobjects"/></draw:layer-set>'
              f'<style:master-page style:name="Default" style:page-layout-name="PM1">{footer}</style:master-page></office:master-styles></office:document-styles>')
    return package(kind, content, styles=styles, props=doc.get("props"), media=st.media, meta=not (st.opts.get("no_meta") and not doc.get("props")))


def render_odg(doc, *, images=None, opts=None) -> bytes:
    return render_odp(doc, images=images, opts=opts, kind="odg")


def render_odf_formula(tokens: list[str], *, props=None, annotation: str | None = None) -> bytes:
    """a MathML formula whose identifiers are the given tokens joined by '+'."""
    mrow = "<math:mo>+</math:mo>".join(f"<math:mi>{escape(t)}</math:mi>" for t in tokens)
    ann = f'<math:annotation math:encoding="StarMath 5.0">{escape(annotation)}</math:annotation>' if annotation is not None else ""
    content = (f'<?xml version="1.0" encoding="UTF-8"?><math:math xmlns:math="http://www.w3.org/1998/Math/MathML" display="block"><math:semantics><math:mrow>{mrow}</math:mrow>{ann}</math:semantics></math:math>')
    return package("odf", content, props=props)


def wellformed(data: bytes) -> bool:
    from xml.etree import ElementTree as ET
    z = zipfile.ZipFile(io.BytesIO(data))
    assert z.testzip() is None
    assert z.namelist()[0] == "mimetype" and z.getinfo("mimetype").compress_type == zipfile.ZIP_STORED
    for n in z.namelist():
        if n.endswith(".xml"):
            ET.fromstring(z.read(n))
    return True
