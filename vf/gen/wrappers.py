"""Wrappers that carry an HTML body: .html bytes, .mhtml (MIME), EPUB chapter, MSG-style body helper."""
from __future__ import annotations

import base64
import io
import quopri
import zipfile
from xml.sax.saxutils import escape

PNG_1x1 = base64.b64decode("iVBORw0KGgoAAAANSUhEUgAAAAEAAAABCAYAAAAfFcSJAAAADUlEQVR42mP8z8BQDwAEhQGAhKmMIQAAAABJRU5ErkJggg==")


def html_bytes(html: str, bom: bool = False) -> bytes:
    return (b"\xef\xbb\xbf" if bom else b"") + html.encode("utf-8")


def mhtml_bytes(html: str, cte: str = "quoted-printable", crlf: bool = True, with_image: bool = True, subject: str = "saved page", cte_spelling: str | None = None) -> bytes:
    """cte_spelling: how the encoding's name is written in the header (MIME header values of this kind are case-insensitive: 'Quoted-Printable', 'BASE64')."""
    nl = "\r\n" if crlf else "\n"
    raw = html.encode("utf-8")
    if cte == "quoted-printable":
        body = quopri.encodestring(raw).decode("ascii")
    elif cte == "base64":
        body = base64.encodebytes(raw).decode("ascii")
    else:  # 8bit / 7bit: as is
        body = html
    body = body.replace("\r\n", "\n").replace("\n", nl)
    b = "----=_NextPart_VF_000"
    parts = [f"From: <Saved by VF>{nl}Subject: {subject}{nl}Date: Fri, 1 Mar 2024 12:00:00 +0000{nl}MIME-Version: 1.0{nl}"
             f'Content-Type: multipart/related;{nl}\ttype="text/html";{nl}\tboundary="{b}"{nl}{nl}This is a multi-part message in MIME format.{nl}{nl}',
             f"--{b}{nl}Content-Type: text/html;{nl}\tcharset=\"utf-8\"{nl}Content-Transfer-Encoding: {cte_spelling or cte}{nl}Content-Location: http://example.org/page.html{nl}{nl}",
             body, nl]
    if with_image:
        parts += [f"--{b}{nl}Content-Type: image/png{nl}Content-Transfer-Encoding: base64{nl}Content-Location: http://example.org/i.png{nl}{nl}",
                  base64.encodebytes(PNG_1x1).decode("ascii").replace("\n", nl)]
    parts.append(f"--{b}--{nl}")
    return "".join(parts).encode("utf-8")


def epub_bytes(chapters: list[tuple[str, str]], *, title="VF Book", creator="VF Author", props: dict | None = None, images: list | None = None,
               spine_order: list[int] | None = None, opf_dir="OEBPS/", extra_files: dict | None = None, manifest_order: list[int] | None = None) -> bytes:
    """chapters: [(href relative to opf_dir, xhtml text)]. images: [(href, media_type, bytes)].
    spine_order: reading order as indices into chapters (default identity); manifest_order: order of <item>s."""
    props = props or {}
    n = len(chapters)
    spine_order = list(range(n)) if spine_order is None else spine_order
    manifest_order = list(range(n)) if manifest_order is None else manifest_order
    buf = io.BytesIO()
    with zipfile.ZipFile(buf, "w") as z:
        z.writestr(zipfile.ZipInfo("mimetype"), "application/epub+zip", compress_type=zipfile.ZIP_STORED)
        z.writestr("META-INF/container.xml", '<?xml version="1.0"?><container version="1.0" xmlns="urn:oasis:names:tc:opendocument:xmlns:container">'
                   f'<rootfiles><rootfile full-path="{opf_dir}content.opf" media-type="application/oebps-package+xml"/></rootfiles></container>',
                   compress_type=zipfile.ZIP_DEFLATED)
        dc = [f"<dc:title>{escape(title)}</dc:title>", f"<dc:creator>{escape(creator)}</dc:creator>", "<dc:language>en</dc:language>",
              '<dc:identifier id="bookid">urn:uuid:12345678-1234-1234-1234-123456789abc</dc:identifier>']
        for k in ("subject", "description", "publisher", "date", "rights", "contributor"):
            if props.get(k) is not None:
                dc.append(f"<dc:{k}>{escape(props[k])}</dc:{k}>")
        if props.get("_repeat_dc"):
            # a package may repeat Dublin Core elements (subtitle, co-author, more subjects); the first one is the main one
            dc = [x for e in dc for x in ([e, e[:e.index(">") + 1] + "second ZX0DC02" + e[e.rindex("</"):]] if e.startswith(("<dc:title", "<dc:creator", "<dc:subject", "<dc:description")) else [e])]
        items = []
        for i in manifest_order:
            href = chapters[i][0]
            items.append(f'<item id="ch{i}" href="{escape(href)}" media-type="application/xhtml+xml"/>')
        for j, (href, mt, _data) in enumerate(images or []):
            if _data is None:
                items.append(f'<item id="ghost{j}" href="{escape(href)}" media-type="{mt}"/>')     # listed in the manifest, absent from the archive
                continue
            items.append(f'<item id="img{j}" href="{escape(href)}" media-type="{mt}"/>')
        items.append('<item id="ncx" href="toc.ncx" media-type="application/x-dtbncx+xml"/>')
        spine = "".join(f'<itemref idref="ch{i}"/>' for i in spine_order)
        opf = ('<?xml version="1.0" encoding="utf-8"?><package xmlns="http://www.idpf.org/2007/opf" version="2.0" unique-identifier="bookid">'
               '<metadata xmlns:dc="http://purl.org/dc/elements/1.1/" xmlns:opf="http://www.idpf.org/2007/opf">' + "".join(dc) + "</metadata>"
               "<manifest>" + "".join(items) + f'</manifest><spine toc="ncx">{spine}</spine></package>')
        z.writestr(opf_dir + "content.opf", opf, compress_type=zipfile.ZIP_DEFLATED)
        nav = "".join(f'<navPoint id="n{i}" playOrder="{k + 1}"><navLabel><text>Chapter {k + 1}</text></navLabel><content src="{escape(chapters[i][0])}"/></navPoint>'
                      for k, i in enumerate(spine_order))
        z.writestr(opf_dir + "toc.ncx", '<?xml version="1.0"?><ncx xmlns="http://www.daisy.org/z3986/2005/ncx/" version="2005-1"><head/><docTitle><text>'
                   + escape(title) + f"</text></docTitle><navMap>{nav}</navMap></ncx>", compress_type=zipfile.ZIP_DEFLATED)
        for href, text in chapters:
            z.writestr(opf_dir + href, text.encode("utf-8"), compress_type=zipfile.ZIP_DEFLATED)
        for href, mt, data in images or []:
            if data is not None:
                z.writestr(opf_dir + href, data, compress_type=zipfile.ZIP_STORED)
        for name, data in (extra_files or {}).items():
            z.writestr(name, data)
    return buf.getvalue()
