"""RTF renderer written from the RTF 1.9.1 specification."""
from __future__ import annotations


def esc(text: str, opts=None) -> str:
    out = []
    for ch in text:
        o = ord(ch)
        if ch in "\\{}":
            out.append("\\" + ch)
        elif ch == "\t":
            out.append("\\tab ")
        elif ch == "\n":
            out.append("\\line ")
        elif o < 128:
            out.append(ch)
        elif o > 0xFFFF:
            o -= 0x10000
            hi, lo = 0xD800 + (o >> 10), 0xDC00 + (o & 0x3FF)
            out.append(f"\\u{hi - 65536}?\\u{lo - 65536}?")
        else:
            try:
                b = ch.encode("cp1252")
                if (opts or {}).get("hex_escapes", True) and o < 256:
                    out.append("\\'%02x" % b[0])
                else:
                    raise UnicodeEncodeError("cp1252", ch, 0, 1, "use \\u")
            except UnicodeEncodeError:
                out.append(f"\\u{o if o < 32768 else o - 65536}?")
    return "".join(out)


def _inlines(inl, st):
    out = []
    for i in inl:
        k = i["k"]
        if k == "t":
            sty = i.get("sty", 0)
            t = esc(i["tok"])
            out.append({0: t, 1: "{\\b " + t + "}", 2: "{\\i\\fs28\\cf1 " + t + "}", 3: "{\\b " + esc(i["tok"][:3]) + "}" + esc(i["tok"][3:])}[sty % 4])
        elif k == "tab":
            out.append("\\tab ")
        elif k == "br":
            out.append("\\line ")
        elif k == "link":
            out.append('{\\field{\\*\\fldinst{HYPERLINK "' + i.get("url", "https://example.org/") + '"}}{\\fldrslt{' + ("\\ul" if st["opts"].get("u_words") else "") + '\\cf1 ' + _inlines(i["inl"], st) + "}}}")
        elif k == "ins":
            out.append("{\\revised\\revauth1\\revdttm1170309120 " + _inlines(i["inl"], st) + "}")
        elif k == "del":
            out.append("{\\deleted\\revauthdel1\\revdttmdel1170309120 " + _inlines(i["inl"], st) + "}")
        elif k == "cref":
            c = st["doc"]["comments"][i["id"]]
            out.append("{\\*\\atnid vf}{\\*\\atnauthor vf}\\chatn{\\*\\annotation{\\*\\atndate 1170309120}\\pard\\plain " + _inlines(c, st) + "}")
        elif k == "note":
            out.append("{\\super\\chftn}{\\footnote\\pard\\plain{\\super\\chftn} " + _inlines(i["inl"], st) + "}")
        elif k == "field":
            out.append("{\\field{\\*\\fldinst{ DOCPROPERTY x }}{\\fldrslt{" + esc(i["tok"]) + "}}}")
        elif k == "sdt":
            out.append(_inlines(i["inl"], st))
        else:
            raise ValueError(k)
    return "".join(out)


def _blocks(blocks, st, intbl=False):
    out = []
    for b in blocks:
        k = b["k"]
        if k == "p":
            pre = "\\pard\\plain" + ("\\intbl" if intbl else "")
            if b.get("h"):
                pre += f"\\s{b['h']}\\outlinelevel{b['h'] - 1}\\b\\fs32"
            out.append(pre + " " + _inlines(b["inl"], st) + ("" if intbl else "\\par\n"))
        elif k == "list":
            def items(its, lvl):
                for n, it in enumerate(its):
                    out.append(f"\\pard\\plain\\ls1\\ilvl{lvl}\\fi-360\\li{720 * (lvl + 1)} " + "{\\listtext\\tab " + (f"{n + 1}." if b["ordered"] else "\\u8226?") + "\\tab}"
                               + _inlines(it["inl"], st) + "\\par\n")
                    if it.get("sub"):
                        items(it["sub"], lvl + 1)
            items(b["items"], 0)
        elif k == "tbl":
            for row in b["rows"]:
                cx = "".join(f"\\cellx{2000 * (j + 1)}" for j in range(len(row)))
                cells = []
                for c in row:
                    paras = [x for x in c["blocks"] if x["k"] == "p"]
                    inner = "\\par ".join("\\pard\\plain\\intbl " + _inlines(p["inl"], st) for p in paras) if paras else "\\pard\\plain\\intbl "
                    cells.append(inner + "\\cell" + (" " if st["opts"].get("spaced_cells", True) else ""))
                out.append("\\trowd\\trgaph108" + cx + "\n" + "".join(cells) + "\\row\n")
            out.append("\\pard\\plain ")
        elif k == "box":
            out.append(_blocks(b["blocks"], st, intbl))
        elif k == "pb":
            out.append("\\page\n")
        elif k == "img":
            img = st["images"][b["id"]]
            blip = {"png": "\\pngblip", "jpeg": "\\jpegblip", "jpg": "\\jpegblip"}[img["ext"]]
            hexdata = img["data"].hex()
            width = st["opts"].get("hex_wrap", 128)
            if width:
                hexdata = "\n".join(hexdata[j:j + width] for j in range(0, len(hexdata), width))
            out.append("\\pard\\plain{\\pict" + blip + f"\\picw{img['w']}\\pich{img['h']}\\picwgoal{img['w'] * 15}\\pichgoal{img['h'] * 15}\n" + hexdata + "}\\par\n")
        else:
            raise ValueError(k)
    return "".join(out)


def render_rtf(doc, *, images=None, opts=None) -> bytes:
    opts = opts or {}
    st = {"doc": doc, "images": images or [], "opts": opts}
    p = doc.get("props") or {}
    info = "".join("{\\%s %s}" % (key, esc(p[src])) for key, src in (("title", "title"), ("subject", "subject"), ("author", "author"), ("keywords", "keywords"), ("doccomm", "description")) if p.get(src) is not None)
    info = "{\\info" + info + "{\\creatim\\yr2024\\mo3\\dy1\\hr12\\min0}}"
    head = ("{\\rtf1\\ansi\\ansicpg1252\\deff0" + ("\\uc1" if opts.get("u_words") else "") + "\n{\\fonttbl{\\f0\\froman\\fcharset0 Times New Roman;}{\\f1\\fswiss\\fcharset0 Arial;}}\n"
            "{\\colortbl;\\red255\\green0\\blue0;\\red0\\green0\\blue255;}\n{\\stylesheet{\\s0 Normal;}{\\s1\\outlinelevel0 heading 1;}{\\s2\\outlinelevel1 heading 2;}{\\s3\\outlinelevel2 heading 3;}}\n"
            "{\\*\\listtable{\\list\\listtemplateid1{\\listlevel\\levelnfc0{\\leveltext\\'02\\'00.;}{\\levelnumbers\\'01;}}\\listid1}}{\\*\\listoverridetable{\\listoverride\\listid1\\ls1}}\n"
            + info + "\n")
    hf = ""
    if doc.get("header") is not None:
        hf = "{\\header\\pard\\plain " + _inlines(doc["header"], st) + "\\par}\n{\\footer\\pard\\plain " + _inlines(doc.get("footer") or [], st) + "\\par}\n"
    body = []
    for ui, u in enumerate(doc["units"]):
        if ui:
            # the page break may sit inside nested formatting groups (Word writes it wherever the run properties happen to be open)
            body.append({"nested": "{\\b {\\i \\page }}\n", "deep": "{{{{\\page}}}}\n", "par-in-group": "{\\f1 \\page\\pard }\n"}.get(opts.get("page_break"), "\\page\n"))
        body.append(_blocks(u["blocks"], st))
    return (head + "\\paperw11906\\paperh16838\\sectd\n" + hf + "".join(body) + "}").encode("ascii")


def balanced(data: bytes) -> bool:
    depth, i, s = 0, 0, data.decode("ascii")
    while i < len(s):
        c = s[i]
        if c == "\\":
            i += 2
            continue
        depth += (c == "{") - (c == "}")
        assert depth >= 0
        i += 1
    assert depth == 0 and s.startswith("{\\rtf1")
    return True
