"""Spreadsheet grid model + renderers (xlsx raw OOXML, xlsx via openpyxl, ods raw ODF, xls via the BIFF8 writer).

grid doc = {"props": {...}, "sheets": [{"name": str, "origin": [r0, c0], "rows": [[cell|None, ...], ...], "hdr_rows": int}]}
cell     = {"t": "s", "v": str} | {"t": "n", "v": int|float} | {"t": "b", "v": bool} | {"t": "d", "v": "YYYY-MM-DD"} | {"t": "dt", "v": "YYYY-MM-DDTHH:MM:SS"}
         | {"t": "tm", "v": "HH:MM:SS"} | {"t": "dur", "v": seconds} | {"t": "e", "v": "#DIV/0!"} | {"t": "f", "v": number|str, "formula": str}
"""
from __future__ import annotations

import datetime
import io
import zipfile
from xml.sax.saxutils import escape, quoteattr

from hypothesis import strategies as st

from vf.gen import odf, ooxml
from vf.gen.tokens import make

MAIN = "http://schemas.openxmlformats.org/spreadsheetml/2006/main"
EPOCH = datetime.date(1899, 12, 30)


def col_letter(c: int) -> str:
    s = ""
    c += 1
    while c:
        c, r = divmod(c - 1, 26)
        s = chr(65 + r) + s
    return s


def _serial(cell) -> float:
    t = cell["t"]
    if t == "d":
        return (datetime.date.fromisoformat(cell["v"]) - EPOCH).days
    if t == "dt":
        d = datetime.datetime.fromisoformat(cell["v"])
        return (d.date() - EPOCH).days + (d.hour * 3600 + d.minute * 60 + d.second) / 86400
    if t == "tm":
        tm = datetime.time.fromisoformat(cell["v"])
        return (tm.hour * 3600 + tm.minute * 60 + tm.second) / 86400
    if t == "dur":
        return cell["v"] / 86400
    raise ValueError(t)


# ---- xlsx (raw) -------------------------------------------------------------------------------------------------
def render_xlsx(grid, *, opts=None, images=None) -> bytes:
    opts = opts or {}
    shared, sst = {}, []
    inline = bool(opts.get("inline_strings"))

    def sidx(s):
        if s not in shared:
            shared[s] = len(sst)
            sst.append(s)
        return shared[s]
    n = len(grid["sheets"])
    part_no = list(range(n, 0, -1)) if opts.get("permute_parts") else list(range(1, n + 1))
    parts = {}
    over = []
    wb_sheets, wb_rels = [], []
    for i, sh in enumerate(grid["sheets"]):
        r0, c0 = sh.get("origin", [0, 0])
        rows_xml = []
        for ri, row in enumerate(sh["rows"]):
            cells = []
            for ci, cell in enumerate(row):
                if cell is None:
                    continue
                ref = f"{col_letter(c0 + ci)}{r0 + ri + 1}"
                t = cell["t"]
                if t == "s":
                    if inline:
                        sp = ' xml:space="preserve"' if cell["v"] != cell["v"].strip() else ""
                        cells.append(f'<c r="{ref}" t="inlineStr"><is><t{sp}>{escape(cell["v"])}</t></is></c>')
                    else:
                        cells.append(f'<c r="{ref}" t="s"><v>{sidx(cell["v"])}</v></c>')
                elif t == "n":
                    cells.append(f'<c r="{ref}"><v>{cell["v"]!r}</v></c>')
                elif t == "b":
                    cells.append(f'<c r="{ref}" t="b"><v>{int(cell["v"])}</v></c>')
                elif t in ("d", "dt", "tm", "dur"):
                    style = {"d": 1, "dt": 2, "tm": 3, "dur": 4}[t]
                    cells.append(f'<c r="{ref}" s="{style}"><v>{_serial(cell)!r}</v></c>')
                elif t == "e":
                    cells.append(f'<c r="{ref}" t="e"><v>{escape(cell["v"])}</v></c>')
                elif t == "f":
                    if isinstance(cell["v"], str):
                        cells.append(f'<c r="{ref}" t="str"><f>{escape(cell["formula"])}</f><v>{escape(cell["v"])}</v></c>')
                    else:
                        cells.append(f'<c r="{ref}"><f>{escape(cell["formula"])}</f><v>{cell["v"]!r}</v></c>')
                else:
                    raise ValueError(t)
            if cells:
                rows_xml.append(f'<row r="{r0 + ri + 1}">{"".join(cells)}</row>')
        nrows, ncols = len(sh["rows"]), max([len(r) for r in sh["rows"]] + [1])
        dim = f"A1:{col_letter(c0 + ncols - 1)}{max(1, r0 + nrows)}"
        pn = part_no[i]
        drawing_ref = ""
        sheet_imgs = [(k, im) for k, im in enumerate(images or []) if im.get("unit", 0) == i]
        if sheet_imgs:
            anchors, drels = [], []
            # dangling_pic: every drawing after the first numbers its relationships from rId11 and holds one more picture whose r:embed="rId1" its own
            # relationships part does not define (a picture whose image part was removed) - the id exists only in the first drawing's relationships
            base = 10 if opts.get("dangling_pic") and any(n.startswith("xl/drawings/drawing") for n in parts) else 0
            for j, (k, im) in enumerate(sheet_imgs):
                name = f"image{k + 1}.{im['ext']}"
                parts[f"xl/media/{name}"] = im["data"]
                form = opts.get("img_ref", "parent")
                drels.append((f"rId{j + 1 + base}", ooxml.RT + "image", {"parent": "../media/" + name, "absolute": "/xl/media/" + name}[form], False))
                cx, cy = im.get("disp_w", im["w"]) * 9525, im.get("disp_h", im["h"]) * 9525
                anchors.append(f'<xdr:oneCellAnchor><xdr:from><xdr:col>{j}</xdr:col><xdr:colOff>0</xdr:colOff><xdr:row>{j * 3}</xdr:row><xdr:rowOff>0</xdr:rowOff></xdr:from><xdr:ext cx="{cx}" cy="{cy}"/>'
                               f'<xdr:pic><xdr:nvPicPr><xdr:cNvPr id="{j + 2}" name="Picture {j + 1}" descr={quoteattr(im.get("alt", ""))}/><xdr:cNvPicPr/></xdr:nvPicPr>'
                               f'<xdr:blipFill><a:blip xmlns:r="{ooxml.R}" r:embed="rId{j + 1 + base}"/><a:stretch><a:fillRect/></a:stretch></xdr:blipFill>'
                               f'<xdr:spPr><a:xfrm><a:off x="0" y="0"/><a:ext cx="{cx}" cy="{cy}"/></a:xfrm><a:prstGeom prst="rect"><a:avLst/></a:prstGeom></xdr:spPr></xdr:pic><xdr:clientData/></xdr:oneCellAnchor>')
            if base:
                anchors.append(f'<xdr:oneCellAnchor><xdr:from><xdr:col>9</xdr:col><xdr:colOff>0</xdr:colOff><xdr:row>9</xdr:row><xdr:rowOff>0</xdr:rowOff></xdr:from><xdr:ext cx="95250" cy="95250"/>'
                               f'<xdr:pic><xdr:nvPicPr><xdr:cNvPr id="99" name="Picture 99" descr=""/><xdr:cNvPicPr/></xdr:nvPicPr>'
                               f'<xdr:blipFill><a:blip xmlns:r="{ooxml.R}" r:embed="rId1"/><a:stretch><a:fillRect/></a:stretch></xdr:blipFill>'
                               f'<xdr:spPr><a:xfrm><a:off x="0" y="0"/><a:ext cx="95250" cy="95250"/></a:xfrm><a:prstGeom prst="rect"><a:avLst/></a:prstGeom></xdr:spPr></xdr:pic><xdr:clientData/></xdr:oneCellAnchor>')
            parts[f"xl/drawings/drawing{pn}.xml"] = (f'<?xml version="1.0" encoding="UTF-8" standalone="yes"?><xdr:wsDr xmlns:xdr="http://schemas.openxmlformats.org/drawingml/2006/spreadsheetDrawing" xmlns:a="{ooxml.A}">'
                                                     + "".join(anchors) + "</xdr:wsDr>")
            parts[f"xl/drawings/_rels/drawing{pn}.xml.rels"] = ooxml._rels(drels)
            srels = [("rId1", ooxml.RT + "drawing", f"../drawings/drawing{pn}.xml", False)]
            if opts.get("vml_first"):
                # a sheet with cell comments also has a legacy VML drawing and a comments part; Excel often lists them before the picture drawing
                srels = [("rId8", ooxml.RT + "vmlDrawing", f"../drawings/vmlDrawing{pn}.vml", False), ("rId9", ooxml.RT + "comments", f"../comments{pn}.xml", False)] + srels
                parts[f"xl/drawings/vmlDrawing{pn}.vml"] = '<xml xmlns:v="urn:schemas-microsoft-com:vml" xmlns:o="urn:schemas-microsoft-com:office:office"><o:shapelayout v:ext="edit"/></xml>'
                parts[f"xl/comments{pn}.xml"] = ('<?xml version="1.0" encoding="UTF-8" standalone="yes"?><comments xmlns="http://schemas.openxmlformats.org/spreadsheetml/2006/main"><authors><author>vf</author></authors>'
                                                 '<commentList><comment ref="A1" authorId="0"><text><r><t>ZX0CMT1</t></r></text></comment></commentList></comments>')
                over.append(f'<Override PartName="/xl/comments{pn}.xml" ContentType="application/vnd.openxmlformats-officedocument.spreadsheetml.comments+xml"/>')
            parts[f"xl/worksheets/_rels/sheet{pn}.xml.rels"] = ooxml._rels(srels)
            over.append(f'<Override PartName="/xl/drawings/drawing{pn}.xml" ContentType="application/vnd.openxmlformats-officedocument.drawing+xml"/>')
            drawing_ref = '<drawing r:id="rId1"/>'
        parts[f"xl/worksheets/sheet{pn}.xml"] = (f'<?xml version="1.0" encoding="UTF-8" standalone="yes"?><worksheet xmlns="{MAIN}" xmlns:r="{ooxml.R}"><dimension ref="{dim}"/>'
                                                 f'<sheetData>{"".join(rows_xml)}</sheetData>{drawing_ref}</worksheet>')
        over.append(f'<Override PartName="/xl/worksheets/sheet{pn}.xml" ContentType="application/vnd.openxmlformats-officedocument.spreadsheetml.worksheet+xml"/>')
        wb_sheets.append(f'<sheet name={quoteattr(sh["name"])} sheetId="{i + 1}" r:id="rId{i + 1}"/>')
        wb_rels.append((f"rId{i + 1}", ooxml.RT + "worksheet", f"worksheets/sheet{pn}.xml", False))
    wb_rels.append(("rId100", ooxml.RT + "styles", "styles.xml", False))
    if sst:
        wb_rels.append(("rId101", ooxml.RT + "sharedStrings", "sharedStrings.xml", False))
        items = "".join(f'<si><t{" xml:space=" + chr(34) + "preserve" + chr(34) if s != s.strip() else ""}>{escape(s)}</t></si>' for s in sst)
        parts["xl/sharedStrings.xml"] = f'<?xml version="1.0" encoding="UTF-8" standalone="yes"?><sst xmlns="{MAIN}" count="{len(sst)}" uniqueCount="{len(sst)}">{items}</sst>'
        over.append('<Override PartName="/xl/sharedStrings.xml" ContentType="application/vnd.openxmlformats-officedocument.spreadsheetml.sharedStrings+xml"/>')
    parts["xl/styles.xml"] = (f'<?xml version="1.0" encoding="UTF-8" standalone="yes"?><styleSheet xmlns="{MAIN}"><numFmts count="1"><numFmt numFmtId="164" formatCode="yyyy\\-mm\\-dd\\ hh:mm:ss"/></numFmts>'
                              '<fonts count="1"><font><sz val="11"/><name val="Calibri"/></font></fonts><fills count="1"><fill><patternFill patternType="none"/></fill></fills>'
                              '<borders count="1"><border/></borders><cellStyleXfs count="1"><xf numFmtId="0" fontId="0" fillId="0" borderId="0"/></cellStyleXfs>'
                              '<cellXfs count="5"><xf numFmtId="0" fontId="0" fillId="0" borderId="0" xfId="0"/><xf numFmtId="14" fontId="0" fillId="0" borderId="0" xfId="0" applyNumberFormat="1"/>'
                              '<xf numFmtId="164" fontId="0" fillId="0" borderId="0" xfId="0" applyNumberFormat="1"/><xf numFmtId="21" fontId="0" fillId="0" borderId="0" xfId="0" applyNumberFormat="1"/>'
                              '<xf numFmtId="46" fontId="0" fillId="0" borderId="0" xfId="0" applyNumberFormat="1"/></cellXfs><cellStyles count="1"><cellStyle name="Normal" xfId="0" builtinId="0"/></cellStyles></styleSheet>')
    parts["xl/workbook.xml"] = f'<?xml version="1.0" encoding="UTF-8" standalone="yes"?><workbook xmlns="{MAIN}" xmlns:r="{ooxml.R}"><sheets>{"".join(wb_sheets)}</sheets></workbook>'
    parts["xl/_rels/workbook.xml.rels"] = ooxml._rels(wb_rels)
    parts["docProps/core.xml"] = ooxml.core_xml(grid.get("props"))
    parts["_rels/.rels"] = ooxml._rels([("rId1", ooxml.RT + "officeDocument", "xl/workbook.xml", False),
                                        ("rId2", "http://schemas.openxmlformats.org/package/2006/relationships/metadata/core-properties", "docProps/core.xml", False)])
    ctypes = ['<Default Extension="rels" ContentType="application/vnd.openxmlformats-package.relationships+xml"/>', '<Default Extension="xml" ContentType="application/xml"/>',
              '<Override PartName="/xl/workbook.xml" ContentType="application/vnd.openxmlformats-officedocument.spreadsheetml.sheet.main+xml"/>',
              '<Override PartName="/xl/styles.xml" ContentType="application/vnd.openxmlformats-officedocument.spreadsheetml.styles+xml"/>',
              '<Override PartName="/docProps/core.xml" ContentType="application/vnd.openxmlformats-package.core-properties+xml"/>']
    for ext_, mt in ooxml.MIME.items():
        ctypes.append(f'<Default Extension="{ext_}" ContentType="{mt}"/>')
    ordered = {"[Content_Types].xml": f'<?xml version="1.0" encoding="UTF-8" standalone="yes"?><Types xmlns="{ooxml.CT}">' + "".join(ctypes + over) + "</Types>"}
    ordered.update(parts)
    return ooxml._zip(ordered)


def render_xlsx_openpyxl(grid, **kw) -> bytes:
    """second, independent writer for cell grids."""
    import openpyxl
    wb = openpyxl.Workbook()
    wb.remove(wb.active)
    for sh in grid["sheets"]:
        ws = wb.create_sheet(sh["name"])
        r0, c0 = sh.get("origin", [0, 0])
        for ri, row in enumerate(sh["rows"]):
            for ci, cell in enumerate(row):
                if cell is None:
                    continue
                t, v = cell["t"], cell["v"]
                val = {"s": lambda: v, "n": lambda: v, "b": lambda: v, "d": lambda: datetime.date.fromisoformat(v), "dt": lambda: datetime.datetime.fromisoformat(v),
                       "tm": lambda: datetime.time.fromisoformat(v), "dur": lambda: datetime.timedelta(seconds=v), "e": lambda: v,
                       "f": lambda: v}[t]()  # openpyxl cannot store cached formula results: the value itself is written
                ws.cell(row=r0 + ri + 1, column=c0 + ci + 1, value=val)
    p = grid.get("props") or {}
    for k_src, k_dst in (("title", "title"), ("author", "creator"), ("subject", "subject"), ("keywords", "keywords"), ("description", "description")):
        if p.get(k_src) is not None:
            setattr(wb.properties, k_dst, p[k_src])
    buf = io.BytesIO()
    wb.save(buf)
    return buf.getvalue()


# ---- ods ------------------------------------------------------------------------------------------------------------
def _ods_cell(cell, comment=None):
    if comment is not None:
        # a cell comment: office:annotation is the first child of the cell, its paragraphs are not cell content
        x = _ods_cell(cell)
        ann = f'<office:annotation><dc:creator>vf</dc:creator><dc:date>2024-03-01T12:00:00</dc:date><text:p>{escape(comment)}</text:p></office:annotation>'
        return x[:-2] + ">" + ann + "</table:table-cell>" if x.endswith("/>") else x.replace(">", ">" + ann, 1)
    if cell is None:
        return "<table:table-cell/>"
    t, v = cell["t"], cell["v"]
    if t == "s":
        paras = "".join(f"<text:p>{escape(line)}</text:p>" for line in v.split("\n"))
        return f'<table:table-cell office:value-type="string">{paras}</table:table-cell>'
    if t == "n":
        return f'<table:table-cell office:value-type="float" office:value="{v!r}"><text:p>{v}</text:p></table:table-cell>'
    if t == "b":
        return f'<table:table-cell office:value-type="boolean" office:boolean-value="{"true" if v else "false"}"><text:p>{"TRUE" if v else "FALSE"}</text:p></table:table-cell>'
    if t == "d":
        return f'<table:table-cell office:value-type="date" office:date-value="{v}"><text:p>{v}</text:p></table:table-cell>'
    if t == "dt":
        return f'<table:table-cell office:value-type="date" office:date-value="{v}"><text:p>{v.replace("T", " ")}</text:p></table:table-cell>'
    if t == "tm":
        h, m, s = v.split(":")
        return f'<table:table-cell office:value-type="time" office:time-value="PT{h}H{m}M{s}S"><text:p>{v}</text:p></table:table-cell>'
    if t == "dur":
        h, rem = divmod(int(v), 3600)
        m, s = divmod(rem, 60)
        return f'<table:table-cell office:value-type="time" office:time-value="PT{h:02d}H{m:02d}M{s:02d}S"><text:p>{h}:{m:02d}:{s:02d}</text:p></table:table-cell>'
    if t == "e":
        return f'<table:table-cell table:formula="of:=1/0" office:value-type="string" office:string-value="" ><text:p>{escape(v)}</text:p></table:table-cell>'
    if t == "f":
        if isinstance(v, str):
            return f'<table:table-cell table:formula={quoteattr("of:=" + cell["formula"])} office:value-type="string" office:string-value={quoteattr(v)}><text:p>{escape(v)}</text:p></table:table-cell>'
        return f'<table:table-cell table:formula={quoteattr("of:=" + cell["formula"])} office:value-type="float" office:value="{v!r}"><text:p>{v}</text:p></table:table-cell>'
    raise ValueError(t)


def render_ods(grid, *, opts=None, images=None) -> bytes:
    opts = opts or {}
    tables = []
    media = {}
    for sh in grid["sheets"]:
        r0, c0 = sh.get("origin", [0, 0])
        ncols = c0 + max([len(r) for r in sh["rows"]] + [1])
        rows = []
        if r0:
            rows.append(f'<table:table-row table:number-rows-repeated="{r0}"><table:table-cell table:number-columns-repeated="{ncols}"/></table:table-row>' if r0 > 1
                        else f'<table:table-row><table:table-cell table:number-columns-repeated="{ncols}"/></table:table-row>')
        body = []
        for ri, row in enumerate(sh["rows"]):
            cells = []
            if c0:
                cells.append(f'<table:table-cell table:number-columns-repeated="{c0}"/>' if c0 > 1 else "<table:table-cell/>")
            # run-length encode empty cells as LibreOffice does
            run = 0
            prev, prev_n = None, 0

            def flush_prev():
                nonlocal prev, prev_n
                if prev is not None:
                    x = _ods_cell(prev)
                    # equal neighbouring values are stored once with a repeat count, the way LibreOffice writes them
                    cells.append(x.replace("<table:table-cell ", f'<table:table-cell table:number-columns-repeated="{prev_n}" ', 1) if prev_n > 1 else x)
                prev, prev_n = None, 0
            for ci, cell in enumerate(row):
                if cell is None:
                    flush_prev()
                    run += 1
                    continue
                if run:
                    cells.append(f'<table:table-cell table:number-columns-repeated="{run}"/>' if run > 1 else "<table:table-cell/>")
                    run = 0
                if opts.get("rle"):
                    if prev is not None and cell == prev:
                        prev_n += 1
                    else:
                        flush_prev()
                        prev, prev_n = cell, 1
                    continue
                cells.append(_ods_cell(cell, comment=f"ZXC{ri % 100:02d}{ci % 100:02d} note" if opts.get("comments") and (ri + ci) % 2 == 0 else None))
            flush_prev()
            if run:
                cells.append(f'<table:table-cell table:number-columns-repeated="{run}"/>' if run > 1 else "<table:table-cell/>")
            body.append(f"<table:table-row>{''.join(cells)}</table:table-row>")
        hdr = sh.get("hdr_rows", 0)
        if opts.get("rle") and not hdr:
            merged = []
            for b in body:                      # identical neighbouring rows are stored once with a repeat count
                if merged and merged[-1][0] == b:
                    merged[-1][1] += 1
                else:
                    merged.append([b, 1])
            body = [b if n == 1 else b.replace("<table:table-row>", f'<table:table-row table:number-rows-repeated="{n}">', 1) for b, n in merged]
        data_rows = body[hdr:]
        if opts.get("row_groups") and len(data_rows) >= 2:
            # outline levels: the rows after the first sit in a row group, all but the last of them in a group nested inside it (two outline levels)
            inner, last = data_rows[1:-1], data_rows[-1]
            grouped = "<table:table-row-group>" + (f"<table:table-row-group>{''.join(inner)}</table:table-row-group>" if inner else "") + last + "</table:table-row-group>"
            data_rows = [data_rows[0], grouped]
        rows_xml = "".join(rows) + (f"<table:table-header-rows>{''.join(body[:hdr])}</table:table-header-rows>" if hdr else "") + "".join(data_rows)
        shapes = ""
        sheet_imgs = [(k, im) for k, im in enumerate(images or []) if im.get("unit", 0) == len(tables)]
        if sheet_imgs:
            frames = []
            for k, im in sheet_imgs:
                nm = f"Pictures/image{k + 1}.{im['ext']}"
                media[nm] = im["data"]
                href = {"relative": nm, "dot": "./" + nm}[opts.get("img_ref", "relative")]
                w = im.get("disp_w_odf") or f"{im['w'] / 96 * 2.54:.4f}cm"
                h = im.get("disp_h_odf") or f"{im['h'] / 96 * 2.54:.4f}cm"
                frames.append(f'<draw:frame draw:name="Image {k + 1}" draw:z-index="{k}" svg:width="{w}" svg:height="{h}" svg:x="1cm" svg:y="{1 + k}cm">'
                              f'<draw:image xlink:href={quoteattr(href)} xlink:type="simple" xlink:show="embed" xlink:actuate="onLoad"/></draw:frame>')
            shapes = f"<table:shapes>{''.join(frames)}</table:shapes>"
        if opts.get("trailing_filler", True):
            # LibreOffice pads the sheet to its full size with repeated empty rows/cells
            rows_xml += f'<table:table-row table:number-rows-repeated="1048000"><table:table-cell table:number-columns-repeated="{max(ncols, 1024)}"/></table:table-row>'
        tables.append(f'<table:table table:name={quoteattr(sh["name"])}>{shapes}<table:table-column table:number-columns-repeated="{max(ncols, 1)}"/>{rows_xml}</table:table>')
    content = f'<?xml version="1.0" encoding="UTF-8"?><office:document-content {odf.NSDECL}>{odf.AUTO_STYLES}<office:body><office:spreadsheet>{"".join(tables)}</office:spreadsheet></office:body></office:document-content>'
    return odf.package("ods", content, props=grid.get("props"), media=media)


# ---- xls ------------------------------------------------------------------------------------------------------------
def render_xls(grid, *, opts=None, images=None) -> bytes:
    from vf.gen import biff8
    opts = opts or {}
    sheets = []
    for sh in grid["sheets"]:
        rows = []
        for row in sh["rows"]:
            out = []
            for cell in row:
                if cell is None:
                    out.append(None)
                    continue
                t, v = cell["t"], cell["v"]
                out.append({"s": lambda: v, "n": lambda: v, "b": lambda: v, "d": lambda: datetime.date.fromisoformat(v), "dt": lambda: datetime.datetime.fromisoformat(v),
                            "tm": lambda: datetime.time.fromisoformat(v), "dur": lambda: v / 86400, "e": lambda: ("error", 0x07), "f": lambda: ("formula", v)}[t]())
            rows.append(out)
        sheets.append({"name": sh["name"], "rows": rows, "origin": tuple(sh.get("origin", [0, 0]))})
    p = grid.get("props") or {}
    props = {pid: p[k] for k, pid in (("title", 2), ("subject", 3), ("author", 4), ("keywords", 5), ("description", 6)) if p.get(k) is not None} or None
    from vf.gen.legacy import pick_codepage
    return biff8.write_xls(sheets, props=props, codepage=pick_codepage(opts, p))


# ---- expected table ---------------------------------------------------------------------------------------------------
def expected_grid(sh):
    """r x c grid from A1 to the last row/column holding data (None for empty cells)."""
    r0, c0 = sh.get("origin", [0, 0])
    rows = [list(r) for r in sh["rows"]]
    while rows and all(c is None for c in rows[-1]):
        rows.pop()
    width = max([max([i + 1 for i, c in enumerate(r) if c is not None] + [0]) for r in rows] + [0])
    out = [[None] * (c0 + width) for _ in range(r0)]
    for r in rows:
        out.append([None] * c0 + [r[i] if i < len(r) else None for i in range(width)])
    return out


def cell_matches(cell, got) -> bool:
    """value equality as C13 states it: strings exact, numbers by value, booleans as bool, dates/times as ISO strings for the same instant."""
    if cell is None:
        return got is None or got == ""
    t, v = cell["t"], cell["v"]
    if t == "s":
        return got == v
    if t == "n":
        return isinstance(got, (int, float)) and not isinstance(got, bool) and got == v
    if t == "b":
        return isinstance(got, bool) and got == v
    if t == "d":
        return isinstance(got, str) and got in (v, v + "T00:00:00", v + " 00:00:00")
    if t == "dt":
        return isinstance(got, str) and (got.replace(" ", "T") == v or (v.endswith("T00:00:00") and got == v[:10]))  # midnight: the date alone denotes the same instant
    if t == "tm":
        if not isinstance(got, str):
            return False
        if got.startswith("PT"):  # ISO-8601 duration form of a time of day (ODF office:time-value)
            import re
            m = re.fullmatch(r"PT(\d+)H(\d+)M(\d+)S", got)
            return bool(m) and "%02d:%02d:%02d" % tuple(int(x) for x in m.groups()) == v
        g = got.split("T")[-1].split(" ")[-1]
        return g == v
    if t in ("dur", "e"):
        return True  # not specified by the property beyond being a JSON-able value (C05)
    if t == "f":
        if isinstance(v, str):
            return got == v
        return isinstance(got, (int, float)) and not isinstance(got, bool) and got == v
    return False


def validate(grid):
    """reject ill-formed grids (the shrinker may propose them)."""
    import re
    from vf.gen.tokens import TOKEN_RE
    assert grid["sheets"]
    names = set()
    for sh in grid["sheets"]:
        assert isinstance(sh["name"], str) and 0 < len(sh["name"]) <= 31 and sh["name"].lower() not in names
        names.add(sh["name"].lower())
        assert len(sh["origin"]) == 2 and all(isinstance(x, int) and 0 <= x < 200 for x in sh["origin"])
        assert sh["rows"] and all(isinstance(r, list) and r for r in sh["rows"])
        assert len({len(r) for r in sh["rows"]}) == 1
        assert sh["rows"][-1][-1] is not None
        for row in sh["rows"]:
            for c in row:
                if c is None:
                    continue
                t, v = c["t"], c["v"]
                if t == "s":
                    assert TOKEN_RE.fullmatch(v) or re.fullmatch(r"ZM0H\d{3}", v)
                elif t == "n":
                    assert isinstance(v, (int, float)) and not isinstance(v, bool)
                elif t == "b":
                    assert isinstance(v, bool)
                elif t == "d":
                    datetime.date.fromisoformat(v)
                    assert len(v) == 10
                elif t == "dt":
                    assert len(v) == 19 and datetime.datetime.fromisoformat(v)
                elif t == "tm":
                    assert len(v) == 8 and datetime.time.fromisoformat(v) is not None
                elif t == "dur":
                    assert isinstance(v, int) and v > 0
                elif t == "e":
                    assert v == "#DIV/0!"
                elif t == "f":
                    assert c["formula"] == "1+1" and (isinstance(v, int) or TOKEN_RE.fullmatch(v))
                else:
                    raise AssertionError(t)
    return True


# ---- strategy ---------------------------------------------------------------------------------------------------------
@st.composite
def grids(draw, fmt, max_sheets=3, max_r=6, max_c=5, headers="plain", single_row_ok=False):
    """headers: 'plain' (distinct non-empty string header row: the neutral form) | 'any' (typed / empty / duplicate first rows too)"""
    ctr = [draw(st.integers(0, 10**5)) * 300]

    def tok(cls="B"):
        ctr[0] += 1
        return make(cls, ctr[0] % (36 ** 5))

    def cell(kinds):
        k = draw(st.sampled_from(kinds))
        if k == "none":
            return None
        if k == "s":
            return {"t": "s", "v": tok()}
        if k == "int":
            return {"t": "n", "v": draw(st.integers(1000000, 9999999))}
        if k == "float":
            return {"t": "n", "v": draw(st.sampled_from([0.5, 1.25, -3.75, 1234.5, 1e-3, 2.0 ** 40 + 0.5, 1e-07, 2.5e-09, 1e+20, -4e+17]))}
        if k == "b":
            return {"t": "b", "v": draw(st.booleans())}
        if k == "d":
            return {"t": "d", "v": draw(st.dates(min_value=datetime.date(1950, 1, 1), max_value=datetime.date(2090, 12, 31))).isoformat()}
        if k == "dt":
            return {"t": "dt", "v": draw(st.datetimes(min_value=datetime.datetime(1950, 1, 1), max_value=datetime.datetime(2090, 12, 31))).replace(microsecond=0).isoformat()}
        if k == "tm":
            return {"t": "tm", "v": draw(st.times()).replace(microsecond=0).isoformat()}
        if k == "dur":
            return {"t": "dur", "v": draw(st.integers(1, 200000))}
        if k == "e":
            return {"t": "e", "v": "#DIV/0!"}
        if k == "f":
            return {"t": "f", "v": draw(st.one_of(st.integers(1000000, 9999999), st.just(tok()))), "formula": "1+1"}
        raise ValueError(k)

    typed = ["s", "s", "s", "int", "float", "b", "d", "dt", "tm", "f", "none", "none"]
    if draw(st.integers(0, 5)) == 0:
        typed += ["dur", "e"]
    sheets = []
    names = set()
    for si in range(draw(st.integers(1, max_sheets))):
        r, c = draw(st.integers(1, max_r)), draw(st.integers(1, max_c))
        rows = [[cell(typed) for _ in range(c)] for _ in range(r)]
        if headers == "plain" or draw(st.integers(0, 9)) < 6:
            rows[0] = [{"t": "s", "v": tok()} for _ in range(c)]
            if r == 1 and not single_row_ok:      # a sheet that is only a header row has no table rows; the text legs allow it
                rows.append([cell(["s", "int"]) for _ in range(c)])
        # make sure the last row / column hold something so the used range is what we think
        if rows[-1][-1] is None:
            rows[-1][-1] = {"t": "s", "v": tok()}
        hdr_rows = 0
        if headers != "plain":
            g = draw(st.integers(0, 11))
            if g == 0 and c >= 2:      # a run of more than 100 empty columns inside the used range
                at, width = draw(st.integers(1, c - 1)), draw(st.sampled_from([99, 100, 101, 150]))
                rows = [row[:at] + [None] * width + row[at:] for row in rows]
            elif g == 1 and r >= 2:    # a run of more than 100 empty rows inside the used range
                at, height = draw(st.integers(1, r - 1)), draw(st.sampled_from([99, 100, 101, 130]))
                rows = rows[:at] + [[None] * len(rows[0]) for _ in range(height)] + rows[at:]
            elif g == 2 and r >= 2:
                hdr_rows = 1
        name = f"Sheet{si + 1}" if draw(st.booleans()) else f"S{si + 1} {tok('M')}"
        names.add(name)
        origin = [0, 0]
        if headers != "plain" and draw(st.integers(0, 4)) == 0:
            origin = [draw(st.integers(0, 3)), draw(st.integers(0, 3))]
        sheets.append({"name": name, "origin": origin, "rows": rows, "hdr_rows": hdr_rows})
    return {"props": {}, "sheets": sheets}


def grid_features(grid) -> set:
    f = set()
    if len(grid["sheets"]) > 1:
        f.add("unit.multi")
    for sh in grid["sheets"]:
        rows = sh["rows"]
        if list(sh.get("origin", [0, 0])) != [0, 0]:
            f.add("grid.offset")
        first = rows[0]
        vals = [c["v"] if c else None for c in first]
        if any(c is None for c in first):
            f.add("grid.header.empty")
        if any(c is not None and c["t"] != "s" for c in first):
            f.add("grid.header.typed")
        strs = [v for v in vals if isinstance(v, str)]
        if len(strs) != len(set(strs)):
            f.add("grid.header.duplicate")
        if sum(1 for c in first if c is not None) == 1 and len(first) > 1:
            f.add("grid.first-row-single-cell")
        if len(rows) == 1:
            f.add("grid.single-row")
        for r in rows:
            for c in r:
                if c is None:
                    f.add("grid.empty-cell")
                elif c["t"] != "s":
                    f.add("grid.typed." + c["t"])
        if sh.get("hdr_rows"):
            f.add("table.header-rows")
        for r in rows:
            run = 0
            for c in r:
                run = run + 1 if c is None else 0
                if run > 100:
                    f.add("grid.gap>100")
        run = 0
        for r in rows:
            run = run + 1 if all(c is None for c in r) else 0
            if run > 100:
                f.add("grid.gap>100")
    return f
