"""Independent minimal Word 97-2003 (.doc) writer following [MS-DOC]; CFB packaging through vf.gen.ole2.

    write_doc(paragraphs, props=None, codepage=1252, encrypted=False, title=None, ...) -> bytes
    read_back(doc_bytes) -> text recovered by an own FIB + Clx (piece table) reader
    selfcheck() -> bool      (olefile is used as an independent cross-check only)

"WordDocument" stream: FIB (nFib 0x00C1: FibBase 32 B, csw=14, cslw=22, cbRgFcLcb=0x5D, cswNew=0 -> 900 B), the text at
`text_offset` (default 0x400). "1Table" stream: [EncryptionHeader when encrypted] + Clx = one Pcdt (clxt 0x02) with a PlcPcd.
Text retrieval is the one of [MS-DOC] 2.4.1: FibRgFcLcb97.fcClx/lcbClx -> PlcPcd -> per piece FcCompressed.

A piece is stored compressed (8-bit, fc bit 30 set, fc = 2 * offset) only when every character is representable by the
FcCompressed rule of [MS-DOC] 2.9.73: U+0000..U+00FF as the same byte, except that bytes 0x82..0x9F listed there stand for
the cp1252 punctuation (so U+0082.. cannot be written compressed, and '€' (cp1252 0x80) is NOT in the table -> such text is
written as UTF-16LE).
No formatting structures (STSH, PlcBtePapx/Chpx, DOP, font table) are written: the file is a text-retrieval test input, not
something Word is guaranteed to open. Deterministic: no clock, no randomness.
"""
from __future__ import annotations

import struct
import uuid

from . import ole2

CLSID_DOC = uuid.UUID("00020906-0000-0000-C000-000000000046").bytes_le

FIB_SIZE = 32 + 2 + 28 + 2 + 88 + 2 + 0x5D * 8 + 2          # 900
OFF_FLAGS = 0x0A
OFF_LKEY = 0x0E
OFF_RGLW = 32 + 2 + 28 + 2                                   # 0x40
OFF_CBMAC = OFF_RGLW                                         # FibRgLw97.cbMac
OFF_CCPTEXT = OFF_RGLW + 3 * 4                               # 0x4C
OFF_RGFCLCB = OFF_RGLW + 88 + 2                              # 0x9A
OFF_FCCLX = OFF_RGFCLCB + 33 * 8                             # 0x1A2

F_ENCRYPTED, F_WHICHTBLSTM, F_EXTCHAR = 0x0100, 0x0200, 0x1000

# [MS-DOC] 2.9.73 FcCompressed: bytes whose meaning is not the identical code point
COMPRESSED_SPECIAL = {
    0x82: 0x201A, 0x83: 0x0192, 0x84: 0x201E, 0x85: 0x2026, 0x86: 0x2020, 0x87: 0x2021, 0x88: 0x02C6, 0x89: 0x2030,
    0x8A: 0x0160, 0x8B: 0x2039, 0x8C: 0x0152, 0x91: 0x2018, 0x92: 0x2019, 0x93: 0x201C, 0x94: 0x201D, 0x95: 0x2022,
    0x96: 0x2013, 0x97: 0x2014, 0x98: 0x02DC, 0x99: 0x2122, 0x9A: 0x0161, 0x9B: 0x203A, 0x9C: 0x0153, 0x9F: 0x0178,
}
_TO_BYTE = {u: b for b, u in COMPRESSED_SPECIAL.items()}


def compress_text(text: str) -> bytes | None:
    """8-bit form of `text` under the FcCompressed rule, or None when some character cannot be written that way."""
    out = bytearray()
    for ch in text:
        o = ord(ch)
        if o in _TO_BYTE:
            out.append(_TO_BYTE[o])
        elif o < 0x100 and o not in COMPRESSED_SPECIAL:
            out.append(o)
        else:
            return None
    return bytes(out)


def decompress_text(raw: bytes) -> str:
    return "".join(chr(COMPRESSED_SPECIAL.get(b, b)) for b in raw)


def _utf16_len(s: str) -> int:
    return len(s.encode("utf-16-le", "surrogatepass")) // 2


def rc4_encryption_header() -> bytes:
    """[MS-OFFCRYPTO] 2.3.6.1 RC4 EncryptionHeader: version 1.1, salt, encrypted verifier, verifier hash (52 bytes)."""
    return struct.pack("<HH", 1, 1) + bytes(range(0x10, 0x20)) + bytes(range(0x20, 0x30)) + bytes(range(0x30, 0x40))


def word_streams(paragraphs: list[str], *, encrypted: bool = False, compressed: bool | None = None,
                 per_paragraph_pieces: bool = False, text_offset: int = 0x400) -> tuple[bytes, bytes]:
    """Returns (WordDocument stream, 1Table stream).

    compressed: None = choose per piece (8-bit when possible), True = require 8-bit (ValueError if impossible), False = UTF-16LE.
    per_paragraph_pieces: one piece per paragraph instead of a single piece (mixed 8-bit / 16-bit pieces become possible).
    """
    if text_offset < FIB_SIZE:
        raise ValueError("text_offset inside the FIB")
    for p in paragraphs:
        if "\r" in p:
            raise ValueError("a paragraph must not contain \\r (it is the paragraph mark)")
    text = "".join(p + "\r" for p in paragraphs) if paragraphs else "\r"      # the last paragraph mark is mandatory
    units = [p + "\r" for p in paragraphs] if (per_paragraph_pieces and paragraphs) else [text]

    body = bytearray()
    cps = [0]
    pcds: list[bytes] = []
    for unit in units:
        raw8 = compress_text(unit) if compressed is not False else None
        if compressed is True and raw8 is None:
            raise ValueError("text cannot be stored as a compressed piece")
        if raw8 is not None:
            off = text_offset + len(body)
            fc = (off * 2) | 0x40000000
            body += raw8
        else:
            if (text_offset + len(body)) % 2:
                body += b"\0"                           # keep 16-bit text word aligned
            off = text_offset + len(body)
            fc = off
            body += unit.encode("utf-16-le", "surrogatepass")
        cps.append(cps[-1] + _utf16_len(unit))
        pcds.append(struct.pack("<HIH", 0, fc, 0))       # Pcd: flags, FcCompressed, Prm
    ccp_text = cps[-1]
    plcpcd = b"".join(struct.pack("<I", c) for c in cps) + b"".join(pcds)
    clx = b"\x02" + struct.pack("<I", len(plcpcd)) + plcpcd

    table = bytearray()
    lkey = 0
    if encrypted:
        hdr = rc4_encryption_header()
        table += hdr
        lkey = len(hdr)
    fc_clx = len(table)
    table += clx

    flags = F_WHICHTBLSTM | F_EXTCHAR | (F_ENCRYPTED if encrypted else 0)
    fib = bytearray(FIB_SIZE)
    struct.pack_into("<HHHHHHHIBBHHII", fib, 0, 0xA5EC, 0x00C1, 0, 0x0409, 0, flags, 0x00BF, lkey, 0, 0, 0, 0, 0, 0)
    struct.pack_into("<H", fib, 32, 0x000E)                      # csw
    struct.pack_into("<H", fib, 32 + 2 + 13 * 2, 0x0409)         # FibRgW97.lidFE
    struct.pack_into("<H", fib, 32 + 2 + 28, 0x0016)             # cslw
    stream_len = text_offset + len(body)
    struct.pack_into("<i", fib, OFF_CBMAC, stream_len)
    struct.pack_into("<i", fib, OFF_CCPTEXT, ccp_text)
    struct.pack_into("<H", fib, OFF_RGLW + 88, 0x005D)           # cbRgFcLcb
    struct.pack_into("<II", fib, OFF_FCCLX, fc_clx, len(clx))
    struct.pack_into("<H", fib, FIB_SIZE - 2, 0)                 # cswNew
    word = bytes(fib) + bytes(text_offset - FIB_SIZE) + bytes(body)
    return word, bytes(table)


def write_doc(paragraphs: list[str], *, props: dict[int, object] | None = None, codepage: int = 1252, encrypted: bool = False,
              title: str | None = None, compressed: bool | None = None, per_paragraph_pieces: bool = False,
              text_offset: int = 0x400, extra_streams: dict[str, bytes] | None = None) -> bytes:
    word, table = word_streams(paragraphs, encrypted=encrypted, compressed=compressed,
                               per_paragraph_pieces=per_paragraph_pieces, text_offset=text_offset)
    streams: dict[str, bytes] = {"WordDocument": word, "1Table": table}
    if props is not None or title is not None:
        p = dict(props or {})
        if title is not None:
            p[ole2.PID_TITLE] = title
        streams["\x05SummaryInformation"] = ole2.property_set(p, codepage=codepage)
    if extra_streams:
        streams.update(extra_streams)
    return ole2.write_cfb(streams, root_clsid=CLSID_DOC)


# ----------------------------------------------------------------------------------------------
# own FIB + Clx reader (self-check)
# ----------------------------------------------------------------------------------------------

def read_back(doc: bytes) -> dict:
    streams = ole2.read_cfb(doc)
    wd = streams["WordDocument"]
    ident, nfib = struct.unpack_from("<HH", wd, 0)
    if ident != 0xA5EC:
        raise ValueError("wIdent")
    (flags,) = struct.unpack_from("<H", wd, OFF_FLAGS)
    (lkey,) = struct.unpack_from("<I", wd, OFF_LKEY)
    # walk the variable part of the FIB instead of trusting the constants above
    pos = 32
    (csw,) = struct.unpack_from("<H", wd, pos)
    pos += 2 + 2 * csw
    (cslw,) = struct.unpack_from("<H", wd, pos)
    rglw = pos + 2
    pos = rglw + 4 * cslw
    (cb,) = struct.unpack_from("<H", wd, pos)
    rgfclcb = pos + 2
    pos = rgfclcb + 8 * cb
    (cswnew,) = struct.unpack_from("<H", wd, pos)
    fib_end = pos + 2 + 2 * cswnew
    cbmac, = struct.unpack_from("<i", wd, rglw)
    ccps = struct.unpack_from("<8i", wd, rglw + 12)           # ccpText, ccpFtn, ccpHdd, reserved, ccpAtn, ccpEdn, ccpTxbx, ccpHdrTxbx
    fc_clx, lcb_clx = struct.unpack_from("<II", wd, rgfclcb + 33 * 8)
    table = streams["1Table" if flags & F_WHICHTBLSTM else "0Table"]
    clx = table[fc_clx:fc_clx + lcb_clx]
    p = 0
    while clx[p] == 0x01:                                     # Prc entries (never written here)
        (cbgrpprl,) = struct.unpack_from("<h", clx, p + 1)
        p += 3 + cbgrpprl
    if clx[p] != 0x02:
        raise ValueError("Pcdt expected")
    (lcb,) = struct.unpack_from("<I", clx, p + 1)
    plc = clx[p + 5:p + 5 + lcb]
    n = (lcb - 4) // 12
    cps = struct.unpack_from("<%dI" % (n + 1), plc, 0)
    text = []
    pieces = []
    for i in range(n):
        _fl, fc, _prm = struct.unpack_from("<HIH", plc, 4 * (n + 1) + 8 * i)
        count = cps[i + 1] - cps[i]
        if fc & 0x40000000:
            off = (fc & 0x3FFFFFFF) // 2
            text.append(decompress_text(wd[off:off + count]))
            pieces.append(("8bit", off, count))
        else:
            off = fc & 0x3FFFFFFF
            text.append(wd[off:off + 2 * count].decode("utf-16-le", "surrogatepass"))
            pieces.append(("16bit", off, count))
    full = "".join(text)
    return {"nfib": nfib, "flags": flags, "lkey": lkey, "fib_end": fib_end, "cbmac": cbmac, "ccps": ccps, "last_cp": cps[-1],
            "text": full[:ccps[0]], "pieces": pieces, "stream_len": len(wd), "streams": sorted(streams)}


# ----------------------------------------------------------------------------------------------
# self-check
# ----------------------------------------------------------------------------------------------

def selfcheck(verbose: bool = False) -> bool:
    import io

    import olefile

    def fail(msg: str) -> bool:
        if verbose:
            print("docbin selfcheck FAILED:", msg)
        return False

    if FIB_SIZE != 900 or OFF_CCPTEXT != 0x4C or OFF_FCCLX != 0x1A2:
        return fail("FIB layout constants")
    if compress_text("a€") is not None or compress_text("\x85") is not None or compress_text("…“x”é") != b"\x85\x93x\x94\xe9":
        return fail("FcCompressed mapping")
    cases = [
        (["Hello world", "second paragraph with ümlaut é", "", "third – dash"], None, False),
        (["Ελληνικά and 日本語 😀", "plain"], None, False),
        (["plain ascii only"], False, False),
        (["eight bit", "Ελληνικά", "again eight bit …", "price 5 €"], None, True),
        ([], None, False),
        (["x" * 5000, "y"], None, True),
    ]
    for paragraphs, compressed, per_par in cases:
        blob = write_doc(paragraphs, compressed=compressed, per_paragraph_pieces=per_par, title="Übersicht é", props={4: "Ann"})
        if blob != write_doc(paragraphs, compressed=compressed, per_paragraph_pieces=per_par, title="Übersicht é", props={4: "Ann"}):
            return fail("not deterministic")
        back = read_back(blob)
        want = "".join(p + "\r" for p in paragraphs) if paragraphs else "\r"
        if back["text"] != want:
            return fail("text read back %r != %r" % (back["text"][:60], want[:60]))
        if back["nfib"] != 0x00C1 or back["fib_end"] != FIB_SIZE or back["cbmac"] != back["stream_len"]:
            return fail("FIB fields %r" % back)
        if back["ccps"][0] != _utf16_len(want) or any(back["ccps"][1:]) or back["last_cp"] != back["ccps"][0]:
            return fail("ccp fields / last CP")
        if back["flags"] & F_ENCRYPTED or not back["flags"] & F_WHICHTBLSTM or not back["flags"] & F_EXTCHAR or back["lkey"]:
            return fail("flags")
        kinds = {k for k, _, _ in back["pieces"]}
        if compressed is False and kinds != {"16bit"}:
            return fail("compressed=False ignored")
        if per_par and paragraphs and len(back["pieces"]) != len(paragraphs):
            return fail("piece count")
        if paragraphs[:1] == ["eight bit"] and [k for k, _, _ in back["pieces"]] != ["8bit", "16bit", "8bit", "16bit"]:
            return fail("mixed pieces %r" % back["pieces"])
        for k, off, _cnt in back["pieces"]:
            if off < 0x400 or (k == "16bit" and off % 2):
                return fail("piece offset")
        with olefile.OleFileIO(io.BytesIO(blob)) as ole:
            names = sorted("/".join(p) for p in ole.listdir())
            if names != sorted(["1Table", "WordDocument", "\x05SummaryInformation"]):
                return fail("olefile streams %r" % names)
            wd = ole.openstream("WordDocument").read()
            if struct.unpack_from("<H", wd, 0)[0] != 0xA5EC or struct.unpack_from("<i", wd, 0x4C)[0] != back["ccps"][0]:
                return fail("olefile WordDocument content")
            meta = ole.get_metadata()
            if meta.title != "Übersicht é".encode("cp1252") or meta.author != b"Ann":
                return fail("olefile metadata")
    enc = write_doc(["secret text that is long enough to be seen"], encrypted=True)
    back = read_back(enc)
    if not back["flags"] & F_ENCRYPTED or back["lkey"] != 52 or back["flags"] & 0x8000:
        return fail("encrypted flags")
    if back["text"] != "secret text that is long enough to be seen\r":
        return fail("encrypted marker document must still carry its Clx after the EncryptionHeader")
    if write_doc(["a"], text_offset=0x800) == write_doc(["a"]) or read_back(write_doc(["a"], text_offset=0x800))["text"] != "a\r":
        return fail("text_offset")
    if verbose:
        print("docbin selfcheck ok")
    return True


if __name__ == "__main__":
    import sys
    sys.exit(0 if selfcheck(verbose=True) else 1)
