"""Renderers of the abstract model to the text-like formats: html (also used inside mhtml / epub), txt / md / csv / tsv / json, pdf (via pdfw), eml / mbox."""
from __future__ import annotations

import json
from xml.sax.saxutils import escape, quoteattr

from vf.gen import model, wrappers


# ---- HTML ------------------------------------------------------------------------------------------------------
def _h_inlines(inl, doc, xhtml):
    out = []
    rem = doc.get("_rem")
    for idx, i in enumerate(inl):
        k = i["k"]
        if rem and idx:
            # a removable element between two inline pieces of one paragraph: its content must vanish and the text after it must stay where it is
            body = {"script": "var q = 'ZXREM01';", "style": ".ZXREM01 { color: red }", "noscript": "ZXREM01"}[rem]
            out.append(f"<{rem}>{body}</{rem}>")
        if k == "t":
            t = escape(i["tok"])
            out.append({0: t, 1: f"<b>{t}</b>", 2: f'<span style="color:red"><i>{t}</i></span>', 3: f"<b>{escape(i['tok'][:3])}</b>{escape(i['tok'][3:])}"}[i.get("sty", 0) % 4])
        elif k == "tab":
            out.append("&#9;")
        elif k == "br":
            out.append("<br/>" if xhtml else "<br>")
        elif k == "link":
            out.append(f'<a href={quoteattr(i.get("url", "#"))}>' + _h_inlines(i["inl"], doc, xhtml) + "</a>")
        elif k == "ins":
            out.append("<ins>" + _h_inlines(i["inl"], doc, xhtml) + "</ins>")
        elif k == "cref":
            c = doc["comments"][i["id"]]
            out.append("<!-- " + " ".join(x["tok"] for x in model.walk_inlines(c) if x["k"] == "t") + " -->")
        elif k in ("sdt",):
            out.append("<span>" + _h_inlines(i["inl"], doc, xhtml) + "</span>")
        else:
            raise ValueError(k)
    return (" " if doc.get("_run_space") else "").join(out)     # run_space: the inline pieces of a paragraph are separated by a blank in the source


def _h_blocks(blocks, doc, xhtml):
    out = []
    for b in blocks:
        k = b["k"]
        if k == "p":
            tag = f"h{b['h']}" if b.get("h") else "p"
            out.append(f"<{tag}>{_h_inlines(b['inl'], doc, xhtml)}</{tag}>\n")
        elif k == "list":
            def lst(items):
                tag = "ol" if b["ordered"] else "ul"
                s = [f"<{tag}>"]
                for it in items:
                    s.append("<li>" + _h_inlines(it["inl"], doc, xhtml) + (lst(it["sub"]) if it.get("sub") else "") + "</li>")
                s.append(f"</{tag}>")
                return "".join(s)
            out.append(lst(b["items"]) + "\n")
        elif k == "tbl":
            rows = []
            for ri, row in enumerate(b["rows"]):
                ct = "th" if ri < b.get("hdr", 0) else "td"
                def cell(c):
                    inner = _h_blocks(c["blocks"], doc, xhtml)
                    if not inner and xhtml and doc.get("_selfclose"):
                        return f"<{ct}/>"          # XML serialisers write an empty cell as a self-closing element
                    return f"<{ct}>{inner}</{ct}>"
                rows.append("<tr>" + "".join(cell(c) for c in row) + "</tr>")
            hdr = b.get("hdr", 0)
            body = (f"<thead>{''.join(rows[:hdr])}</thead>" if hdr else "") + f"<tbody>{''.join(rows[hdr:])}</tbody>"
            out.append(f"<table>{body}</table>\n")
        elif k == "box":
            tag = {"section": "section", "group": "div"}.get(b["kind"], "div")
            out.append(f"<{tag}>{_h_blocks(b['blocks'], doc, xhtml)}</{tag}>\n")
        elif k == "pb":
            out.append("<hr/>" if xhtml else "<hr>")
        elif k == "img":
            ext = (doc.get("_images") or [{}] * (b["id"] + 1))[b["id"]].get("ext", "png")
            out.append(f'<p><img src="../images/image{b["id"] + 1}.{ext}" alt=""/></p>')
        else:
            raise ValueError(k)
    return "".join(out)


def html_of_blocks(blocks, doc, *, xhtml=False, title="T", head_extra="", charset="utf-8", head_lead="") -> str:
    body = _h_blocks(blocks, doc, xhtml)
    p = doc.get("props") or {}
    metas = "".join(f'<meta name="{n}" content={quoteattr(p[k])}{"/" if xhtml else ""}>' for n, k in (("author", "author"), ("description", "description"), ("keywords", "keywords")) if p.get(k) is not None)
    ttl = escape(p["title"]) if p.get("title") is not None else escape(title)
    if xhtml:
        return (f'<?xml version="1.0" encoding="utf-8"?>\n<html xmlns="http://www.w3.org/1999/xhtml"><head><meta charset="utf-8"/><title>{ttl}</title>{metas}{head_extra}</head><body>{body}</body></html>')
    return f'<!DOCTYPE html>\n<html lang="en"><head>{head_lead}<meta charset="{charset}"><title>{ttl}</title>{metas}{head_extra}</head>\n<body>\n{body}</body></html>\n'


def render_html(doc, *, opts=None, **kw) -> bytes:
    if (opts or {}).get("inline_removed"):
        doc = dict(doc, _rem=opts["inline_removed"])
    if (opts or {}).get("run_space"):
        doc = dict(doc, _run_space=True)
    blocks = [b for u in doc["units"] for b in u["blocks"]]
    hdr = ""
    if doc.get("header") is not None:
        hdr = "<style>." + " .".join(i["tok"] for i in doc["header"] if i["k"] == "t") + " { color: red }</style><script>var f = '" + " ".join(i["tok"] for i in (doc.get("footer") or []) if i["k"] == "t") + "';</script>"
    opts = opts or {}
    charset = opts.get("charset") or "utf-8"
    # late_meta: the charset declaration comes after a long comment (site banners, licence texts), still inside the part of the head a reader scans
    lead = ("<!-- " + "site banner " * 220 + "-->") if opts.get("late_meta") else ""
    text = html_of_blocks(blocks, doc, head_extra=hdr, charset=charset, head_lead=lead)
    return text.encode(charset, errors="xmlcharrefreplace")      # characters outside the charset as numeric character references, as an HTML writer does


def render_mhtml(doc, *, cte="quoted-printable", opts=None, **kw) -> bytes:
    return wrappers.mhtml_bytes(render_html(doc, opts=opts).decode("utf-8"), cte=cte)


def render_epub(doc, *, images=None, opts=None, **kw) -> bytes:
    opts = opts or {}
    chapters = []
    doc = dict(doc, _images=images or [])
    if opts.get("inline_removed"):
        doc["_rem"] = opts["inline_removed"]
    if opts.get("run_space"):
        doc["_run_space"] = True
    if opts.get("selfclose_empty_cells"):
        doc["_selfclose"] = True
    # chapter file names: plain, or words that merely contain "nav" / "toc" (protocol, canaveral, octocat): they are ordinary spine documents
    stems = ["protocol", "canaveral", "octocat", "navy-report", "autocracy"] if opts.get("chapter_names") == "odd" else None
    for i, u in enumerate(doc["units"]):
        href = f"text/{stems[i % len(stems)]}{i + 1}.xhtml" if stems else f"text/ch{i + 1}.xhtml"
        chapters.append((href, html_of_blocks(u["blocks"], doc, xhtml=True, title=u.get("name") or f"Chapter {i + 1}")))
    p = doc.get("props") or {}
    n = len(chapters)
    manifest_order = list(reversed(range(n))) if opts.get("manifest_reversed") else None
    imgs = [(f"images/image{j + 1}.{im['ext']}", {"png": "image/png", "jpeg": "image/jpeg", "gif": "image/gif", "bmp": "image/bmp"}[im["ext"]], im["data"]) for j, im in enumerate(images or [])]
    if opts.get("ghost_image") and imgs:
        imgs = [("images/ghost.png", "image/png", None)] + imgs        # a manifest item whose file is missing must not disturb the numbering 1..n of the others
    if opts.get("repeat_dc"):
        p = dict(p, _repeat_dc=True)
    return wrappers.epub_bytes(chapters, title=p.get("title") or "VF Book", creator=p.get("author") or "VF Author", props=p, images=imgs, manifest_order=manifest_order)


# ---- plain text family --------------------------------------------------------------------------------------------
def _plain_inl(inl):
    out = []
    for i in inl:
        k = i["k"]
        if k == "t":
            out.append(i["tok"])
        elif k == "tab":
            out.append("\t")
        elif k == "br":
            out.append("\n")
        elif k in ("link", "ins", "sdt"):
            out.append(_plain_inl(i["inl"]))
        else:
            raise ValueError(k)
    return "".join(out)


def plain_lines(blocks, cell_sep="\t", bullet="- "):
    lines = []
    for b in blocks:
        k = b["k"]
        if k == "p":
            lines.append(("#" * b["h"] + " " if b.get("h") else "") + _plain_inl(b["inl"]))
        elif k == "list":
            def items(its, d):
                for n, it in enumerate(its):
                    lines.append("  " * d + ("* " if b["ordered"] else bullet) + _plain_inl(it["inl"]))
                    if it.get("sub"):
                        items(it["sub"], d + 1)
            items(b["items"], 0)
        elif k == "tbl":
            for row in b["rows"]:
                lines.append(cell_sep.join(" ".join(_plain_inl(p["inl"]) for p in c["blocks"] if p["k"] == "p") for c in row))
        elif k == "box":
            lines += plain_lines(b["blocks"], cell_sep, bullet)
        elif k == "pb":
            lines.append("")
    return lines


def render_txt(doc, *, encoding="ascii", bom=False, newline="\n", **kw) -> bytes:
    text = newline.join(line for u in doc["units"] for line in plain_lines(u["blocks"])) + newline
    data = text.encode("utf-16" if encoding == "utf-16" else "utf-8")
    return (b"\xef\xbb\xbf" if bom and encoding != "utf-16" else b"") + data


def render_md(doc, **kw) -> bytes:
    return render_txt(doc, **kw)


def render_csv(doc, **kw) -> bytes:
    return ("\n".join(line for u in doc["units"] for line in plain_lines(u["blocks"], cell_sep=",")) + "\n").encode("ascii")


def render_tsv(doc, **kw) -> bytes:
    return ("\n".join(line for u in doc["units"] for line in plain_lines(u["blocks"], cell_sep="\t")) + "\n").encode("ascii")


def render_json(doc, **kw) -> bytes:
    obj = {"units": [{"lines": plain_lines(u["blocks"], cell_sep=" | ")} for u in doc["units"]]}
    return json.dumps(obj, indent=1).encode("ascii")


# ---- PDF ---------------------------------------------------------------------------------------------------------------
def render_pdf(doc, *, images=None, opts=None, **kw) -> bytes:
    from vf.gen import pdfw
    opts = opts or {}
    pages = []
    for u in doc["units"]:
        lines = []
        for ln in plain_lines(u["blocks"], cell_sep="   "):
            lines.extend(ln.replace("\t", "    ").split("\n"))
        imgs = []
        for b in model.walk_blocks(u["blocks"]):
            if b["k"] == "img":
                im = images[b["id"]]
                d = {"data": im["data"], "w": im["w"], "h": im["h"]}
                if opts.get("flate_images"):
                    d["flate"] = True
                if opts.get("share_images"):
                    d["share_key"] = f"img{b['id']}"
                imgs.append(d)
        pages.append({"lines": lines, "images": imgs, "no_contents": bool(opts.get("bare_blank_pages")), "xobject_dict_reversed": bool(opts.get("xobject_dict_reversed"))})
    p = doc.get("props") or {}
    info = {k2: p[k1] for k1, k2 in (("title", "Title"), ("author", "Author"), ("subject", "Subject"), ("keywords", "Keywords")) if p.get(k1) is not None}
    return pdfw.write_pdf(pages, info=info or None, compress=bool(opts.get("compress")))


# ---- mail ------------------------------------------------------------------------------------------------------------------
def _message(u, idx, doc):
    from email.message import EmailMessage
    m = EmailMessage()
    m["From"] = "Alice Sender <alice@example.org>"
    m["To"] = "Bob Receiver <bob@example.org>"
    m["Subject"] = u.get("name") or f"Message {idx + 1}"
    m["Date"] = f"Fri, {idx + 1:02d} Mar 2024 12:00:00 +0000"
    ids = (doc.get("_opts") or {}).get("message_ids")
    if ids != "none":          # "none": no Message-ID header at all (drafts, old archives); "same": one id repeated (a mailbox holding copies)
        m["Message-ID"] = "<vf-1@example.org>" if ids == "same" else f"<vf-{idx + 1}@example.org>"
    m.set_content("\n".join(plain_lines(u["blocks"])) + "\n")
    if (doc.get("_opts") or {}).get("forward"):
        # another mail attached as message/rfc822: its text belongs to the attachment, not to this message
        inner = EmailMessage()
        inner["Subject"], inner["From"], inner["To"] = "forwarded", "x@example.org", "y@example.org"
        inner.set_content(f"forwarded text ZX0FW{idx:02d} of the attached mail\n")
        m.add_attachment(inner)
    return m


def render_eml(doc, **kw) -> bytes:
    from email import policy
    return _message(doc["units"][0], 0, doc).as_bytes(policy=policy.SMTP)


def render_mbox(doc, *, crlf=False, opts=None, **kw) -> bytes:
    crlf = crlf or bool((opts or {}).get("crlf"))
    from email import policy
    out = []
    doc = dict(doc, _opts=opts or {})
    for i, u in enumerate(doc["units"]):
        raw = _message(u, i, doc).as_bytes(policy=policy.SMTP).replace(b"\r\n", b"\n")
        body = b"\n".join((b">" + ln if ln.startswith(b"From ") else ln) for ln in raw.split(b"\n"))
        out.append(b"From alice@example.org Fri Mar  1 12:00:00 2024\n" + body + b"\n")
    data = b"".join(out)
    return data.replace(b"\n", b"\r\n") if crlf else data
