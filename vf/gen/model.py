"""Abstract document model (DESIGN §3.1), its Hypothesis strategy, and the format-independent expectation walk.

doc   = {"props": {title, author, subject, keywords, description}, "units": [unit], "header": [inline]|None, "footer": [inline]|None,
         "comments": [[inline]]  (X-class text, referenced by cref inlines)}
unit  = {"name": str|None, "blocks": [block], "notes": [inline]|None (speaker notes, X)}
block = {"k":"p","inl":[inline],"h":int|None}
      | {"k":"list","ordered":bool,"items":[{"inl":[inline],"sub":[item]|None}]}
      | {"k":"tbl","rows":[[cell]],"hdr":int}            cell = {"blocks":[block]}
      | {"k":"img","id":int}
      | {"k":"math","omml":root,"display":bool}
      | {"k":"box","kind":"sdt"|"section"|"textbox"|"group","blocks":[block]}
      | {"k":"pb"}
inline= {"k":"t","tok":str,"sty":int} | {"k":"tab"} | {"k":"br"} | {"k":"link","inl":[inline],"url":str} | {"k":"ins","inl":[inline]}
      | {"k":"del","inl":[inline]} (X tokens) | {"k":"cref","id":int} | {"k":"note","inl":[inline]} (M) | {"k":"field","tok":M} | {"k":"sdt","inl":[inline]}

Every format has a *profile* (vf/gen/profiles.py) saying which constructs it can express and where the documentation puts their text.
"""
from __future__ import annotations

from hypothesis import strategies as st

from vf.gen.tokens import make

# ---- walking ------------------------------------------------------------------------------------------------


def walk_inlines(inl):
    for i in inl:
        yield i
        if i["k"] in ("link", "ins", "del", "note", "sdt"):
            yield from walk_inlines(i["inl"])


def walk_blocks(blocks):
    """yield every block (pre-order), descending into lists, tables, boxes."""
    for b in blocks:
        yield b
        if b["k"] == "tbl":
            for row in b["rows"]:
                for cell in row:
                    yield from walk_blocks(cell["blocks"])
        elif b["k"] == "box":
            yield from walk_blocks(b["blocks"])


def run_pairs(doc) -> set:
    """(a, b) for every two consecutive body tokens of one paragraph / list item (what a renderer with the run_space option separates by a blank)."""
    pairs = set()

    def of(inl):
        toks = [i["tok"] for i in walk_inlines(inl) if i["k"] == "t" and i["tok"][:2] == "ZB"]
        pairs.update(zip(toks, toks[1:]))
    for u in doc["units"]:
        for b in walk_blocks(u["blocks"]):
            if b["k"] == "p":
                of(b["inl"])
            elif b["k"] == "list":
                for it in list_items(b["items"]):
                    of(it["inl"])
    return pairs


def list_items(items):
    for it in items:
        yield it
        if it.get("sub"):
            yield from list_items(it["sub"])


def features(doc) -> set:
    f = set()
    nunits = len(doc["units"])
    if nunits > 1:
        f.add("unit.multi")
    for u in doc["units"]:
        if not u["blocks"]:
            f.add("unit.empty")
        if u.get("notes"):
            f.add("excluded.speaker-notes")
        for b in walk_blocks(u["blocks"]):
            k = b["k"]
            if k == "p":
                if b.get("h"):
                    f.add("para.heading")
                _inline_feats(b["inl"], f)
            elif k == "list":
                f.add("list.flat")
                for it in list_items(b["items"]):
                    if it.get("sub"):
                        f.add("list.nested")
                    _inline_feats(it["inl"], f)
            elif k == "tbl":
                f.add("table.simple")
                for row in b["rows"]:
                    for cell in row:
                        if len([x for x in cell["blocks"] if x["k"] == "p"]) > 1:
                            f.add("table.multi-para-cell")
                        if any(x["k"] == "tbl" for x in cell["blocks"]):
                            f.add("table.nested")
                        if not cell["blocks"]:
                            f.add("table.empty-cell")
                if len({len(r) for r in b["rows"]}) > 1:
                    f.add("table.ragged")
            elif k == "box":
                f.add("container." + b["kind"])
            elif k == "img":
                f.add("image")
            elif k == "math":
                f.add("formula")
            elif k == "pb":
                f.add("page-break")
    for u in doc["units"]:
        tops = u["blocks"]
        heads = [i for i, b in enumerate(tops) if b["k"] == "p" and b.get("h")]
        if heads and heads[0] > 0:
            f.add("flow.text-before-first-heading")
    if doc.get("header") or doc.get("footer"):
        f.add("excluded.header-footer")
    if doc.get("comments"):
        f.add("excluded.comment")
    return f


def _inline_feats(inl, f):
    for i in walk_inlines(inl):
        k = i["k"]
        if k == "tab":
            f.add("run.tab")
        elif k == "br":
            f.add("run.break")
        elif k == "link":
            f.add("run.link")
        elif k == "ins":
            f.add("run.ins")
        elif k == "del":
            f.add("run.del")
        elif k == "cref":
            f.add("run.comment-ref")
        elif k == "note":
            f.add("run.note-ref")
        elif k == "field":
            f.add("run.field")
        elif k == "sdt":
            f.add("container.sdt.inline")
    n = sum(1 for i in inl if i["k"] == "t")
    if n > 1:
        f.add("run.multi")


def validate(doc):
    """Reject ill-formed models (the shrinker may propose them): X tokens only in excluded regions, B tokens only in the body, tokens unique."""
    from vf.gen.tokens import TOKEN_RE
    seen = set()

    def tokchk(tok, want):
        assert TOKEN_RE.fullmatch(tok) and tok[1] in want, (tok, want)
        assert tok not in seen or tok[1] == "M", tok
        seen.add(tok)

    def inl(xs, want):
        assert isinstance(xs, list)
        for i in xs:
            k = i["k"]
            if k == "t":
                tokchk(i["tok"], want)
            elif k == "del":
                inl(i["inl"], "X")
            elif k == "note":
                inl(i["inl"], "M")
            elif k == "field":
                tokchk(i["tok"], "M")
            elif k in ("link", "ins", "sdt"):
                inl(i["inl"], want)
            elif k == "cref":
                assert 0 <= i["id"] < len(doc.get("comments") or [])
            else:
                assert k in ("tab", "br"), k

    def blocks(bs):
        for b in bs:
            k = b["k"]
            if k == "p":
                assert b["inl"]
                inl(b["inl"], "BM")
            elif k == "list":
                assert b["items"]
                for it in list_items(b["items"]):
                    inl(it["inl"], "BM")
            elif k == "tbl":
                assert b["rows"] and all(r for r in b["rows"])
                for row in b["rows"]:
                    for c in row:
                        blocks(c["blocks"])
            elif k == "box":
                assert b["kind"] in ("sdt", "section", "textbox", "group", "custom-shape") and b["blocks"]
                blocks(b["blocks"])
            else:
                assert k in ("img", "math", "pb"), k
    assert doc["units"]
    assert len(doc["units"]) > 1 or doc["units"][0]["blocks"], "a single-unit document is not empty"
    for u in doc["units"]:
        blocks(u["blocks"])
        if u.get("notes") is not None:
            inl(u["notes"], "X")
    for region in ("header", "footer"):
        if doc.get(region) is not None:
            inl(doc[region], "X")
    for c in doc.get("comments") or []:
        inl(c, "X")
    return True


# ---- expectation walk -----------------------------------------------------------------------------------------
class Expect:
    """What the documentation promises for this document in this format."""

    def __init__(self):
        self.body: list[str] = []          # B tokens expected in get_full_text(), in order
        self.hard_sep: set = set()         # (a, b) consecutive body tokens that must be separated by whitespace
        self.table_only: list[str] = []    # B tokens documented to live in the tables rather than the text
        self.forbidden: set = set()        # X tokens
        self.per_unit: list[list[str]] = []  # body+table tokens per unit (for the partition clause)
        self.headings_per_unit: list[list[str]] = []
        self.allowed_words: set = set()    # declared source strings that may appear as decoration (sheet names, titles)


def expect(doc, profile) -> Expect:
    """profile keys used: 'table_text_in_full_text' (bool), 'order' ('document')."""
    e = Expect()
    last = [None]      # last body token emitted
    pending = [False]  # a hard boundary occurred since the last token

    def emit(tok, sink):
        if tok[1] == "B":
            sink.append(tok)
            if sink is e.body:
                if last[0] is not None and pending[0]:
                    e.hard_sep.add((last[0], tok))
                last[0] = tok
                pending[0] = False
        elif tok[1] == "X":
            e.forbidden.add(tok)

    def boundary():
        pending[0] = True

    def inlines(inl, sink, unit_toks):
        for i in inl:
            k = i["k"]
            if k == "t":
                emit(i["tok"], sink)
                if i["tok"][1] == "B":
                    unit_toks.append(i["tok"])
            elif k in ("tab", "br"):
                boundary()
            elif k in ("link", "ins", "sdt"):
                inlines(i["inl"], sink, unit_toks)
            elif k == "del":
                for j in walk_inlines(i["inl"]):
                    if j["k"] == "t":
                        e.forbidden.add(j["tok"])
            elif k == "note":
                pass  # M
            elif k == "field":
                pass  # M
            elif k == "cref":
                pass

    def blocks(bs, sink, unit_toks, heads, in_table=False):
        for b in bs:
            k = b["k"]
            boundary()
            if k == "p":
                before = len(unit_toks)
                inlines(b["inl"], sink, unit_toks)
                if b.get("h"):
                    heads.extend(unit_toks[before:])
            elif k == "list":
                def items(its):
                    for it in its:
                        boundary()
                        inlines(it["inl"], sink, unit_toks)
                        if it.get("sub"):
                            items(it["sub"])
                items(b["items"])
            elif k == "tbl":
                tsink = sink if profile.get("table_text_in_full_text", True) else e.table_only
                for row in b["rows"]:
                    for cell in row:
                        boundary()
                        blocks(cell["blocks"], tsink, unit_toks, heads, True)
            elif k == "box":
                blocks(b["blocks"], sink, unit_toks, heads, in_table)
            boundary()

    for u in doc["units"]:
        ut, heads = [], []
        boundary()
        blocks(u["blocks"], e.body, ut, heads)
        e.per_unit.append(ut)
        e.headings_per_unit.append(heads)
        for i in walk_inlines(u.get("notes") or []):
            if i["k"] == "t":
                e.forbidden.add(i["tok"])
        if u.get("name"):
            e.allowed_words.add(u["name"])
    for region in (doc.get("header"), doc.get("footer")):
        for i in walk_inlines(region or []):
            if i["k"] == "t":
                e.forbidden.add(i["tok"])
    for c in doc.get("comments") or []:
        for i in walk_inlines(c):
            if i["k"] == "t":
                e.forbidden.add(i["tok"])
    return e


# ---- strategy --------------------------------------------------------------------------------------------------
@st.composite
def documents(draw, profile, max_units=None, max_blocks=5, allow=None):
    """profile['features'] = set of feature ids the renderer supports; `allow` optionally narrows it further."""
    feats = set(profile["features"]) if allow is None else set(profile["features"]) & set(allow)
    ctr = [draw(st.integers(0, 10**5)) * 400]

    def tok(cls="B"):
        ctr[0] += 1
        return make(cls, ctr[0] % (36 ** 5))

    def has(f):
        return f in feats

    def chance(n):
        return draw(st.integers(0, n - 1)) == 0

    def run(cls="B"):
        return {"k": "t", "tok": tok(cls), "sty": draw(st.integers(0, 3))}

    def inlines(depth=0, cls="B"):
        out = [run(cls)]
        for _ in range(draw(st.integers(0, 3))):
            opts = ["t", "t"]
            if cls == "B" and depth < 1:
                for f, k in (("run.tab", "tab"), ("run.break", "br"), ("run.link", "link"), ("run.ins", "ins"), ("run.del", "del"), ("run.note-ref", "note"),
                             ("run.field", "field"), ("container.sdt.inline", "sdt"), ("run.comment-ref", "cref")):
                    if has(f):
                        opts.append(k)
            k = draw(st.sampled_from(opts))
            if k == "t":
                out.append(run(cls))
            elif k in ("tab", "br"):
                out.append({"k": k})
                out.append(run(cls))
            elif k in ("link", "ins", "sdt"):
                out.append({"k": k, "inl": inlines(depth + 1), "url": "https://example.org/" + tok("M")})
            elif k == "del":
                out.append({"k": "del", "inl": inlines(depth + 1, "X")})
            elif k == "note":
                out.append({"k": "note", "inl": inlines(depth + 1, "M")})
            elif k == "field":
                out.append({"k": "field", "tok": tok("M")})
            elif k == "cref":
                comments.append(inlines(depth + 1, "X"))
                out.append({"k": "cref", "id": len(comments) - 1})
        return out

    def para(heading_ok=True):
        h = draw(st.integers(1, 3)) if (heading_ok and has("para.heading") and chance(4)) else None
        return {"k": "p", "inl": inlines(), "h": h}

    def listblock(depth=0):
        def item(d):
            sub = None
            if has("list.nested") and d < 2 and chance(3):
                sub = [item(d + 1) for _ in range(draw(st.integers(1, 2)))]
            return {"inl": inlines(1), "sub": sub}
        return {"k": "list", "ordered": draw(st.booleans()), "items": [item(depth) for _ in range(draw(st.integers(1, 3)))]}

    def table(depth=0):
        r, c = draw(st.integers(1, 3)), draw(st.integers(1, 3))
        rows = []
        for _ in range(r):
            row = []
            for _ in range(c):
                bl = [{"k": "p", "inl": inlines(1), "h": None}]
                if has("table.multi-para-cell") and chance(4):
                    bl.append({"k": "p", "inl": inlines(1), "h": None})
                if has("table.nested") and depth < 1 and chance(6):
                    bl.append(table(depth + 1))
                    bl.append({"k": "p", "inl": inlines(1), "h": None})
                if has("table.empty-cell") and chance(8):
                    bl = []
                row.append({"blocks": bl})
            rows.append(row)
        if has("table.ragged") and c > 1 and chance(4):
            # rows of different length (a caption-like first row, a short last row)
            k = draw(st.integers(0, r - 1))
            rows[k] = rows[k][:draw(st.integers(1, c - 1))]
        return {"k": "tbl", "rows": rows, "hdr": 1 if (has("table.header-rows") and chance(3)) else 0}

    def block(depth=0):
        opts = ["p", "p", "p"]
        if has("list.flat"):
            opts.append("list")
        if has("table.simple"):
            opts.append("tbl")
        if depth < 1:
            for kind in ("sdt", "section", "textbox", "group", "custom-shape"):
                if has("container." + kind):
                    opts.append("box:" + kind)
        k = draw(st.sampled_from(opts))
        if k == "p":
            return para(heading_ok=depth == 0)
        if k == "list":
            return listblock()
        if k == "tbl":
            return table()
        kind = k.split(":")[1]
        if kind == "custom-shape":
            return {"k": "box", "kind": kind, "blocks": [para(heading_ok=False) for _ in range(draw(st.integers(1, 2)))]}
        return {"k": "box", "kind": kind, "blocks": [block(depth + 1) for _ in range(draw(st.integers(1, 2)))]}

    comments: list = []
    mu = max_units or profile.get("max_units", 1)
    nunits = draw(st.integers(1, mu)) if has("unit.multi") else 1
    units = []
    for ui in range(nunits):
        nb = draw(st.integers(0 if has("unit.empty") and nunits > 1 else 1, max_blocks))
        u = {"name": None, "blocks": [block() for _ in range(nb)], "notes": None}
        if profile.get("unit_names"):
            u["name"] = f"{profile['unit_names']}{ui + 1}" + ("" if chance(2) else " " + tok("M"))
        if has("excluded.speaker-notes") and chance(3):
            u["notes"] = inlines(1, "X")
        units.append(u)
    if has("excluded.comment") and not has("run.comment-ref") and chance(2):
        comments.append(inlines(1, "X"))  # unanchored (page-level) comment
    doc = {"props": {}, "units": units, "header": None, "footer": None, "comments": comments}
    if has("excluded.header-footer") and chance(2):
        doc["header"] = inlines(1, "X")
        doc["footer"] = inlines(1, "X")
    return doc



# ---- deterministic samples ------------------------------------------------------------------------------------------------------------------
_RICH: dict = {}


def option_combos(profile) -> list[dict]:
    """Every combination of the renderer's option values (all of them when there are at most 64, otherwise the default plus one option changed at a time)."""
    import itertools
    opts = {k: list(dict.fromkeys(vs)) for k, vs in (profile.get("opts") or {}).items()}
    keys = sorted(opts)
    if not keys:
        return [{}]
    combos = list(itertools.product(*[opts[k] for k in keys]))
    if len(combos) > 64:
        default = tuple(opts[k][0] for k in keys)
        combos = [default] + [default[:i] + (v,) + default[i + 1:] for i, k in enumerate(keys) for v in opts[k][1:]]
    return [dict(zip(keys, c)) for c in combos]


def rich_sample(profile, k: int = 4, key: str = "", strategy=None, feats_fn=None) -> list:
    """k feature-rich documents of the profile, the same in every run (a fixed Hypothesis seed, independent of VERIF_SEED): the deterministic part of the checks crosses them
    with every option combination, so that a renderer option meets a document it matters for by construction and not by the luck of a seed."""
    import hashlib
    import json
    import hypothesis
    from hypothesis import HealthCheck, Phase, given, settings
    ck = (key or profile.get("ext", ""), k, id(strategy))
    if ck in _RICH:
        return _RICH[ck]
    bag = []

    @hypothesis.seed(20241004)
    @settings(max_examples=150, database=None, deadline=None, suppress_health_check=list(HealthCheck), phases=[Phase.generate])
    @given(strategy if strategy is not None else documents(profile))
    def collect(d):
        bag.append(d)
    collect()

    def feats(d):
        if feats_fn is not None:
            return feats_fn(d)
        if "sheets" in d:       # a cell grid: its shape and cell types stand in for features
            return {f"sheets={len(d['sheets'])}"} | {f"{len(sh['rows'])}x{len(sh['rows'][0]) if sh['rows'] else 0}" for sh in d["sheets"]} | {c["t"] for sh in d["sheets"] for r in sh["rows"] for c in r if c}
        return features(d)

    def score(d):
        return (len(feats(d)), hashlib.sha256(json.dumps(d, sort_keys=True, default=str).encode()).hexdigest())
    bag.sort(key=score, reverse=True)
    out, seen = [], set()
    for d in bag:
        f = frozenset(feats(d))
        if f in seen:
            continue
        seen.add(f)
        out.append(d)
        if len(out) == k:
            break
    _RICH[ck] = out
    return out
