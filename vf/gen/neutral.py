"""Neutralisers (DESIGN §2.6 stage 3): replace every instance of a feature by its closest harmless relative."""
from __future__ import annotations

import copy

from vf.gen import model


def _map_inlines(inl, fn):
    out = []
    for i in inl:
        i = dict(i)
        if "inl" in i:
            i["inl"] = _map_inlines(i["inl"], fn)
        r = fn(i)
        if r is None:
            continue
        out.extend(r if isinstance(r, list) else [r])
    return out


def _map_blocks(blocks, bfn, ifn):
    out = []
    for b in blocks:
        b = copy.copy(b)
        k = b["k"]
        if k == "p":
            b["inl"] = _map_inlines(b["inl"], ifn)
        elif k == "list":
            def items(its):
                res = []
                for it in its:
                    it = dict(it)
                    it["inl"] = _map_inlines(it["inl"], ifn)
                    if it.get("sub"):
                        it["sub"] = items(it["sub"])
                    res.append(it)
                return res
            b["items"] = items(b["items"])
        elif k == "tbl":
            b["rows"] = [[{"blocks": _map_blocks(c["blocks"], bfn, ifn)} for c in row] for row in b["rows"]]
        elif k == "box":
            b["blocks"] = _map_blocks(b["blocks"], bfn, ifn)
        r = bfn(b)
        if r is None:
            continue
        out.extend(r if isinstance(r, list) else [r])
    return out


def neutralise(doc, feature: str):
    doc = copy.deepcopy(doc)
    ident_i = lambda i: i  # noqa
    ident_b = lambda b: b  # noqa
    ifn, bfn = ident_i, ident_b
    if feature in ("run.tab", "run.break"):
        kind = "tab" if feature == "run.tab" else "br"
        ifn = lambda i: None if i["k"] == kind else i  # noqa
    elif feature in ("run.link", "run.ins", "container.sdt.inline"):
        kind = {"run.link": "link", "run.ins": "ins", "container.sdt.inline": "sdt"}[feature]
        ifn = lambda i: i["inl"] if i["k"] == kind else i  # noqa
    elif feature in ("run.del", "run.note-ref", "run.field", "run.comment-ref"):
        kind = {"run.del": "del", "run.note-ref": "note", "run.field": "field", "run.comment-ref": "cref"}[feature]
        ifn = lambda i: None if i["k"] == kind else i  # noqa
    elif feature.startswith("container."):
        kind = feature.split(".", 1)[1]
        bfn = lambda b: b["blocks"] if (b["k"] == "box" and b["kind"] == kind) else b  # noqa
    elif feature == "table.nested":
        def bfn(b):
            if b["k"] != "tbl":
                return b
            lifted = []
            for row in b["rows"]:
                for c in row:
                    keep = []
                    for x in c["blocks"]:
                        (lifted if x["k"] == "tbl" else keep).append(x)
                    c["blocks"] = keep
            return [b] + lifted
    elif feature == "table.simple":
        def bfn(b):
            if b["k"] != "tbl":
                return b
            out = []
            for row in b["rows"]:
                for c in row:
                    out.extend(c["blocks"])
            return out
    elif feature == "unit.multi":
        doc["units"] = [{"name": doc["units"][0].get("name"), "blocks": [b for u in doc["units"] for b in u["blocks"]], "notes": doc["units"][0].get("notes")}]
    elif feature == "table.multi-para-cell":
        def bfn(b):
            if b["k"] == "tbl":
                for row in b["rows"]:
                    for c in row:
                        ps = [x for x in c["blocks"] if x["k"] == "p"]
                        if len(ps) > 1:
                            merged = {"k": "p", "inl": [i for p in ps for i in p["inl"]], "h": None}
                            c["blocks"] = [merged] + [x for x in c["blocks"] if x["k"] != "p"]
            return b
    elif feature == "table.empty-cell":
        def bfn(b):
            if b["k"] == "tbl":
                for row in b["rows"]:
                    for c in row:
                        if not c["blocks"]:
                            c["blocks"] = [{"k": "p", "inl": [{"k": "t", "tok": "ZM0FILL", "sty": 0}], "h": None}]
            return b
    elif feature == "list.nested":
        def bfn(b):
            if b["k"] == "list":
                b["items"] = [{"inl": it["inl"], "sub": None} for it in model.list_items(b["items"])]
            return b
    elif feature == "list.flat":
        bfn = lambda b: [{"k": "p", "inl": it["inl"], "h": None} for it in model.list_items(b["items"])] if b["k"] == "list" else b  # noqa
    elif feature == "para.heading":
        def bfn(b):
            if b["k"] == "p":
                b["h"] = None
            return b
    elif feature == "flow.text-before-first-heading":
        for u in doc["units"]:
            heads = [i for i, b in enumerate(u["blocks"]) if b["k"] == "p" and b.get("h")]
            if heads and heads[0] > 0:
                u["blocks"].insert(0, {"k": "p", "inl": [{"k": "t", "tok": "ZM0HEAD", "sty": 0}], "h": 1})
        return doc
    elif feature == "excluded.header-footer":
        doc["header"] = doc["footer"] = None
    elif feature == "excluded.speaker-notes":
        for u in doc["units"]:
            u["notes"] = None
    elif feature == "excluded.comment":
        ifn = lambda i: None if i["k"] == "cref" else i  # noqa
        doc["comments"] = []
    elif feature == "unit.empty":
        for u in doc["units"]:
            if not u["blocks"]:
                u["blocks"] = [{"k": "p", "inl": [{"k": "t", "tok": "ZM0FILL", "sty": 0}], "h": None}]
    else:
        return doc
    for u in doc["units"]:
        u["blocks"] = _map_blocks(u["blocks"], bfn, ifn)
    return doc
