"""Independent PowerPoint 97-2003 (.ppt) writer following [MS-PPT] / [MS-ODRAW]; CFB packaging through vf.gen.ole2.

    write_ppt(slides, props=None, codepage=1252, pictures=None, encrypted_marker=False, ...) -> bytes
    walk(stream) -> record tree;  read_back(ppt_bytes) -> what an own persist-directory based reader recovers
    selfcheck() -> bool      (olefile is used as an independent cross-check only)

slides: [{"title": str|None, "body": [str, ...], "other": [str, ...], "notes": [str, ...], "pictures": [int, ...] (optional)}]

Layout of the "PowerPoint Document" stream (every top-level record is a persist object):
    Document (persist id 1) · MainMaster (2) · Slide containers (3..) · Notes containers · [CryptSession10Container]
    · PersistDirectoryAtom · UserEditAtom;  "Current User" stream -> UserEditAtom offset.

Record instance of SlideListWithText follows [MS-PPT] 2.4.14.1/3/6: 1 = master list, 0 = slide list, 2 = notes list.

text_placement:
    "both"    (default) every title/body/other text is written in the slide list of the Document container AND in the
              client textbox of a shape inside the Slide container (TextHeaderAtom + TextChars/BytesAtom in both places)
    "outline" what PowerPoint writes: title/body placeholder text only in the slide list, the shapes carry an
              OutlineTextRefAtom; "other" text only inside its shape
    "inline"  all text only inside the shapes of the Slide container; the slide list holds only SlidePersistAtoms
Notes text always lives in the Notes container (text type 2); the notes list holds only persist atoms, as specified.
Deterministic: no clock, no randomness.
"""
from __future__ import annotations

import struct
import uuid

from . import ole2

# record types
RT_Document, RT_DocumentAtom, RT_EndDocumentAtom = 0x03E8, 0x03E9, 0x03EA
RT_Slide, RT_SlideAtom, RT_Notes, RT_NotesAtom, RT_Environment, RT_SlidePersistAtom = 0x03EE, 0x03EF, 0x03F0, 0x03F1, 0x03F2, 0x03F3
RT_MainMaster, RT_DrawingGroup, RT_Drawing, RT_ColorSchemeAtom = 0x03F8, 0x040B, 0x040C, 0x07F0
RT_FontCollection, RT_FontEntityAtom, RT_PlaceholderAtom = 0x07D5, 0x0FB7, 0x0BC3
RT_OutlineTextRefAtom, RT_TextHeaderAtom, RT_TextCharsAtom, RT_TextBytesAtom = 0x0F9E, 0x0F9F, 0x0FA0, 0x0FA8
RT_SlideListWithText, RT_UserEditAtom, RT_CurrentUserAtom, RT_PersistDirectoryAtom = 0x0FF0, 0x0FF5, 0x0FF6, 0x1772
RT_CryptSession10Container = 0x2F14
# OfficeArt
OA_Dgg, OA_BStore, OA_Dg, OA_Spgr, OA_Sp = 0xF000, 0xF001, 0xF002, 0xF003, 0xF004
OA_FDGG, OA_FBSE, OA_FDG, OA_FSPGR, OA_FSP, OA_FOPT = 0xF006, 0xF007, 0xF008, 0xF009, 0xF00A, 0xF00B
OA_ClientTextbox, OA_ClientAnchor, OA_ClientData = 0xF00D, 0xF010, 0xF011
OA_BlipJPEG, OA_BlipPNG, OA_BlipDIB = 0xF01D, 0xF01E, 0xF01F

TX_TITLE, TX_BODY, TX_NOTES, TX_OTHER = 0, 1, 2, 4
TX_CENTER_TITLE = 6
PT_MasterTitle, PT_MasterBody, PT_NotesBody, PT_Title, PT_Body = 0x01, 0x02, 0x0C, 0x0D, 0x0E

HEADER_TOKEN_PLAIN = 0xE391C05F
HEADER_TOKEN_ENCRYPTED = 0xF3D1C4DF
MASTER_ID = 0x80000000
CLSID_PPT = uuid.UUID("64818D10-4F9B-11CF-86EA-00AA00B929E8").bytes_le

MASTER_TITLE_TEXT = "Click to edit Master title style"
MASTER_BODY_TEXT = "Click to edit Master text styles\rSecond level\rThird level\rFourth level\rFifth level"

_BLIP = {"png": (OA_BlipPNG, 0x6E0, 6), "jpeg": (OA_BlipJPEG, 0x46A, 5), "jpg": (OA_BlipJPEG, 0x46A, 5), "dib": (OA_BlipDIB, 0x7A8, 7)}


def rec(ver: int, inst: int, rtype: int, body: bytes = b"") -> bytes:
    return struct.pack("<HHI", (ver & 0xF) | ((inst & 0xFFF) << 4), rtype, len(body)) + body


def container(rtype: int, *children: bytes, inst: int = 0) -> bytes:
    return rec(0xF, inst, rtype, b"".join(children))


# ----------------------------------------------------------------------------------------------
# MD4 (RFC 1320) - the BLIP uid is the MD4 of the image data; hashlib does not always provide it
# ----------------------------------------------------------------------------------------------

def md4(data: bytes) -> bytes:
    def rol(x, n):
        x &= 0xFFFFFFFF
        return ((x << n) | (x >> (32 - n))) & 0xFFFFFFFF

    msg = data + b"\x80" + bytes((55 - len(data)) % 64) + struct.pack("<Q", len(data) * 8)
    a, b, c, d = 0x67452301, 0xEFCDAB89, 0x98BADCFE, 0x10325476
    for off in range(0, len(msg), 64):
        x = struct.unpack_from("<16I", msg, off)
        aa, bb, cc, dd = a, b, c, d
        for i in range(16):
            k, s = i, (3, 7, 11, 19)[i % 4]
            a = rol(a + ((b & c) | (~b & d)) + x[k], s)
            a, b, c, d = d, a, b, c
        for i in range(16):
            k, s = (i % 4) * 4 + i // 4, (3, 5, 9, 13)[i % 4]
            a = rol(a + ((b & c) | (b & d) | (c & d)) + x[k] + 0x5A827999, s)
            a, b, c, d = d, a, b, c
        order = (0, 8, 4, 12, 2, 10, 6, 14, 1, 9, 5, 13, 3, 11, 7, 15)
        for i in range(16):
            k, s = order[i], (3, 9, 11, 15)[i % 4]
            a = rol(a + (b ^ c ^ d) + x[k] + 0x6ED9EBA1, s)
            a, b, c, d = d, a, b, c
        a, b, c, d = (a + aa) & 0xFFFFFFFF, (b + bb) & 0xFFFFFFFF, (c + cc) & 0xFFFFFFFF, (d + dd) & 0xFFFFFFFF
    return struct.pack("<4I", a, b, c, d)


# ----------------------------------------------------------------------------------------------
# text atoms
# ----------------------------------------------------------------------------------------------

def text_atoms(text: str, text_type: int, *, index: int = 0, use_bytes: bool | None = None) -> bytes:
    """TextHeaderAtom followed by TextBytesAtom / TextCharsAtom (nothing after the header for empty text)."""
    out = rec(0, index, RT_TextHeaderAtom, struct.pack("<I", text_type))
    if text == "":
        return out
    narrow = all(ord(ch) < 256 for ch in text)
    if use_bytes is None:
        use_bytes = narrow
    if use_bytes and narrow:
        return out + rec(0, 0, RT_TextBytesAtom, text.encode("latin-1"))
    return out + rec(0, 0, RT_TextCharsAtom, text.encode("utf-16-le", "surrogatepass"))


class _FormPicker:
    """Alternates TextBytesAtom / TextCharsAtom for texts that fit in 8 bits; the same text gets the same form everywhere."""

    def __init__(self):
        self.n = 0
        self.memo: dict[tuple, bool] = {}

    def pick(self, key: tuple, text: str) -> bool:
        if key not in self.memo:
            if all(ord(ch) < 256 for ch in text):
                self.memo[key] = (self.n % 2 == 0)
                self.n += 1
            else:
                self.memo[key] = False
        return self.memo[key]


# ----------------------------------------------------------------------------------------------
# OfficeArt drawing
# ----------------------------------------------------------------------------------------------

def _shape(spid: int, shape_type: int, anchor: tuple[int, int, int, int], *, client_data: bytes = b"", textbox: bytes = b"",
           props: list[tuple[int, int]] | None = None) -> bytes:
    parts = [rec(2, shape_type, OA_FSP, struct.pack("<II", spid, 0x00000A00))]          # fHaveAnchor | fHaveSpt
    if props:
        parts.append(rec(3, len(props), OA_FOPT, b"".join(struct.pack("<HI", pid, val) for pid, val in props)))
    top, left, right, bottom = anchor
    parts.append(rec(0, 0, OA_ClientAnchor, struct.pack("<hhhh", top, left, right, bottom)))
    if client_data:
        parts.append(rec(0xF, 0, OA_ClientData, client_data))
    if textbox:
        parts.append(rec(0xF, 0, OA_ClientTextbox, textbox))
    return container(OA_Sp, *parts)


def _placeholder_atom(position: int, placement: int) -> bytes:
    return rec(0, 0, RT_PlaceholderAtom, struct.pack("<iBBH", position, placement, 0, 0))


def _drawing(dgid: int, shapes: list[dict]) -> tuple[bytes, int]:
    """PPDrawing{OfficeArtDgContainer}. shapes: dicts with keys type, textbox, client_data, props. Returns (bytes, #shapes incl. group)."""
    base = dgid << 10
    patriarch = container(OA_Sp,
                          rec(1, 0, OA_FSPGR, struct.pack("<iiii", 0, 0, 0, 0)),
                          rec(2, 0, OA_FSP, struct.pack("<II", base, 0x00000005)))       # fGroup | fPatriarch
    built = []
    for k, sh in enumerate(shapes, 1):
        y = 300 + 600 * (k - 1)
        built.append(_shape(base + k, sh.get("type", 202), (y, 300, 5400, y + 500), client_data=sh.get("client_data", b""),
                            textbox=sh.get("textbox", b""), props=sh.get("props")))
    n = len(shapes) + 1
    background = container(OA_Sp,
                           rec(2, 1, OA_FSP, struct.pack("<II", base + n, 0x00000C00)),   # fBackground | fHaveSpt
                           rec(3, 1, OA_FOPT, struct.pack("<HI", 0x0181, 0x08000004)))    # fillColor = scheme colour
    dg = container(OA_Dg,
                   rec(0, dgid, OA_FDG, struct.pack("<II", n + 1, base + n)),
                   container(OA_Spgr, patriarch, *built),
                   background)
    return container(RT_Drawing, dg), n + 1


def _color_scheme(inst: int = 1) -> bytes:
    cols = [(255, 255, 255), (0, 0, 0), (128, 128, 128), (0, 0, 0), (0, 153, 153), (51, 51, 204), (204, 204, 255), (178, 178, 178)]
    return rec(0, inst, RT_ColorSchemeAtom, b"".join(struct.pack("<BBBB", r, g, b, 0) for r, g, b in cols))


def _slide_atom(geom: int, placeholders: list[int], master_id: int, notes_id: int) -> bytes:
    ph = bytes(placeholders + [0] * (8 - len(placeholders)))
    return rec(2, 0, RT_SlideAtom, struct.pack("<I", geom) + ph + struct.pack("<IIHH", master_id, notes_id, 0x0007, 0))


# ----------------------------------------------------------------------------------------------
# writer
# ----------------------------------------------------------------------------------------------

def _slide_texts(slide: dict) -> list[tuple[int, str, str]]:
    """[(text type, kind, text)] in the order title, body..., other..."""
    out: list[tuple[int, str, str]] = []
    two = bool(slide.get("two_titles")) and slide.get("title") is not None and bool(slide.get("body"))
    if slide.get("title") is not None:
        # two_titles: the title is a centre title (type 6) and the last body text is a second block of a title type (type 0).  The reader files such a block under
        # "other text", which it prints after the body - so only the last position keeps source order and documented order the same
        out.append((TX_CENTER_TITLE if two else TX_TITLE, "title", slide["title"]))
    nb = len(slide.get("body") or [])
    for bi, t in enumerate(slide.get("body") or []):
        out.append((TX_TITLE if two and bi == nb - 1 else TX_BODY, "body", t))
    for t in slide.get("other") or []:
        out.append((TX_OTHER, "other", t))
    return out


def blip_record(kind: str, image: bytes) -> bytes:
    rtype, inst, _bt = _BLIP[kind.lower()]
    return rec(0, inst, rtype, md4(image) + b"\xFF" + image)


def powerpoint_document(slides: list[dict], *, pictures: list[tuple[str, bytes]] | None = None, encrypted_marker: bool = False,
                        text_placement: str = "both") -> tuple[bytes, int, bytes]:
    """Returns (PowerPoint Document stream, offset of the UserEditAtom, Pictures stream)."""
    if text_placement not in ("both", "outline", "inline"):
        raise ValueError("text_placement must be both/outline/inline")
    pictures = pictures or []
    picker = _FormPicker()
    n_slides = len(slides)
    slide_ids = [256 + i for i in range(n_slides)]
    notes_slides = [i for i, s in enumerate(slides) if s.get("notes")]
    notes_ids = {i: 0x1100 + i for i in notes_slides}
    pid_doc, pid_master = 1, 2
    pid_slide = {i: 3 + i for i in range(n_slides)}
    pid_notes = {i: 3 + n_slides + k for k, i in enumerate(notes_slides)}
    pid_crypt = 3 + n_slides + len(notes_slides)

    # ---- Pictures stream + blip store entries
    pic_stream = bytearray()
    fbse: list[bytes] = []
    refs = [0] * len(pictures)
    for s in slides:
        for p in s.get("pictures") or []:
            refs[p] += 1
    for k, (kind, image) in enumerate(pictures):
        rtype, inst, bt = _BLIP[kind.lower()]
        blip = blip_record(kind, image)
        body = struct.pack("<BB", bt, bt) + md4(image) + struct.pack("<HIIIBBBB", 0xFF, len(blip), refs[k], len(pic_stream), 0, 0, 0, 0)
        assert len(body) == 36
        fbse.append(rec(2, bt, OA_FBSE, body))
        pic_stream += blip

    # ---- slide / notes / master containers
    drawings: list[tuple[int, int]] = []       # (dgid, shape count)

    def master_container() -> bytes:
        shapes = [
            {"type": 1, "client_data": _placeholder_atom(0, PT_MasterTitle), "textbox": text_atoms(MASTER_TITLE_TEXT, TX_TITLE, use_bytes=True)},
            {"type": 1, "client_data": _placeholder_atom(1, PT_MasterBody), "textbox": text_atoms(MASTER_BODY_TEXT, TX_BODY, use_bytes=True)},
        ]
        dgid = len(drawings) + 1
        drw, cnt = _drawing(dgid, shapes)
        drawings.append((dgid, cnt))
        return container(RT_MainMaster, _slide_atom(1, [PT_MasterTitle, PT_MasterBody], 0, 0), drw, _color_scheme())

    def slide_container(i: int, slide: dict) -> bytes:
        texts = _slide_texts(slide)
        has_title = any(k == "title" for _, k, _ in texts)
        has_body = any(k == "body" for _, k, _ in texts)
        if has_title and has_body:
            geom, ph = 0x01, [PT_Title, PT_Body]          # SL_TitleBody
        elif has_title:
            geom, ph = 0x07, [PT_Title]                   # SL_TitleOnly
        else:
            geom, ph = 0x10, []                           # SL_Blank
        shapes = []
        outline_index = 0
        for j, (ttype, kind, text) in enumerate(texts):
            use_bytes = picker.pick((i, j), text)
            if kind == "other":
                sh = {"type": 202, "textbox": text_atoms(text, ttype, use_bytes=use_bytes)}
            else:
                placement = PT_Title if kind == "title" else PT_Body
                sh = {"type": 1, "client_data": _placeholder_atom(outline_index, placement)}
                if text_placement == "outline":
                    sh["textbox"] = rec(0, 0, RT_OutlineTextRefAtom, struct.pack("<i", outline_index))
                else:
                    sh["textbox"] = text_atoms(text, ttype, use_bytes=use_bytes)
                outline_index += 1
            shapes.append(sh)
        for p in slide.get("pictures") or []:
            shapes.append({"type": 75, "props": [(0x4104, p + 1)]})                      # PictureFrame, pib = 1-based blip index
        dgid = len(drawings) + 1
        drw, cnt = _drawing(dgid, shapes)
        drawings.append((dgid, cnt))
        return container(RT_Slide, _slide_atom(geom, ph, MASTER_ID, notes_ids.get(i, 0)), drw, _color_scheme())

    def notes_container(i: int, slide: dict) -> bytes:
        shapes = []
        for j, text in enumerate(slide["notes"]):
            shapes.append({"type": 1, "client_data": _placeholder_atom(j, PT_NotesBody),
                           "textbox": text_atoms(text, TX_NOTES, use_bytes=picker.pick((i, "n", j), text))})
        dgid = len(drawings) + 1
        drw, cnt = _drawing(dgid, shapes)
        drawings.append((dgid, cnt))
        return container(RT_Notes, rec(1, 0, RT_NotesAtom, struct.pack("<IHH", slide_ids[i], 0x0007, 0)), drw, _color_scheme())

    master = master_container()
    slide_recs = [slide_container(i, s) for i, s in enumerate(slides)]
    notes_recs = [notes_container(i, slides[i]) for i in notes_slides]

    # ---- Document container
    def persist_atom(pid: int, ctexts: int, sid: int) -> bytes:
        return rec(0, 0, RT_SlidePersistAtom, struct.pack("<IIiII", pid, 0, ctexts, sid, 0))

    slide_list_children = []
    for i, s in enumerate(slides):
        texts = _slide_texts(s)
        if text_placement == "inline":
            listed = []
        elif text_placement == "outline":
            listed = [(j, t) for j, t in enumerate(texts) if t[1] != "other"]
        else:
            listed = list(enumerate(texts))
        slide_list_children.append(persist_atom(pid_slide[i], len(listed), slide_ids[i]))
        for k, (j, (ttype, _kind, text)) in enumerate(listed):
            slide_list_children.append(text_atoms(text, ttype, index=k, use_bytes=picker.pick((i, j), text)))

    font = rec(0, 0, RT_FontEntityAtom, "Arial".encode("utf-16-le").ljust(64, b"\0") + struct.pack("<BBBB", 0, 0, 4, 0x22))
    environment = container(RT_Environment, container(RT_FontCollection, font))
    total_shapes = sum(c for _, c in drawings)
    spid_max = ((drawings[-1][0] << 10) + drawings[-1][1]) if drawings else 1024
    fdgg = struct.pack("<IIII", spid_max, len(drawings) + 1, total_shapes, len(drawings))
    fdgg += b"".join(struct.pack("<II", dgid, cnt) for dgid, cnt in drawings)
    dgg_children = [rec(0, 0, OA_FDGG, fdgg)]
    if fbse:
        dgg_children.append(container(OA_BStore, *fbse, inst=len(fbse)))
    drawing_group = container(RT_DrawingGroup, container(OA_Dgg, *dgg_children))
    doc_atom = rec(1, 0, RT_DocumentAtom, struct.pack("<iiiiiiIIHHBBBB", 5760, 4320, 4320, 5760, 1, 2, 0, 0, 1, 0, 0, 0, 0, 1))
    assert len(doc_atom) == 48
    doc_children = [
        doc_atom,
        environment,
        drawing_group,
        container(RT_SlideListWithText, persist_atom(pid_master, 0, MASTER_ID), inst=1),
    ]
    if slides:
        doc_children.append(container(RT_SlideListWithText, *slide_list_children, inst=0))
    if notes_slides:
        doc_children.append(container(RT_SlideListWithText, *[persist_atom(pid_notes[i], 0, notes_ids[i]) for i in notes_slides], inst=2))
    doc_children.append(rec(0, 0, RT_EndDocumentAtom))
    document = container(RT_Document, *doc_children)

    # ---- assemble the stream, remember persist offsets
    stream = bytearray()
    offsets: dict[int, int] = {}

    def put(pid: int, blob: bytes) -> None:
        offsets[pid] = len(stream)
        stream.extend(blob)

    put(pid_doc, document)
    put(pid_master, master)
    for i in range(n_slides):
        put(pid_slide[i], slide_recs[i])
    for k, i in enumerate(notes_slides):
        put(pid_notes[i], notes_recs[k])
    if encrypted_marker:
        # CryptSession10Container: RC4 CryptoAPI EncryptionHeader skeleton ([MS-OFFCRYPTO] 2.3.5.1); marker only, nothing is encrypted
        csp = "Microsoft Base Cryptographic Provider v1.0\0".encode("utf-16-le")
        ehdr = struct.pack("<IIIIIIII", 0x04, 0, 0x6801, 0x8004, 128, 1, 0, 0) + csp
        verifier = struct.pack("<I", 16) + bytes(range(0x40, 0x50)) + bytes(range(0x50, 0x60)) + struct.pack("<I", 20) + bytes(range(0x60, 0x74))
        put(pid_crypt, rec(0xF, 0, RT_CryptSession10Container, struct.pack("<HHI", 2, 2, 0x04) + struct.pack("<I", len(ehdr)) + ehdr + verifier))
    max_pid = max(offsets)
    pids = sorted(offsets)
    entries = b""
    for start in range(0, len(pids), 0xFFF):
        chunk = pids[start:start + 0xFFF]
        entries += struct.pack("<I", chunk[0] | (len(chunk) << 20)) + b"".join(struct.pack("<I", offsets[p]) for p in chunk)
    persist_dir_offset = len(stream)
    stream.extend(rec(0, 0, RT_PersistDirectoryAtom, entries))
    user_edit_offset = len(stream)
    ue = struct.pack("<IHBBIIIIHH", slide_ids[-1] if slides else MASTER_ID, 0, 0, 3, 0, persist_dir_offset, pid_doc, max_pid + 1, 1, 0)
    if encrypted_marker:
        ue += struct.pack("<I", pid_crypt)
    stream.extend(rec(0, 0, RT_UserEditAtom, ue))
    return bytes(stream), user_edit_offset, bytes(pic_stream)


def current_user_stream(user_edit_offset: int, *, encrypted: bool = False, user: str = "vf") -> bytes:
    ansi = user.encode("latin-1")
    body = struct.pack("<IIIHHBBH", 0x14, HEADER_TOKEN_ENCRYPTED if encrypted else HEADER_TOKEN_PLAIN, user_edit_offset,
                       len(ansi), 0x03F4, 3, 0, 0) + ansi + struct.pack("<I", 8) + user.encode("utf-16-le")
    return rec(0, 0, RT_CurrentUserAtom, body)


def write_ppt(slides: list[dict], *, props: dict[int, object] | None = None, codepage: int = 1252,
              pictures: list[tuple[str, bytes]] | None = None, encrypted_marker: bool = False,
              text_placement: str = "both", encrypted_summary: bool = True,
              extra_streams: dict[str, bytes] | None = None) -> bytes:
    """`encrypted_marker`: CurrentUserAtom.headerToken = 0xF3D1C4DF, UserEditAtom.encryptSessionPersistIdRef -> a
    CryptSession10Container, and (unless encrypted_summary=False, the fDocProps case where the property streams stay in
    clear) an "EncryptedSummary" stream. The records themselves are left in clear: it is a marker document."""
    doc, ue_off, pics = powerpoint_document(slides, pictures=pictures, encrypted_marker=encrypted_marker, text_placement=text_placement)
    streams: dict[str, bytes] = {
        "PowerPoint Document": doc,
        "Current User": current_user_stream(ue_off, encrypted=encrypted_marker),
    }
    if pictures:
        streams["Pictures"] = pics
    if encrypted_marker and encrypted_summary:
        streams["EncryptedSummary"] = bytes(range(0x80, 0xC0)) * 4
    if props is not None and not (encrypted_marker and encrypted_summary):
        streams["\x05SummaryInformation"] = ole2.property_set(props, codepage=codepage)
    if extra_streams:
        streams.update(extra_streams)
    return ole2.write_cfb(streams, root_clsid=CLSID_PPT)


# ----------------------------------------------------------------------------------------------
# own record walker / reader (self-check)
# ----------------------------------------------------------------------------------------------

class Rec:
    __slots__ = ("ver", "inst", "type", "offset", "data", "children")

    def __init__(self, ver, inst, rtype, offset, data):
        self.ver, self.inst, self.type, self.offset, self.data = ver, inst, rtype, offset, data
        self.children: list[Rec] = []

    def find(self, rtype: int) -> list["Rec"]:
        out = []
        for c in self.children:
            if c.type == rtype:
                out.append(c)
            out.extend(c.find(rtype))
        return out


def walk(data: bytes, base: int = 0) -> list[Rec]:
    """Strict parse: every container's children must fill it exactly."""
    out = []
    pos = 0
    while pos < len(data):
        if pos + 8 > len(data):
            raise ValueError("truncated record header at %d" % (base + pos))
        vi, rtype, ln = struct.unpack_from("<HHI", data, pos)
        if pos + 8 + ln > len(data):
            raise ValueError("record at %d overruns its parent" % (base + pos))
        r = Rec(vi & 0xF, vi >> 4, rtype, base + pos, data[pos + 8:pos + 8 + ln])
        if r.ver == 0xF and rtype != RT_CryptSession10Container:
            r.children = walk(r.data, base + pos + 8)
        out.append(r)
        pos += 8 + ln
    return out


def _texts_in(r: Rec) -> list[tuple[int, str]]:
    """(text type, text) pairs in document order below a record."""
    out: list[tuple[int, str]] = []
    pending: int | None = None

    def visit(x: Rec):
        nonlocal pending
        for c in x.children:
            if c.type == RT_TextHeaderAtom:
                if pending is not None:
                    out.append((pending, ""))
                pending = struct.unpack("<I", c.data)[0]
            elif c.type == RT_TextCharsAtom:
                out.append((pending, c.data.decode("utf-16-le", "surrogatepass")))
                pending = None
            elif c.type == RT_TextBytesAtom:
                out.append((pending, c.data.decode("latin-1")))
                pending = None
            elif c.type == RT_OutlineTextRefAtom:
                out.append((-1, str(struct.unpack("<i", c.data)[0])))
            else:
                visit(c)
        if x.type in (OA_ClientTextbox, RT_SlideListWithText) and pending is not None:
            out.append((pending, ""))
            pending = None

    visit(r)
    return out


def read_back(ppt: bytes) -> dict:
    """Current User -> UserEditAtom -> PersistDirectoryAtom -> Document -> slide list -> Slide/Notes containers."""
    streams = ole2.read_cfb(ppt)
    cu = walk(streams["Current User"])[0]
    size, token, ue_off = struct.unpack_from("<III", cu.data, 0)
    doc = streams["PowerPoint Document"]
    top = walk(doc)
    by_off = {r.offset: r for r in top}
    ue = by_off[ue_off]
    if ue.type != RT_UserEditAtom:
        raise ValueError("Current User does not point at a UserEditAtom")
    _last, _ver, _minor, _major, _prev, pd_off, doc_pid, seed, _view, _unused = struct.unpack_from("<IHBBIIIIHH", ue.data, 0)
    crypt_pid = struct.unpack_from("<I", ue.data, 28)[0] if len(ue.data) >= 32 else None
    pd = by_off[pd_off]
    if pd.type != RT_PersistDirectoryAtom:
        raise ValueError("UserEditAtom does not point at a PersistDirectoryAtom")
    persist: dict[int, int] = {}
    p = 0
    while p < len(pd.data):
        (v,) = struct.unpack_from("<I", pd.data, p)
        first, cnt = v & 0xFFFFF, v >> 20
        for k in range(cnt):
            persist[first + k] = struct.unpack_from("<I", pd.data, p + 4 + 4 * k)[0]
        p += 4 + 4 * cnt
    if max(persist) >= seed:
        raise ValueError("persistIdSeed too small")
    document = by_off[persist[doc_pid]]
    if document.type != RT_Document:
        raise ValueError("docPersistIdRef is not a Document container")
    lists = {r.inst: r for r in document.children if r.type == RT_SlideListWithText}
    result = {"token": token, "crypt_pid": crypt_pid, "slides": [], "master": [], "streams": sorted(streams)}
    notes_by_id = {}
    if 2 in lists:
        for pa in lists[2].children:
            pid, _f, _c, nid, _r = struct.unpack("<IIiII", pa.data)
            cont = by_off[persist[pid]]
            if cont.type != RT_Notes:
                raise ValueError("notes persist id does not lead to a Notes container")
            notes_by_id[nid] = cont
    mpid = struct.unpack_from("<I", lists[1].children[0].data)[0]
    master = by_off[persist[mpid]]
    if master.type != RT_MainMaster:
        raise ValueError("master persist id does not lead to a MainMaster")
    result["master"] = [t for _, t in _texts_in(master)]
    if 0 in lists:
        cur = None
        group: list[Rec] = []
        groups: list[tuple[Rec, list[Rec]]] = []
        for c in lists[0].children:
            if c.type == RT_SlidePersistAtom:
                if cur is not None:
                    groups.append((cur, group))
                cur, group = c, []
            else:
                group.append(c)
        if cur is not None:
            groups.append((cur, group))
        for pa, grp in groups:
            pid, _f, ctexts, sid, _r = struct.unpack("<IIiII", pa.data)
            fake = Rec(0xF, 0, RT_SlideListWithText, 0, b"")
            fake.children = grp
            outline = _texts_in(fake)
            if ctexts != len(outline):
                raise ValueError("cTexts %d but %d texts follow" % (ctexts, len(outline)))
            cont = by_off[persist[pid]]
            if cont.type != RT_Slide:
                raise ValueError("slide persist id does not lead to a Slide container")
            geom = struct.unpack_from("<I", cont.find(RT_SlideAtom)[0].data)[0]
            master_ref, notes_ref = struct.unpack_from("<II", cont.find(RT_SlideAtom)[0].data, 12)
            inline = _texts_in(cont)
            # resolve OutlineTextRefAtoms against the slide list
            resolved = [(outline[int(t)] if ty == -1 else (ty, t)) for ty, t in inline]
            notes = [t for _, t in _texts_in(notes_by_id[notes_ref])] if notes_ref else []
            pics = [struct.unpack_from("<I", f.data, 2)[0] - 1 for f in cont.find(OA_FOPT) if f.inst == 1 and struct.unpack_from("<H", f.data)[0] == 0x4104]
            result["slides"].append({"id": sid, "geom": geom, "master": master_ref, "outline": outline, "inline": inline,
                                     "texts": resolved, "notes": notes, "pictures": pics})
    return result


# ----------------------------------------------------------------------------------------------
# self-check
# ----------------------------------------------------------------------------------------------

def _png_1x1() -> bytes:
    import zlib

    def chunk(kind: bytes, body: bytes) -> bytes:
        return struct.pack(">I", len(body)) + kind + body + struct.pack(">I", zlib.crc32(kind + body))
    return (b"\x89PNG\r\n\x1a\n" + chunk(b"IHDR", struct.pack(">IIBBBBB", 1, 1, 8, 2, 0, 0, 0))
            + chunk(b"IDAT", zlib.compress(b"\x00\x20\x40\x60", 9)) + chunk(b"IEND", b""))


PNG_1x1 = _png_1x1()
def _jpeg_stub() -> bytes:
    """Smallest baseline JPEG: one grey 8x8 block, DC difference 0, end-of-block."""
    def seg(marker: int, body: bytes) -> bytes:
        return struct.pack(">HH", marker, len(body) + 2) + body
    out = b"\xff\xd8"
    out += seg(0xFFE0, b"JFIF\0" + bytes([1, 1, 0, 0, 1, 0, 1, 0, 0]))
    out += seg(0xFFDB, bytes([0]) + bytes([8] * 64))
    out += seg(0xFFC0, bytes([8, 0, 8, 0, 8, 1, 1, 0x11, 0]))
    out += seg(0xFFC4, bytes([0x00, 1] + [0] * 15 + [0]))
    out += seg(0xFFC4, bytes([0x10, 1] + [0] * 15 + [0]))
    out += seg(0xFFDA, bytes([1, 1, 0x00, 0, 63, 0]))
    return out + b"\x3f" + b"\xff\xd9"


JPEG_STUB = _jpeg_stub()


def selfcheck(verbose: bool = False) -> bool:
    import io

    import olefile

    def fail(msg: str) -> bool:
        if verbose:
            print("pptbin selfcheck FAILED:", msg)
        return False

    if md4(b"abc").hex() != "a448017aaf21d8525fc10ae87aa6729d" or md4(b"").hex() != "31d6cfe0d16ae931b73c59d7e0c089c0" \
            or md4(b"12345678901234567890123456789012345678901234567890123456789012345678901234567890").hex() != "e33b4ddc9c38f2199c3e7b164fcc0536":
        return fail("MD4 test vectors")
    slides = [
        {"title": "First title", "body": ["Body one\rsecond paragraph", "Zweiter Körper ü"], "other": ["free text box"], "notes": ["speaker note A"]},
        {"title": "Καλημέρα 日本 😀", "body": ["wide body ∑"], "other": [], "notes": []},
        {"title": None, "body": [], "other": [], "notes": []},
        {"title": None, "body": ["only body"], "other": ["o1", "o2 é"], "notes": ["n1", "n2 ∆"], "pictures": [1, 0]},
        {"title": "", "body": [""], "other": [], "notes": []},
    ]
    pictures = [("png", PNG_1x1), ("jpeg", JPEG_STUB)]
    expected_texts = [[t for _, _, t in _slide_texts(s)] for s in slides]
    for placement in ("both", "outline", "inline"):
        blob = write_ppt(slides, props={2: "Übersicht é", 4: "Ann"}, pictures=pictures, text_placement=placement)
        if blob != write_ppt(slides, props={2: "Übersicht é", 4: "Ann"}, pictures=pictures, text_placement=placement):
            return fail("not deterministic")
        back = read_back(blob)
        if back["token"] != HEADER_TOKEN_PLAIN or back["crypt_pid"] is not None:
            return fail("plain document carries encryption markers")
        if len(back["slides"]) != len(slides):
            return fail("%s: %d slides read back" % (placement, len(back["slides"])))
        for i, s in enumerate(back["slides"]):
            if [t for _, t in s["texts"]] != expected_texts[i]:
                return fail("%s: slide %d texts %r != %r" % (placement, i, s["texts"], expected_texts[i]))
            if [ty for ty, _ in s["texts"]] != [ty for ty, _, _ in _slide_texts(slides[i])]:
                return fail("%s: slide %d text types" % (placement, i))
            if s["notes"] != (slides[i].get("notes") or []):
                return fail("%s: slide %d notes %r" % (placement, i, s["notes"]))
            if s["id"] != 256 + i or s["master"] != MASTER_ID:
                return fail("slide ids")
            if s["pictures"] != (slides[i].get("pictures") or []):
                return fail("picture references %r" % (s["pictures"],))
            outline_texts = [t for _, t in s["outline"]]
            if placement == "both" and outline_texts != expected_texts[i]:
                return fail("both: slide list texts of slide %d: %r" % (i, outline_texts))
            if placement == "inline" and outline_texts:
                return fail("inline: slide list must be empty")
            if placement == "outline" and outline_texts != [t for _, k, t in _slide_texts(slides[i]) if k != "other"]:
                return fail("outline: slide list texts of slide %d" % i)
        if back["master"][0] != MASTER_TITLE_TEXT:
            return fail("master placeholder text missing")
        # both atom forms are in use
        doc = ole2.read_cfb(blob)["PowerPoint Document"]
        top = walk(doc)
        fake = Rec(0xF, 0, 0, 0, b"")
        fake.children = top
        if not fake.find(RT_TextBytesAtom) or not fake.find(RT_TextCharsAtom):
            return fail("expected both TextBytesAtom and TextCharsAtom")
        doc_atom = fake.find(RT_DocumentAtom)[0]
        if len(doc_atom.data) != 40 or doc_atom.ver != 1:
            return fail("DocumentAtom size")
        # Pictures stream and blip store agree
        pics = ole2.read_cfb(blob)["Pictures"]
        precs = walk(pics)
        if [(r.type, r.inst) for r in precs] != [(OA_BlipPNG, 0x6E0), (OA_BlipJPEG, 0x46A)]:
            return fail("Pictures stream records %r" % [(hex(r.type), hex(r.inst)) for r in precs])
        if precs[0].data[16] != 0xFF or precs[0].data[17:] != PNG_1x1 or precs[0].data[:16] != md4(PNG_1x1) or precs[1].data[17:] != JPEG_STUB:
            return fail("BLIP payload")
        for k, f in enumerate(fake.find(OA_FBSE)):
            size, cref, fo = struct.unpack_from("<III", f.data, 20)
            if fo != precs[k].offset or size != len(precs[k].data) + 8 or cref != 1:
                return fail("FBSE %d does not describe its BLIP" % k)
        with olefile.OleFileIO(io.BytesIO(blob)) as ole:
            names = sorted("/".join(p) for p in ole.listdir())
            if names != sorted(["Current User", "Pictures", "PowerPoint Document", "\x05SummaryInformation"]):
                return fail("olefile streams %r" % names)
            if ole.openstream("PowerPoint Document").read() != doc:
                return fail("olefile stream differs")
            if ole.get_metadata().title != "Übersicht é".encode("cp1252"):
                return fail("olefile title")
    # encrypted marker variants
    for summary in (True, False):
        blob = write_ppt(slides[:2], props={2: "t"}, encrypted_marker=True, encrypted_summary=summary)
        back = read_back(blob)
        if back["token"] != HEADER_TOKEN_ENCRYPTED or back["crypt_pid"] is None:
            return fail("encrypted markers missing")
        if ("EncryptedSummary" in back["streams"]) != summary or ("\x05SummaryInformation" in back["streams"]) == summary:
            return fail("EncryptedSummary stream handling: %r" % back["streams"])
        with olefile.OleFileIO(io.BytesIO(blob)) as ole:
            if ole.exists("EncryptedSummary") != summary:
                return fail("olefile EncryptedSummary")
    # no slides at all
    back = read_back(write_ppt([]))
    if back["slides"] or back["master"][0] != MASTER_TITLE_TEXT:
        return fail("empty presentation")
    if verbose:
        print("pptbin selfcheck ok")
    return True


if __name__ == "__main__":
    import sys
    sys.exit(0 if selfcheck(verbose=True) else 1)
