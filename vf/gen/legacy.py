"""Renderers of the abstract model to the legacy binary formats through the OLE2 writers: ppt, doc (xls is in sheets.py)."""
from __future__ import annotations

from vf.gen import docbin, pptbin
from vf.gen.simple import _plain_inl, plain_lines

PIDS = {"title": 2, "subject": 3, "author": 4, "keywords": 5, "description": 6}


def pick_codepage(opts, props):
    """the requested code page, or UTF-8 when the property values cannot be written in it"""
    cp = (opts or {}).get("codepage", 65001)
    if cp == 1252:
        try:
            for v in (props or {}).values():
                if isinstance(v, str):
                    v.encode("cp1252")
        except UnicodeEncodeError:
            return 65001
    return cp


def ole_props(props):
    p = {PIDS[k]: v for k, v in (props or {}).items() if k in PIDS and v is not None}
    return p or None


def render_ppt(doc, *, images=None, opts=None, **kw) -> bytes:
    opts = opts or {}
    slides = []
    for u in doc["units"]:
        title, body, other = None, [], []
        for bi, b in enumerate(u["blocks"]):
            if b["k"] == "p" and b.get("h") and title is None and bi == 0:
                title = _plain_inl(b["inl"])
            elif b["k"] == "p":
                body.append(_plain_inl(b["inl"]).replace("\n", "\x0b"))
            elif b["k"] == "list":
                body.extend(line.lstrip("-* ").replace("\n", "\x0b") for line in plain_lines([b]))
            else:
                other.extend(plain_lines([b]))
        notes = [" ".join(i["tok"] for i in u["notes"] if i["k"] == "t")] if u.get("notes") else []
        slides.append({"title": title, "body": body, "other": other, "notes": notes, "two_titles": bool(opts.get("two_titles"))})
    pictures = [(("png" if im["ext"] == "png" else "jpeg"), im["data"]) for im in (images or [])] or None
    return pptbin.write_ppt(slides, props=ole_props(doc.get("props")), codepage=pick_codepage(opts, doc.get("props")), pictures=pictures,
                            text_placement=opts.get("text_placement", "both"))


FILLER = "Lorem ipsum dolor sit amet consectetur adipiscing elit sed do eiusmod tempor"


def render_doc(doc, *, opts=None, **kw) -> bytes:
    """.doc: plain paragraphs only. The reader under test locates text heuristically, so a realistic amount of ordinary text surrounds the tokens."""
    opts = opts or {}
    paras = []
    for u in doc["units"]:
        for line in plain_lines(u["blocks"]):
            paras.append(line.replace("\n", "\x0b"))
    if opts.get("filler", True):
        paras = [FILLER] + paras + [FILLER]
    p = dict(doc.get("props") or {})
    return docbin.write_doc(paras, props=ole_props(p), codepage=pick_codepage(opts, p))
