"""Unique class-tagged tokens (DESIGN §1.2 / §3.1).  Z<class><5 base-36 chars>; class B = must appear exactly once,
X = must never appear, M = may appear (documentation silent)."""
from __future__ import annotations

import re

TOKEN_RE = re.compile(r"Z[BXM][0-9A-Z]{5}")
_ALPHA = "0123456789ABCDEFGHIJKLMNOPQRSTUVWXYZ"


def make(cls: str, n: int) -> str:
    assert cls in "BXM" and 0 <= n < 36 ** 5
    # spread n so neighbouring tokens differ in several characters (no token is a prefix/suffix trap of another)
    v = (n * 7919 + 104729) % (36 ** 5)
    s = ""
    for _ in range(5):
        s = _ALPHA[v % 36] + s
        v //= 36
    return f"Z{cls}{s}"


class TokenSource:
    """Deterministic unique tokens; the n-th call returns the same token in every run (models stay replayable)."""

    def __init__(self, start: int = 0):
        self.n = start

    def __call__(self, cls: str = "B") -> str:
        self.n += 1
        return make(cls, self.n)


def find(text: str) -> list[str]:
    return TOKEN_RE.findall(text or "")


def positions(text: str) -> list[tuple[str, int, int]]:
    return [(m.group(0), m.start(), m.end()) for m in TOKEN_RE.finditer(text or "")]


def classify(found: list[str]):
    b = [t for t in found if t[1] == "B"]
    x = [t for t in found if t[1] == "X"]
    return b, x


def check_sequence(expected_b: list[str], text: str, *, forbid_x: bool = True) -> list[tuple[str, str]]:
    """Core token oracle: every expected B token exactly once, in the expected relative order; no X token.
    Returns list of (clause, detail)."""
    found = find(text)
    out = []
    fb = [t for t in found if t[1] == "B"]
    exp_set = set(expected_b)
    from collections import Counter
    cnt = Counter(fb)
    lost = [t for t in expected_b if cnt[t] == 0]
    dup = [t for t in expected_b if cnt[t] > 1]
    if lost:
        out.append(("lost", f"{len(lost)} of {len(expected_b)} body tokens missing, first: {lost[:4]}"))
    if dup:
        out.append(("duplicated", f"tokens occurring more than once: {[(t, cnt[t]) for t in dup[:4]]}"))
    alien = [t for t in fb if t not in exp_set]
    if alien:
        out.append(("invented", f"body-class tokens that are not in the source: {alien[:4]}"))
    if not lost and not dup:
        seq = [t for t in fb if t in exp_set]
        if seq != expected_b:
            i = next(i for i, (a, b) in enumerate(zip(seq, expected_b)) if a != b)
            out.append(("order", f"order differs at position {i}: got {seq[max(0, i - 1):i + 3]} expected {expected_b[max(0, i - 1):i + 3]}"))
    if forbid_x:
        xs = [t for t in found if t[1] == "X"]
        if xs:
            out.append(("leak", f"excluded-class tokens in output: {xs[:4]}"))
    return out


def separated(text: str, a: str, b: str) -> bool:
    """True when tokens a and b (both present, a before b) have at least one whitespace char between them."""
    i, j = text.find(a), text.find(b)
    if i < 0 or j < 0 or j < i:
        return True
    return any(c.isspace() for c in text[i + len(a):j])
