"""OMML formula trees: JSON model, XML renderer, independent reference LaTeX renderer (as a regex), enumerator and strategy.

Model (JSON-able dicts):
  {"k":"r","t":str,"pr":bool}                               run
  {"k":"f","num":L|None,"den":L|None}                       fraction         L = list of nodes (an argument), None = child element absent
  {"k":"sSup","e":L|None,"sup":L|None}   sSub / sSubSup likewise
  {"k":"rad","deg":L|None,"e":L|None,"hide":bool}
  {"k":"nary","chr":None|{"val":str|None},"sub":L|None,"sup":L|None,"e":L|None}
  {"k":"d","beg":None|{"val":..},"end":None|{"val":..},"es":[L,...]}
  {"k":"m","rows":[[L,...],...]}
  {"k":"func","fname":L,"e":L|None}
  {"k":"bar","e":L|None}    {"k":"acc","chr":None|{"val":..},"e":L|None}
  {"k":"wrap","tag":"box"|"borderBox"|"phant"|"groupChr"|"limLow"|"limUpp","parts":[[argname,L],...]}
Root: {"para":bool,"maths":[L,...]}   (para => m:oMathPara holding several m:oMath)
"""
from __future__ import annotations

import re
import unicodedata
from xml.sax.saxutils import escape, quoteattr

from hypothesis import strategies as st

MNS = "http://schemas.openxmlformats.org/officeDocument/2006/math"
WNS = "http://schemas.openxmlformats.org/wordprocessingml/2006/main"

# ---- independent symbol table (derived from Unicode names / LaTeX knowledge, not from the module) ------------
_LATIN_LOOKALIKE = {"ALPHA": "A", "BETA": "B", "EPSILON": "E", "ZETA": "Z", "ETA": "H", "IOTA": "I", "KAPPA": "K", "MU": "M",
                    "NU": "N", "OMICRON": "O", "RHO": "P", "TAU": "T", "CHI": "X"}


def _greek():
    out = {}
    for cp in list(range(0x391, 0x3AA)) + list(range(0x3B1, 0x3CA)):
        ch = chr(cp)
        try:
            name = unicodedata.name(ch)
        except ValueError:
            continue
        mm = re.fullmatch(r"GREEK (SMALL|CAPITAL) LETTER (FINAL )?([A-Z]+)", name)
        if not mm:
            continue
        small, final, base = mm.group(1) == "SMALL", bool(mm.group(2)), mm.group(3)
        if small:
            out[ch] = "\\varsigma" if final else ("o" if base == "OMICRON" else "\\" + base.lower().replace("lamda", "lambda"))
        else:
            out[ch] = _LATIN_LOOKALIKE.get(base, "\\" + base.capitalize().replace("Lamda", "Lambda"))
    return out


SYMBOLS = {
    "\u221e": "\\infty", "\u2202": "\\partial", "\u2207": "\\nabla", "\u00b1": "\\pm", "\u2213": "\\mp", "\u00d7": "\\times",
    "\u00f7": "\\div", "\u00b7": "\\cdot", "\u2264": "\\leq", "\u2265": "\\geq", "\u2260": "\\neq", "\u2248": "\\approx",
    "\u2261": "\\equiv", "\u2208": "\\in", "\u2209": "\\notin", "\u2282": "\\subset", "\u2283": "\\supset", "\u2286": "\\subseteq",
    "\u2287": "\\supseteq", "\u222a": "\\cup", "\u2229": "\\cap", "\u2227": "\\land", "\u2228": "\\lor", "\u00ac": "\\neg",
    "\u2192": "\\rightarrow", "\u2190": "\\leftarrow", "\u2194": "\\leftrightarrow", "\u21d2": "\\Rightarrow", "\u21d0": "\\Leftarrow",
    "\u21d4": "\\Leftrightarrow", "\u2200": "\\forall", "\u2203": "\\exists", "\u2205": "\\emptyset", "\u2115": "\\mathbb{N}",
    "\u2124": "\\mathbb{Z}", "\u211a": "\\mathbb{Q}", "\u211d": "\\mathbb{R}", "\u2102": "\\mathbb{C}",
}
MAPPED = dict(_greek())
MAPPED.update(SYMBOLS)
assert len(MAPPED) == 49 + len(SYMBOLS), len(MAPPED)


def map_text(t: str) -> str:
    return "".join(MAPPED.get(c, c) for c in t)


NARY_OPS = {"\u2211": "\\sum", "\u220f": "\\prod", "\u222b": "\\int", "\u222c": "\\iint", "\u222d": "\\iiint"}
NARY_UNKNOWN = ["\u22c3", "\u222e", "\u22c2"]
ACCENTS = {"\u0302": "\\hat", "\u0303": "\\tilde", "\u0304": "\\bar", "\u20d7": "\\vec", "\u0307": "\\dot"}
ACC_UNKNOWN = ["\u0308", "?"]
FUNCS = ["sin", "cos", "tan", "log", "ln", "lim", "exp", "max", "min"]
FUNC_UNKNOWN = ["sinh", "arg", "det"]
DELIMS = [("(", ")"), ("[", "]"), ("|", "|"), ("\u2329", "\u232a"), ("{", "}")]


# ---- XML ------------------------------------------------------------------------------------------
def _arg(tag, L, ctrl=False):
    if L is None:
        return ""
    inner = "".join(node_xml(n) for n in L)
    pr = "<m:ctrlPr><w:rPr><w:rFonts w:ascii=\"Cambria Math\" w:hAnsi=\"Cambria Math\"/><w:i/></w:rPr></m:ctrlPr>" if ctrl else ""
    return f"<m:{tag}>{pr}{inner}</m:{tag}>"


def _chr(tag, c):
    if c is None:
        return ""
    return f"<m:{tag}/>" if c.get("val") is None else f"<m:{tag} m:val={quoteattr(c['val'])}/>"


def node_xml(n) -> str:
    k = n["k"]
    if k == "r":
        pr = "<m:rPr><m:sty m:val=\"p\"/></m:rPr><w:rPr><w:rFonts w:ascii=\"Cambria Math\"/><w:i/><w:color w:val=\"FF0000\"/><w:sz w:val=\"24\"/></w:rPr>" if n.get("pr") else ""
        t = n["t"]
        if t is None:
            return f"<m:r>{pr}<m:t/></m:r>"
        sp = ' xml:space="preserve"' if (t != t.strip()) else ""
        form = n.get("form", 0)
        if form == 1 and re.match(r"[a-z]\d{3}", t):
            # the run's text in two text children (Word writes this after an edit inside a run); split inside the token, where no symbol mapping applies
            return f"<m:r>{pr}<m:t>{escape(t[:2])}</m:t><m:t{sp}>{escape(t[2:])}</m:t></m:r>"
        if form == 2:
            # run text in the WordprocessingML namespace (w:t), which the converter documents as accepted
            return f"<m:r>{pr}<w:t{sp}>{escape(t)}</w:t></m:r>"
        return f"<m:r>{pr}<m:t{sp}>{escape(t)}</m:t></m:r>"
    ctrl = bool(n.get("pr"))
    cp = "<m:ctrlPr><w:rPr><w:i/></w:rPr></m:ctrlPr>" if ctrl else ""
    if k == "f":
        pr = f"<m:fPr><m:type m:val=\"bar\"/>{cp}</m:fPr>" if ctrl else ""
        return f"<m:f>{pr}{_arg('num', n['num'])}{_arg('den', n['den'])}</m:f>"
    if k == "sSup":
        pr = f"<m:sSupPr>{cp}</m:sSupPr>" if ctrl else ""
        return f"<m:sSup>{pr}{_arg('e', n['e'])}{_arg('sup', n['sup'])}</m:sSup>"
    if k == "sSub":
        pr = f"<m:sSubPr>{cp}</m:sSubPr>" if ctrl else ""
        return f"<m:sSub>{pr}{_arg('e', n['e'])}{_arg('sub', n['sub'])}</m:sSub>"
    if k == "sSubSup":
        pr = f"<m:sSubSupPr>{cp}</m:sSubSupPr>" if ctrl else ""
        return f"<m:sSubSup>{pr}{_arg('e', n['e'])}{_arg('sub', n['sub'])}{_arg('sup', n['sup'])}</m:sSubSup>"
    if k == "rad":
        hide = "<m:degHide m:val=\"1\"/>" if n.get("hide") else ""
        pr = f"<m:radPr>{hide}{cp}</m:radPr>" if (ctrl or hide) else ""
        return f"<m:rad>{pr}{_arg('deg', n['deg'])}{_arg('e', n['e'])}</m:rad>"
    if k == "nary":
        c = _chr("chr", n["chr"])
        pr = f"<m:naryPr>{c}<m:limLoc m:val=\"undOvr\"/>{cp}</m:naryPr>" if (c or ctrl) else ""
        return f"<m:nary>{pr}{_arg('sub', n['sub'])}{_arg('sup', n['sup'])}{_arg('e', n['e'])}</m:nary>"
    if k == "d":
        b, e = _chr("begChr", n["beg"]), _chr("endChr", n["end"])
        pr = f"<m:dPr>{b}{e}{cp}</m:dPr>" if (b or e or ctrl) else ""
        return f"<m:d>{pr}{''.join(_arg('e', L) for L in n['es'])}</m:d>"
    if k == "m":
        pr = "<m:mPr><m:mcs><m:mc><m:mcPr><m:count m:val=\"2\"/><m:mcJc m:val=\"center\"/></m:mcPr></m:mc></m:mcs></m:mPr>" if ctrl else ""
        rows = "".join("<m:mr>" + "".join(_arg("e", c) for c in row) + "</m:mr>" for row in n["rows"])
        return f"<m:m>{pr}{rows}</m:m>"
    if k == "func":
        pr = f"<m:funcPr>{cp}</m:funcPr>" if ctrl else ""
        return f"<m:func>{pr}{_arg('fName', n['fname'])}{_arg('e', n['e'])}</m:func>"
    if k == "bar":
        pr = f"<m:barPr><m:pos m:val=\"top\"/>{cp}</m:barPr>" if ctrl else ""
        return f"<m:bar>{pr}{_arg('e', n['e'])}</m:bar>"
    if k == "acc":
        c = _chr("chr", n["chr"])
        pr = f"<m:accPr>{c}{cp}</m:accPr>" if (c or ctrl) else ""
        return f"<m:acc>{pr}{_arg('e', n['e'])}</m:acc>"
    if k == "wrap":
        tag = n["tag"]
        pr = f"<m:{tag}Pr>{cp}</m:{tag}Pr>" if ctrl else ""
        return f"<m:{tag}>{pr}{''.join(_arg(a, L) for a, L in n['parts'])}</m:{tag}>"
    raise ValueError(k)


def omath_xml(L, standalone=True) -> str:
    ns = f' xmlns:m="{MNS}" xmlns:w="{WNS}"' if standalone else ""
    return f"<m:oMath{ns}>{''.join(node_xml(n) for n in L)}</m:oMath>"


def root_xml(root) -> str:
    if root.get("para"):
        inner = "".join(omath_xml(L, standalone=False) for L in root["maths"])
        return f'<m:oMathPara xmlns:m="{MNS}" xmlns:w="{WNS}"><m:oMathParaPr><m:jc m:val="center"/></m:oMathParaPr>{inner}</m:oMathPara>'
    return omath_xml(root["maths"][0])


# ---- analysis --------------------------------------------------------------------------------------
def walk(L):
    for n in L or []:
        yield n
        for child in children(n):
            yield from walk(child)


def children(n):
    k = n["k"]
    if k == "r":
        return []
    if k == "f":
        return [n["num"], n["den"]]
    if k == "sSup":
        return [n["e"], n["sup"]]
    if k == "sSub":
        return [n["e"], n["sub"]]
    if k == "sSubSup":
        return [n["e"], n["sub"], n["sup"]]
    if k == "rad":
        return [n["deg"], n["e"]]
    if k == "nary":
        return [n["sub"], n["sup"], n["e"]]
    if k == "d":
        return list(n["es"])
    if k == "m":
        return [c for row in n["rows"] for c in row]
    if k == "func":
        return [n["fname"], n["e"]]
    if k in ("bar", "acc"):
        return [n["e"]]
    if k == "wrap":
        return [L for _, L in n["parts"]]
    raise ValueError(k)


def all_nodes(root):
    for L in root["maths"]:
        yield from walk(L)


def run_texts(root):
    """document-order list of run texts (raw)."""
    return [n["t"] or "" for n in all_nodes(root) if n["k"] == "r"]


def _flat_text(L):
    return "".join(n["t"] or "" for n in walk(L) if n["k"] == "r")


def _only_runs(L):
    return all(n["k"] == "r" for n in walk(L))


def is_malformed_rad(n):
    if n["k"] != "rad" or n["e"] is None:
        return False
    if _only_runs(n["e"]) and _flat_text(n["e"]).strip() in ("(", "[", "{"):
        return True
    # the documented rule looks at the *rendered* radicand: e.g. a delimiter with '(' and an empty closer also renders to '('
    rx = ref_regex_list(n["e"])
    return any(re.fullmatch(rx, b) for b in "([{")


def features(root) -> dict:
    nodes = list(all_nodes(root))
    f = {
        "literal_braces": any("{" in (n["t"] or "") or "}" in (n["t"] or "") for n in nodes if n["k"] == "r")
        or any((c or {}).get("val") and any(b in c["val"] for b in "{}") for n in nodes if n["k"] == "d" for c in (n["beg"], n["end"])),
        "malformed_rad": sum(1 for n in nodes if is_malformed_rad(n)),
        "missing_val": any(c is not None and c.get("val") is None for n in nodes for c in
                           ([n.get("chr")] if n["k"] in ("nary", "acc") else [n.get("beg"), n.get("end")] if n["k"] == "d" else [])),
        "structural": sum(1 for n in nodes if n["k"] != "r"),
        "nested": any(n["k"] != "r" and any(c["k"] != "r" for L in children(n) for c in (L or [])) for n in nodes),
        "missing_child": any(n["k"] != "r" and any(L is None for L in children(n)) for n in nodes),
    }
    return f


# ---- reference renderer -> regex over the whitespace-free output -------------------------------------------
def _lit(s: str) -> str:
    return re.escape(re.sub(r"\s+", "", s))


def ref_regex_list(L) -> str:
    return "".join(ref_regex(n) for n in (L or []))


def _is_blank(L):
    """True when the argument can render to nothing visible (absent, or only empty/whitespace runs and wrappers of them)."""
    if L is None or not L:
        return True
    return re.fullmatch(ref_regex_list(L), "") is not None


def _script(sym, L):
    body = re.escape(sym) + r"\{" + ref_regex_list(L) + r"\}"
    return f"(?:{body})?" if _is_blank(L) else body


def ref_regex(n) -> str:
    k = n["k"]
    if k == "r":
        return _lit(map_text(n["t"] or ""))
    if k == "f":
        return r"\\frac\{" + ref_regex_list(n["num"]) + r"\}\{" + ref_regex_list(n["den"]) + r"\}"
    if k == "sSup":
        return ref_regex_list(n["e"]) + _script("^", n["sup"])
    if k == "sSub":
        return ref_regex_list(n["e"]) + _script("_", n["sub"])
    if k == "sSubSup":
        return ref_regex_list(n["e"]) + _script("_", n["sub"]) + _script("^", n["sup"])
    if k == "rad":
        deg = r"\[" + ref_regex_list(n["deg"]) + r"\]"
        if _is_blank(n["deg"]):
            deg = f"(?:{deg})?"
        return r"\\sqrt" + deg + r"\{" + ref_regex_list(n["e"]) + r"\}"
    if k == "nary":
        c = n["chr"]
        if c is None:
            op = r"(?:\\sum|\\int)"  # element absent: implementation default (\sum) or the ECMA-376 default (integral)
        elif c.get("val") is None:
            op = r"(?:\\sum|\\int)?"  # attribute absent: default or no operator, never other text
        elif c["val"] in NARY_OPS:
            op = re.escape(NARY_OPS[c["val"]])
        else:
            op = "(?:" + _lit(map_text(c["val"])) + r"|\\[A-Za-z]+)"
        sub, sup = _script("_", n["sub"]), _script("^", n["sup"])
        return op + sub + sup + ref_regex_list(n["e"])
    if k == "d":
        def side(c, default):
            if c is None:
                return re.escape(default)
            if c.get("val") is None:
                return "(?:" + re.escape(default) + ")?"
            return _lit(c["val"])
        return side(n["beg"], "(") + ",".join(ref_regex_list(L) for L in n["es"]) + side(n["end"], ")")
    if k == "m":
        if not n["rows"]:
            return ""
        rows = [r"&".join(ref_regex_list(c) for c in row) for row in n["rows"]]
        return r"\\begin\{matrix\}" + r"\\\\".join(rows) + r"\\end\{matrix\}"
    if k == "func":
        name = _flat_text(n["fname"]).strip()
        if name in FUNCS and _only_runs(n["fname"] or []):
            fn = re.escape("\\" + name)
        elif name in FUNCS:  # name wrapped in limLow/limUpp with an empty limit: either spelling is the documented one
            fn = "(?:" + re.escape("\\" + name) + "|" + ref_regex_list(n["fname"]) + ")"
        else:
            fn = ref_regex_list(n["fname"])
        return fn + r"\{" + ref_regex_list(n["e"]) + r"\}"
    if k == "bar":
        return r"\\overline\{" + ref_regex_list(n["e"]) + r"\}"
    if k == "acc":
        c = n["chr"]
        cmd = ACCENTS.get(c["val"], "\\hat") if (c is not None and c.get("val") is not None) else "\\hat"
        return re.escape(cmd) + r"\{" + ref_regex_list(n["e"]) + r"\}"
    if k == "wrap":
        return "".join(ref_regex_list(L) for _, L in n["parts"])
    raise ValueError(k)


def ref_root_regex(root) -> str:
    return "".join(ref_regex_list(L) for L in root["maths"])


# ---- enumeration -----------------------------------------------------------------------------------
class Tok:
    def __init__(self):
        self.i = 0

    def __call__(self, extra=""):
        self.i += 1
        return {"k": "r", "t": f"{'abcdefghkmnpquvwxyz'[self.i % 19]}{self.i:03d}{extra}", "pr": self.i % 3 == 0}


def leaf_variants(tok=None):
    """Every structural element with every optional child / attribute present or absent; operands are single token runs."""
    tok = tok or Tok()
    R = lambda extra="": [tok(extra)]  # noqa
    opt = lambda: [None, [], R()]  # noqa: absent, present-empty, run
    out = []
    for num in (None, R()):
        for den in (None, R()):
            out.append({"k": "f", "num": num, "den": den, "pr": num is None})
    for e in (None, R()):
        for s in (None, R()):
            out.append({"k": "sSup", "e": e, "sup": s, "pr": False})
            out.append({"k": "sSub", "e": e, "sub": s, "pr": True})
            for s2 in (None, R()):
                out.append({"k": "sSubSup", "e": e, "sub": s, "sup": s2, "pr": False})
    for deg in opt():
        for hide in (False, True):
            for e in (None, R(), R("\u03b1")):
                out.append({"k": "rad", "deg": deg, "e": e, "hide": hide, "pr": hide})
    for br in "([":
        out.append({"k": "rad", "deg": None, "e": [{"k": "r", "t": br, "pr": False}], "hide": True, "pr": False})
    for c in [None, {"val": None}] + [{"val": v} for v in list(NARY_OPS) + NARY_UNKNOWN[:1]]:
        for sub in opt():
            for sup in opt():
                for e in (None, R()):
                    out.append({"k": "nary", "chr": c, "sub": sub, "sup": sup, "e": e, "pr": sub is None})
    sides_b = [None, {"val": None}, {"val": "["}, {"val": "|"}, {"val": ""}]
    sides_e = [None, {"val": None}, {"val": "]"}, {"val": "|"}, {"val": ""}]
    for b in sides_b:
        for e_ in sides_e:
            for ne in (1, 2):
                out.append({"k": "d", "beg": b, "end": e_, "es": [R() for _ in range(ne)], "pr": ne == 2})
    out.append({"k": "d", "beg": None, "end": None, "es": [], "pr": False})
    for r_ in (1, 2):
        for c_ in (1, 2):
            out.append({"k": "m", "rows": [[R() for _ in range(c_)] for _ in range(r_)], "pr": r_ == 2})
    for name in FUNCS + FUNC_UNKNOWN[:1]:
        for e in (None, R()):
            out.append({"k": "func", "fname": [{"k": "r", "t": name, "pr": True}], "e": e, "pr": False})
    for e in (None, R()):
        out.append({"k": "bar", "e": e, "pr": e is None})
        for c in [None, {"val": None}] + [{"val": v} for v in list(ACCENTS) + ACC_UNKNOWN]:
            out.append({"k": "acc", "chr": c, "e": e, "pr": False})
    for tag, names in (("box", ["e"]), ("borderBox", ["e"]), ("phant", ["e"]), ("groupChr", ["e"]), ("limLow", ["e", "lim"]), ("limUpp", ["e", "lim"])):
        out.append({"k": "wrap", "tag": tag, "parts": [[a, R()] for a in names], "pr": tag == "box"})
    return out


def slots(n):
    """(path) list of operand slots of a leaf variant that hold a run list (where a nested element can be substituted)."""
    k = n["k"]
    res = []
    for key in ("num", "den", "e", "sub", "sup", "deg", "fname"):
        if key in n and isinstance(n[key], list) and n[key] and k != "d" and not (k == "func" and key == "fname"):
            res.append((key,))
    if k == "d":
        res += [("es", i) for i in range(len(n["es"]))]
    if k == "m":
        res += [("rows", i, j) for i, row in enumerate(n["rows"]) for j in range(len(row))]
    if k == "wrap":
        res += [("parts", i, 1) for i in range(len(n["parts"]))]
    return res


def substitute(n, path, inner):
    import copy
    n = copy.deepcopy(n)
    cur = n
    for p in path[:-1]:
        cur = cur[p]
    cur[path[-1]] = [copy.deepcopy(inner)]
    return n


def enumerate_roots(depth2_reps: int):
    """Yield roots: every leaf variant alone, every leaf variant followed by a run, and every (outer, slot, inner) nesting
    with inner from the first `depth2_reps` representatives of each element kind."""
    leaves = leaf_variants()
    for v in leaves:
        yield {"para": False, "maths": [[v]]}
        yield {"para": False, "maths": [[{"k": "r", "t": "z998", "pr": False}, v, {"k": "r", "t": "z999)", "pr": False}]]}
    reps, per = [], {}
    for v in leaf_variants(Tok()):
        key = v["k"] + (v.get("tag") or "")
        per.setdefault(key, 0)
        if per[key] < depth2_reps:
            per[key] += 1
            reps.append(v)
    # re-token the inner representatives so tokens stay unique in the combined tree
    import copy
    inner_reps = []
    for v in reps:
        v = copy.deepcopy(v)
        for n in walk([v]):
            if n["k"] == "r" and re.match(r"[a-z]\d{3}", n["t"] or ""):
                n["t"] = "j" + n["t"][1:]
        inner_reps.append(v)
    for outer in leaves:
        for path in slots(outer):
            for inner in inner_reps:
                yield {"para": False, "maths": [[substitute(outer, path, inner)]]}


# ---- Hypothesis strategy for random deeper trees ----------------------------------------------------------
_SYMS = "".join(sorted(MAPPED))


def _text(draw, idx, allow_braces):
    extra_alphabet = _SYMS + "+-=*/<>,.;:!'" + "()[]|" + (" {}" if allow_braces else " ")
    extra = draw(st.text(alphabet=extra_alphabet, max_size=3))
    pre = draw(st.text(alphabet=extra_alphabet, max_size=1))
    return f"{pre}{'abcdefghkmnpquvwxyz'[idx % 19]}{idx:03d}{extra}"


@st.composite
def roots(draw, max_depth=5, allow_braces=False, allow_malformed=True):
    counter = [0]

    def run():
        counter[0] += 1
        kind = draw(st.integers(0, 19))
        if kind == 0:
            return {"k": "r", "t": draw(st.sampled_from(["", None, " "])), "pr": draw(st.booleans())}
        return {"k": "r", "t": _text(draw, counter[0], allow_braces), "pr": draw(st.booleans()), "form": draw(st.sampled_from([0, 0, 0, 0, 1, 2]))}

    def arg(depth, optional=True):
        c = draw(st.integers(0, 9))
        if optional and c == 0:
            return None
        if optional and c == 1:
            return []
        n = 1 if c < 8 else 2
        return [node(depth) for _ in range(n)]

    def chrv(choices):
        c = draw(st.integers(0, 9))
        if c == 0:
            return None
        if c == 1:
            return {"val": None}
        return {"val": draw(st.sampled_from(choices))}

    def node(depth):
        if depth <= 0 or counter[0] > 40:
            return run()
        k = draw(st.sampled_from(["r", "r", "r", "f", "sSup", "sSub", "sSubSup", "rad", "nary", "d", "m", "func", "bar", "acc", "wrap"]))
        pr = draw(st.booleans())
        d = depth - 1
        if k == "r":
            return run()
        if k == "f":
            return {"k": "f", "num": arg(d), "den": arg(d), "pr": pr}
        if k == "sSup":
            return {"k": "sSup", "e": arg(d), "sup": arg(d), "pr": pr}
        if k == "sSub":
            return {"k": "sSub", "e": arg(d), "sub": arg(d), "pr": pr}
        if k == "sSubSup":
            return {"k": "sSubSup", "e": arg(d), "sub": arg(d), "sup": arg(d), "pr": pr}
        if k == "rad":
            if allow_malformed and draw(st.integers(0, 5)) == 0:
                br = draw(st.sampled_from(["(", "[", " ( "] + (["{"] if allow_braces else [])))
                return {"k": "rad", "deg": arg(0), "e": [{"k": "r", "t": br, "pr": False}], "hide": True, "pr": pr}
            return {"k": "rad", "deg": arg(d), "e": arg(d), "hide": draw(st.booleans()), "pr": pr}
        if k == "nary":
            return {"k": "nary", "chr": chrv(list(NARY_OPS) + NARY_UNKNOWN), "sub": arg(d), "sup": arg(d), "e": arg(d), "pr": pr}
        if k == "d":
            pair = draw(st.sampled_from(DELIMS if allow_braces else DELIMS[:-1]))
            b, e = chrv([pair[0], ""]), chrv([pair[1], ""])
            return {"k": "d", "beg": b, "end": e, "es": [arg(d, optional=False) for _ in range(draw(st.integers(1, 3)))], "pr": pr}
        if k == "m":
            r_, c_ = draw(st.integers(1, 3)), draw(st.integers(1, 3))
            return {"k": "m", "rows": [[arg(d, optional=False) for _ in range(c_)] for _ in range(r_)], "pr": pr}
        if k == "func":
            if draw(st.integers(0, 4)) == 0:
                fname = [{"k": "wrap", "tag": "limLow", "parts": [["e", [{"k": "r", "t": "lim", "pr": False}]], ["lim", [run()]]], "pr": False}]
            else:
                fname = [{"k": "r", "t": draw(st.sampled_from(FUNCS + FUNC_UNKNOWN)), "pr": draw(st.booleans())}]
            return {"k": "func", "fname": fname, "e": arg(d), "pr": pr}
        if k == "bar":
            return {"k": "bar", "e": arg(d), "pr": pr}
        if k == "acc":
            return {"k": "acc", "chr": chrv(list(ACCENTS) + ACC_UNKNOWN), "e": arg(d), "pr": pr}
        tag, names = draw(st.sampled_from([("box", ["e"]), ("borderBox", ["e"]), ("phant", ["e"]), ("groupChr", ["e"]),
                                           ("limLow", ["e", "lim"]), ("limUpp", ["e", "lim"])]))
        return {"k": "wrap", "tag": tag, "parts": [[a, arg(d, optional=False)] for a in names], "pr": pr}

    depth = draw(st.integers(1, max_depth))
    nm = draw(st.sampled_from([1, 1, 1, 2]))
    maths = [[node(depth) for _ in range(draw(st.integers(1, 3)))] for _ in range(nm)]
    return {"para": nm > 1 or draw(st.booleans()), "maths": maths}
