"""OOXML renderers written from ECMA-376 (raw parts + zipfile): docx, pptx.  (xlsx lives in sheets.py)

render_docx(doc, *, images=None, opts=None) -> bytes ; render_pptx(doc, *, images=None, opts=None) -> bytes
`images`: list of {"data": bytes, "ext": "png", "w":..,"h":..} referenced by {"k":"img","id":i} blocks.
opts: {"abs_targets": bool  (relationship targets as absolute part names), "slide_part_order": permutation (part numbering != reading order)}
"""
from __future__ import annotations

import io
import zipfile
from xml.sax.saxutils import escape, quoteattr

from vf.gen import omml as ommlgen

W = "http://schemas.openxmlformats.org/wordprocessingml/2006/main"
R = "http://schemas.openxmlformats.org/officeDocument/2006/relationships"
A = "http://schemas.openxmlformats.org/drawingml/2006/main"
P = "http://schemas.openxmlformats.org/presentationml/2006/main"
REL = "http://schemas.openxmlformats.org/package/2006/relationships"
CT = "http://schemas.openxmlformats.org/package/2006/content-types"
RT = "http://schemas.openxmlformats.org/officeDocument/2006/relationships/"
MIME = {"png": "image/png", "jpeg": "image/jpeg", "jpg": "image/jpeg", "gif": "image/gif", "bmp": "image/bmp"}


_MIME_ALIAS = {"png": "image/x-png", "jpeg": "image/jpg", "jpg": "image/pjpeg", "gif": "image/gif", "bmp": "image/x-ms-bmp"}


def _image_ctypes(opts, media: dict) -> list[str]:
    """[Content_Types].xml entries for the image parts.  opts["ct"]: None = a Default per known extension; "alias" = Defaults that use
    other registered names of the same types; "override" = no image Defaults, one Override per media part (both are valid packages)."""
    mode = (opts or {}).get("ct")
    if mode == "override":
        return [f'<Override PartName="/{name}" ContentType="{MIME.get(name.rsplit(".", 1)[-1], "application/octet-stream")}"/>' for name in sorted(media)]
    table = _MIME_ALIAS if mode == "alias" else MIME
    return [f'<Default Extension="{ext}" ContentType="{mt}"/>' for ext, mt in table.items()]


def core_xml(props: dict) -> str:
    p = props or {}
    parts = []
    if p.get("title") is not None:
        parts.append(f"<dc:title>{escape(p['title'])}</dc:title>")
    if p.get("subject") is not None:
        parts.append(f"<dc:subject>{escape(p['subject'])}</dc:subject>")
    if p.get("author") is not None:
        parts.append(f"<dc:creator>{escape(p['author'])}</dc:creator>")
    if p.get("keywords") is not None:
        parts.append(f"<cp:keywords>{escape(p['keywords'])}</cp:keywords>")
    if p.get("description") is not None:
        parts.append(f"<dc:description>{escape(p['description'])}</dc:description>")
    dates = p.get("_dates", "both")          # which of the two timestamps the core properties carry: both | created | modified | none
    parts.append("<cp:lastModifiedBy>vf</cp:lastModifiedBy><cp:revision>3</cp:revision>"
                 + ('<dcterms:created xsi:type="dcterms:W3CDTF">2024-03-01T12:00:00Z</dcterms:created>' if dates in ("both", "created") else "")
                 + ('<dcterms:modified xsi:type="dcterms:W3CDTF">2024-03-02T12:00:00Z</dcterms:modified>' if dates in ("both", "modified") else ""))
    return ('<?xml version="1.0" encoding="UTF-8" standalone="yes"?><cp:coreProperties '
            'xmlns:cp="http://schemas.openxmlformats.org/package/2006/metadata/core-properties" xmlns:dc="http://purl.org/dc/elements/1.1/" '
            'xmlns:dcterms="http://purl.org/dc/terms/" xmlns:dcmitype="http://purl.org/dc/dcmitype/" '
            'xmlns:xsi="http://www.w3.org/2001/XMLSchema-instance">' + "".join(parts) + "</cp:coreProperties>")


def _zip(parts: dict) -> bytes:
    buf = io.BytesIO()
    with zipfile.ZipFile(buf, "w", zipfile.ZIP_DEFLATED) as z:
        for name, data in parts.items():
            zi = zipfile.ZipInfo(name, date_time=(2024, 3, 1, 12, 0, 0))
            zi.compress_type = zipfile.ZIP_DEFLATED
            z.writestr(zi, data if isinstance(data, bytes) else data.encode("utf-8"))
    return buf.getvalue()


def _without_core(parts: dict) -> dict:
    """The same package without docProps/core.xml (the part is optional): part, content-type Override and package relationship removed."""
    import re
    out = {}
    for name, data in parts.items():
        if name == "docProps/core.xml":
            continue
        if name in ("[Content_Types].xml", "_rels/.rels"):
            text = data.decode("utf-8") if isinstance(data, bytes) else data
            text = re.sub(r'<Override PartName="/docProps/core.xml"[^>]*/>', "", text)
            text = re.sub(r'<Relationship [^>]*Target="docProps/core.xml"[^>]*/>', "", text)
            data = text
        out[name] = data
    return out


def _rels(rels: list[tuple[str, str, str, bool]]) -> str:
    out = [f'<?xml version="1.0" encoding="UTF-8" standalone="yes"?><Relationships xmlns="{REL}">']
    for rid, typ, target, external in rels:
        out.append(f'<Relationship Id="{rid}" Type="{typ}" Target={quoteattr(target)}' + (' TargetMode="External"' if external else "") + "/>")
    out.append("</Relationships>")
    return "".join(out)


# =================================================================================================================
# DOCX
# =================================================================================================================
class _DocxState:
    def __init__(self, doc, images, opts):
        self.doc, self.images, self.opts = doc, images or [], opts or {}
        self.rels = []  # (id, type, target, external)
        self.footnotes = []
        self.next_id = 10
        self.media = {}
        self.img_rid = {}
        self.docpr = 0

    def rid(self, typ, target, external=False):
        self.next_id += 1
        rid = f"rId{self.next_id}"
        self.rels.append((rid, RT + typ, target, external))
        return rid


def _w_run(text, sty=0, tag="t"):
    rpr = {0: "", 1: "<w:rPr><w:b/></w:rPr>", 2: '<w:rPr><w:i/><w:color w:val="FF0000"/><w:sz w:val="28"/></w:rPr>', 3: ""}.get(sty, "")
    sp = ' xml:space="preserve"' if text != text.strip() else ""
    return f"<w:r>{rpr}<w:{tag}{sp}>{escape(text)}</w:{tag}></w:r>"


def _w_inlines(inl, st, deleted=False):
    out = []
    for i in inl:
        k = i["k"]
        if k == "t":
            tag = "delText" if deleted else "t"
            if i.get("sty") == 3 and not deleted:  # token split over two runs
                out.append(_w_run(i["tok"][:3], 1, tag) + _w_run(i["tok"][3:], 0, tag))
            else:
                out.append(_w_run(i["tok"], i.get("sty", 0), tag))
        elif k == "tab":
            out.append("<w:r><w:tab/></w:r>")
        elif k == "br":
            out.append("<w:r><w:br/></w:r>")
        elif k == "link":
            rid = st.rid("hyperlink", i.get("url", "https://example.org/"), True)
            out.append(f'<w:hyperlink r:id="{rid}" w:history="1">' + _w_inlines(i["inl"], st) + "</w:hyperlink>")
        elif k == "ins":
            out.append('<w:ins w:id="901" w:author="vf" w:date="2024-03-01T12:00:00Z">' + _w_inlines(i["inl"], st) + "</w:ins>")
        elif k == "del":
            out.append('<w:del w:id="902" w:author="vf" w:date="2024-03-01T12:00:00Z">' + _w_inlines(i["inl"], st, deleted=True) + "</w:del>")
        elif k == "cref":
            cid = i["id"]
            out.append(f'<w:commentRangeStart w:id="{cid}"/><w:commentRangeEnd w:id="{cid}"/><w:r><w:rPr><w:rStyle w:val="CommentReference"/></w:rPr><w:commentReference w:id="{cid}"/></w:r>')
        elif k == "note":
            st.footnotes.append(i["inl"])
            out.append(f'<w:r><w:rPr><w:vertAlign w:val="superscript"/></w:rPr><w:footnoteReference w:id="{len(st.footnotes) + 1}"/></w:r>')
        elif k == "field":
            out.append('<w:r><w:fldChar w:fldCharType="begin"/></w:r><w:r><w:instrText xml:space="preserve"> DOCPROPERTY x </w:instrText></w:r>'
                       '<w:r><w:fldChar w:fldCharType="separate"/></w:r>' + _w_run(i["tok"]) + '<w:r><w:fldChar w:fldCharType="end"/></w:r>')
        elif k == "sdt":
            out.append('<w:sdt><w:sdtPr><w:alias w:val="cc"/><w:id w:val="77"/></w:sdtPr><w:sdtContent>' + _w_inlines(i["inl"], st) + "</w:sdtContent></w:sdt>")
        else:
            raise ValueError(k)
    return "".join(out)


def _w_drawing(st, idx):
    img = st.images[idx]
    if idx not in st.img_rid or st.opts.get("dup_rids"):
        name = f"media/image{idx + 1}.{img['ext']}"
        st.media["word/" + name] = img["data"]
        form = st.opts.get("img_ref", "relative")
        target = {"relative": name, "absolute": "/word/" + name, "dot": "./" + name, "parent": "../word/" + name}[form]
        st.img_rid[idx] = st.rid("image", target)
    rid = st.img_rid[idx]
    st.docpr += 1
    cx, cy = img.get("w", 10) * 9525, img.get("h", 10) * 9525
    return ('<w:r><w:drawing><wp:inline xmlns:wp="http://schemas.openxmlformats.org/drawingml/2006/wordprocessingDrawing" distT="0" distB="0" distL="0" distR="0">'
            f'<wp:extent cx="{cx}" cy="{cy}"/><wp:docPr id="{st.docpr}" name="Picture {st.docpr}" descr={quoteattr(img.get("alt", ""))}/>'
            f'<a:graphic xmlns:a="{A}"><a:graphicData uri="http://schemas.openxmlformats.org/drawingml/2006/picture">'
            '<pic:pic xmlns:pic="http://schemas.openxmlformats.org/drawingml/2006/picture"><pic:nvPicPr>'
            f'<pic:cNvPr id="{st.docpr}" name="image{idx + 1}.{img["ext"]}" descr={quoteattr(img.get("alt", ""))}/><pic:cNvPicPr/></pic:nvPicPr>'
            f'<pic:blipFill><a:blip r:embed="{rid}"/><a:stretch><a:fillRect/></a:stretch></pic:blipFill>'
            f'<pic:spPr><a:xfrm><a:off x="0" y="0"/><a:ext cx="{cx}" cy="{cy}"/></a:xfrm><a:prstGeom prst="rect"><a:avLst/></a:prstGeom></pic:spPr>'
            "</pic:pic></a:graphicData></a:graphic></wp:inline></w:drawing></w:r>")


def _w_blocks(blocks, st, in_cell=False):
    out = []
    for b in blocks:
        k = b["k"]
        if k == "p":
            ppr = f'<w:pPr><w:pStyle w:val="Heading{b["h"]}"/></w:pPr>' if b.get("h") else ""
            out.append(f"<w:p>{ppr}{_w_inlines(b['inl'], st)}</w:p>")
        elif k == "list":
            def items(its, lvl):
                for it in its:
                    out.append(f'<w:p><w:pPr><w:pStyle w:val="ListParagraph"/><w:numPr><w:ilvl w:val="{lvl}"/><w:numId w:val="{2 if b["ordered"] else 1}"/></w:numPr></w:pPr>'
                               + _w_inlines(it["inl"], st) + "</w:p>")
                    if it.get("sub"):
                        items(it["sub"], lvl + 1)
            items(b["items"], 0)
        elif k == "tbl":
            ncol = max(len(r) for r in b["rows"])
            rows = []
            for ri, row in enumerate(b["rows"]):
                trpr = "<w:trPr><w:tblHeader/></w:trPr>" if ri < b.get("hdr", 0) else ""
                cells = []
                for cell in row:
                    inner = _w_blocks(cell["blocks"], st, True)
                    if not cell["blocks"] or cell["blocks"][-1]["k"] != "p":
                        inner += "<w:p/>"  # a cell must end with a paragraph
                    cells.append(f'<w:tc><w:tcPr><w:tcW w:w="2000" w:type="dxa"/></w:tcPr>{inner}</w:tc>')
                rows.append(f"<w:tr>{trpr}{''.join(cells)}</w:tr>")
            out.append('<w:tbl><w:tblPr><w:tblStyle w:val="TableGrid"/><w:tblW w:w="0" w:type="auto"/></w:tblPr><w:tblGrid>'
                       + '<w:gridCol w:w="2000"/>' * ncol + "</w:tblGrid>" + "".join(rows) + "</w:tbl>")
        elif k == "box":
            inner = _w_blocks(b["blocks"], st, in_cell)
            if b["kind"] == "sdt":
                out.append('<w:sdt><w:sdtPr><w:alias w:val="block cc"/><w:id w:val="78"/></w:sdtPr><w:sdtContent>' + inner + "</w:sdtContent></w:sdt>")
            elif b["kind"] == "textbox":
                st.docpr += 1
                out.append('<w:p><w:r><mc:AlternateContent><mc:Choice Requires="wps"><w:drawing>'
                           '<wp:anchor xmlns:wp="http://schemas.openxmlformats.org/drawingml/2006/wordprocessingDrawing" distT="0" distB="0" distL="0" distR="0" simplePos="0" '
                           'relativeHeight="1" behindDoc="0" locked="0" layoutInCell="1" allowOverlap="1"><wp:simplePos x="0" y="0"/>'
                           '<wp:positionH relativeFrom="column"><wp:posOffset>0</wp:posOffset></wp:positionH><wp:positionV relativeFrom="paragraph"><wp:posOffset>0</wp:posOffset></wp:positionV>'
                           f'<wp:extent cx="1800000" cy="900000"/><wp:wrapSquare wrapText="bothSides"/><wp:docPr id="{st.docpr}" name="Text Box {st.docpr}"/>'
                           f'<a:graphic xmlns:a="{A}"><a:graphicData uri="http://schemas.microsoft.com/office/word/2010/wordprocessingShape">'
                           '<wps:wsp><wps:cNvSpPr txBox="1"/><wps:spPr/><wps:txbx><w:txbxContent>' + inner + "</w:txbxContent></wps:txbx><wps:bodyPr/></wps:wsp>"
                           "</a:graphicData></a:graphic></wp:anchor></w:drawing></mc:Choice>"
                           '<mc:Fallback><w:pict><v:shape xmlns:v="urn:schemas-microsoft-com:vml" type="#_x0000_t202" style="width:100pt;height:50pt"><v:textbox><w:txbxContent>'
                           + inner + "</w:txbxContent></v:textbox></v:shape></w:pict></mc:Fallback></mc:AlternateContent></w:r></w:p>")
            else:
                out.append(inner)
        elif k == "pb":
            out.append('<w:p><w:r><w:br w:type="page"/></w:r></w:p>')
        elif k == "img":
            out.append(f"<w:p>{_w_drawing(st, b['id'])}</w:p>")
        elif k == "math":
            maths = "".join(ommlgen.omath_xml(L, standalone=False) for L in b["omml"]["maths"])
            if b.get("display"):
                out.append(f"<w:p><m:oMathPara>{maths}</m:oMathPara></w:p>")
            else:
                out.append(f"<w:p>{_w_run(b.get('pre', ''))}{maths}{_w_run(b.get('post', ''))}</w:p>")
        else:
            raise ValueError(k)
    return "".join(out)


_W_NSDECL = (f'xmlns:w="{W}" xmlns:r="{R}" xmlns:m="http://schemas.openxmlformats.org/officeDocument/2006/math" '
             'xmlns:mc="http://schemas.openxmlformats.org/markup-compatibility/2006" xmlns:wps="http://schemas.microsoft.com/office/word/2010/wordprocessingShape" '
             'xmlns:w14="http://schemas.microsoft.com/office/word/2010/wordml" mc:Ignorable="w14"')


def render_docx(doc, *, images=None, opts=None) -> bytes:
    st = _DocxState(doc, images, opts)
    body = "".join(_w_blocks(u["blocks"], st) for u in doc["units"])
    parts = {}
    ctypes = ['<Default Extension="rels" ContentType="application/vnd.openxmlformats-package.relationships+xml"/>', '<Default Extension="xml" ContentType="application/xml"/>']
    over = ['<Override PartName="/word/document.xml" ContentType="application/vnd.openxmlformats-officedocument.wordprocessingml.document.main+xml"/>',
            '<Override PartName="/word/styles.xml" ContentType="application/vnd.openxmlformats-officedocument.wordprocessingml.styles+xml"/>',
            '<Override PartName="/docProps/core.xml" ContentType="application/vnd.openxmlformats-package.core-properties+xml"/>']
    sect = ""
    st.rels.append(("rId1", RT + "styles", "styles.xml", False))
    if doc.get("header") is not None:
        st.rels.append(("rId2", RT + "header", "header1.xml", False))
        st.rels.append(("rId3", RT + "footer", "footer1.xml", False))
        parts["word/header1.xml"] = f'<?xml version="1.0" encoding="UTF-8" standalone="yes"?><w:hdr {_W_NSDECL}><w:p>{_w_inlines(doc["header"], st)}</w:p></w:hdr>'
        parts["word/footer1.xml"] = f'<?xml version="1.0" encoding="UTF-8" standalone="yes"?><w:ftr {_W_NSDECL}><w:p>{_w_inlines(doc["footer"] or [], st)}</w:p></w:ftr>'
        over += ['<Override PartName="/word/header1.xml" ContentType="application/vnd.openxmlformats-officedocument.wordprocessingml.header+xml"/>',
                 '<Override PartName="/word/footer1.xml" ContentType="application/vnd.openxmlformats-officedocument.wordprocessingml.footer+xml"/>']
        sect = '<w:headerReference w:type="default" r:id="rId2"/><w:footerReference w:type="default" r:id="rId3"/>'
    if doc.get("comments"):
        st.rels.append(("rId4", RT + "comments", "comments.xml", False))
        cs = "".join(f'<w:comment w:id="{i}" w:author="vf" w:date="2024-03-01T12:00:00Z" w:initials="v"><w:p>{_w_inlines(c, st)}</w:p></w:comment>' for i, c in enumerate(doc["comments"]))
        parts["word/comments.xml"] = f'<?xml version="1.0" encoding="UTF-8" standalone="yes"?><w:comments {_W_NSDECL}>{cs}</w:comments>'
        over.append('<Override PartName="/word/comments.xml" ContentType="application/vnd.openxmlformats-officedocument.wordprocessingml.comments+xml"/>')
    if st.footnotes:
        st.rels.append(("rId5", RT + "footnotes", "footnotes.xml", False))
        fs = ('<w:footnote w:type="separator" w:id="-1"><w:p><w:r><w:separator/></w:r></w:p></w:footnote>'
              '<w:footnote w:type="continuationSeparator" w:id="0"><w:p><w:r><w:continuationSeparator/></w:r></w:p></w:footnote>')
        fs += "".join(f'<w:footnote w:id="{i + 2}"><w:p><w:r><w:footnoteRef/></w:r>{_w_inlines(f, st)}</w:p></w:footnote>' for i, f in enumerate(st.footnotes))
        parts["word/footnotes.xml"] = f'<?xml version="1.0" encoding="UTF-8" standalone="yes"?><w:footnotes {_W_NSDECL}>{fs}</w:footnotes>'
        over.append('<Override PartName="/word/footnotes.xml" ContentType="application/vnd.openxmlformats-officedocument.wordprocessingml.footnotes+xml"/>')
    # heading styles: named "heading N" (Word), or left out of styles.xml so that only the style id "HeadingN" is there to go by (generated documents)
    styles = "" if (opts or {}).get("heading_styles") == "id-only" else "".join(
        f'<w:style w:type="paragraph" w:styleId="Heading{i}"><w:name w:val="heading {i}"/><w:basedOn w:val="Normal"/><w:pPr><w:outlineLvl w:val="{i - 1}"/></w:pPr></w:style>' for i in range(1, 7))
    styles += ('<w:style w:type="paragraph" w:default="1" w:styleId="Normal"><w:name w:val="Normal"/></w:style>'
               '<w:style w:type="paragraph" w:styleId="ListParagraph"><w:name w:val="List Paragraph"/><w:basedOn w:val="Normal"/></w:style>'
               '<w:style w:type="table" w:styleId="TableGrid"><w:name w:val="Table Grid"/></w:style>')
    parts["word/styles.xml"] = f'<?xml version="1.0" encoding="UTF-8" standalone="yes"?><w:styles {_W_NSDECL}>{styles}</w:styles>'
    parts["word/document.xml"] = (f'<?xml version="1.0" encoding="UTF-8" standalone="yes"?><w:document {_W_NSDECL}><w:body>{body}'
                                  f'<w:sectPr>{sect}<w:pgSz w:w="11906" w:h="16838"/><w:pgMar w:top="1440" w:right="1440" w:bottom="1440" w:left="1440" w:header="708" w:footer="708" w:gutter="0"/></w:sectPr>'
                                  "</w:body></w:document>")
    parts["word/_rels/document.xml.rels"] = _rels(st.rels)
    parts["docProps/core.xml"] = core_xml(doc.get("props"))
    parts["_rels/.rels"] = _rels([("rId1", RT + "officeDocument", "word/document.xml", False),
                                  ("rId2", "http://schemas.openxmlformats.org/package/2006/relationships/metadata/core-properties", "docProps/core.xml", False)])
    parts.update(st.media)
    ordered = {"[Content_Types].xml": f'<?xml version="1.0" encoding="UTF-8" standalone="yes"?><Types xmlns="{CT}">' + "".join(ctypes + _image_ctypes(opts, st.media) + over) + "</Types>"}
    ordered.update(parts)
    if (opts or {}).get("no_core") and not {k: v for k, v in (doc.get("props") or {}).items() if not k.startswith("_")}:
        ordered = _without_core(ordered)
    return _zip(ordered)


# =================================================================================================================
# PPTX
# =================================================================================================================
def _a_runs(inl, st):
    """-> list of paragraph-content strings (a:br splits stay inside one paragraph)."""
    out = []
    for i in inl:
        k = i["k"]
        if k == "t":
            rpr = {0: '<a:rPr lang="en-US"/>', 1: '<a:rPr lang="en-US" b="1"/>', 2: '<a:rPr lang="en-US" i="1" sz="2400"/>', 3: '<a:rPr lang="en-US"/>'}[i.get("sty", 0) % 4]
            if i.get("sty") == 3:
                out.append(f"<a:r>{rpr}<a:t>{escape(i['tok'][:3])}</a:t></a:r><a:r>{rpr}<a:t>{escape(i['tok'][3:])}</a:t></a:r>")
            else:
                out.append(f"<a:r>{rpr}<a:t>{escape(i['tok'])}</a:t></a:r>")
        elif k == "tab":
            out.append('<a:r><a:rPr lang="en-US"/><a:t>\t</a:t></a:r>')
        elif k == "br":
            out.append("<a:br/>")
        elif k == "link":
            rid = st["rid"]("hyperlink", i.get("url", "https://example.org/"), True)
            for j in i["inl"]:
                if j["k"] == "t":
                    out.append(f'<a:r><a:rPr lang="en-US"><a:hlinkClick r:id="{rid}"/></a:rPr><a:t>{escape(j["tok"])}</a:t></a:r>')
                else:
                    out.extend(_a_runs([j], st))
        elif k == "field":
            out.append(f'<a:fld id="{{B5F0A1C2-1111-2222-3333-444455556666}}" type="datetime1"><a:rPr lang="en-US"/><a:t>{escape(i["tok"])}</a:t></a:fld>')
        else:
            raise ValueError(k)
    return "".join(out)


def _a_paras(blocks, st):
    """paragraph-only content (text bodies of shapes / cells)."""
    out = []
    for b in blocks:
        if b["k"] == "p":
            out.append(f"<a:p>{_a_runs(b['inl'], st)}</a:p>")
        elif b["k"] == "list":
            def items(its, lvl):
                for it in its:
                    out.append(f'<a:p><a:pPr lvl="{lvl}"><a:buChar char="&#8226;"/></a:pPr>{_a_runs(it["inl"], st)}</a:p>')
                    if it.get("sub"):
                        items(it["sub"], lvl + 1)
            items(b["items"], 0)
        else:
            raise ValueError(b["k"])
    return "".join(out) or "<a:p/>"


def _p_shapes(blocks, st, top):
    """each block becomes one shape, stacked top to bottom (strictly increasing, distinct offsets)."""
    out = []
    for b in blocks:
        st["sid"] += 1
        sid = st["sid"]
        st["y"] += 400000
        y = st["y"]
        if st.get("layout") == "same" and top and all(x["k"] in ("p", "list") for x in blocks):
            # (only for slides made of text shapes: the extractor orders shapes by position and collects text shapes, pictures and graphic frames in
            #  separate passes, so a tie between different kinds has no defined order)
            # every shape at the same offset (stacked text boxes, or shapes that inherit their position from the layout): reading order is then the order in the file
            xfrm = '<a:xfrm><a:off x="500000" y="900000"/><a:ext cx="8000000" cy="350000"/></a:xfrm>'
            y = 900000
            sid_off = 0
        else:
            xfrm = f'<a:xfrm><a:off x="{500000 + sid}" y="{y}"/><a:ext cx="8000000" cy="350000"/></a:xfrm>'
            sid_off = sid
        k = b["k"]
        if k in ("p", "list"):
            is_title = k == "p" and b.get("h") and not st["has_title"] and top
            if is_title:
                st["has_title"] = True
                nv = f'<p:nvSpPr><p:cNvPr id="{sid}" name="Title {sid}"/><p:cNvSpPr><a:spLocks noGrp="1"/></p:cNvSpPr><p:nvPr><p:ph type="title"/></p:nvPr></p:nvSpPr>'
            elif k == "list":
                nv = f'<p:nvSpPr><p:cNvPr id="{sid}" name="Content {sid}"/><p:cNvSpPr><a:spLocks noGrp="1"/></p:cNvSpPr><p:nvPr><p:ph idx="{sid}"/></p:nvPr></p:nvSpPr>'
            else:
                nv = f'<p:nvSpPr><p:cNvPr id="{sid}" name="TextBox {sid}"/><p:cNvSpPr txBox="1"/><p:nvPr/></p:nvSpPr>'
            out.append(f'<p:sp>{nv}<p:spPr>{xfrm}<a:prstGeom prst="rect"><a:avLst/></a:prstGeom></p:spPr>'
                       f'<p:txBody><a:bodyPr wrap="square"/><a:lstStyle/>{_a_paras([b], st)}</p:txBody></p:sp>')
        elif k == "tbl":
            ncol = max(len(r) for r in b["rows"])
            rows = []
            merged = bool(st.get("merged_cells"))
            for ri, row in enumerate(b["rows"]):
                # merged_cells: an empty cell right of another cell is written as the hMerge continuation of a gridSpan cell, an empty first-column cell below
                # another row as the vMerge continuation of a rowSpan cell - the way PowerPoint stores merged cells (the grid keeps all r x c <a:tc> elements)
                attrs = [""] * len(row)
                if merged:
                    cont = [not c["blocks"] and j > 0 for j, c in enumerate(row)]
                    for j, c in enumerate(row):
                        if cont[j]:
                            attrs[j] = ' hMerge="1"'
                        else:
                            n = 1
                            while j + n < len(row) and cont[j + n]:
                                n += 1
                            if n > 1:
                                attrs[j] = f' gridSpan="{n}"'
                            elif not c["blocks"] and j == 0 and ri > 0:
                                attrs[j] = ' vMerge="1"'
                cells = "".join(f'<a:tc{attrs[j]}><a:txBody><a:bodyPr/><a:lstStyle/>{_a_paras(c["blocks"], st)}</a:txBody><a:tcPr/></a:tc>' for j, c in enumerate(row))
                rows.append(f'<a:tr h="370840">{cells}</a:tr>')
            out.append(f'<p:graphicFrame><p:nvGraphicFramePr><p:cNvPr id="{sid}" name="Table {sid}"/><p:cNvGraphicFramePr><a:graphicFrameLocks noGrp="1"/></p:cNvGraphicFramePr><p:nvPr/></p:nvGraphicFramePr>'
                       f'<p:xfrm><a:off x="{500000 + sid_off}" y="{y}"/><a:ext cx="8000000" cy="350000"/></p:xfrm>'
                       '<a:graphic><a:graphicData uri="http://schemas.openxmlformats.org/drawingml/2006/table"><a:tbl><a:tblPr firstRow="1" bandRow="1"/><a:tblGrid>'
                       + '<a:gridCol w="2000000"/>' * ncol + "</a:tblGrid>" + "".join(rows) + "</a:tbl></a:graphicData></a:graphic></p:graphicFrame>")
        elif k == "box":  # group shape
            inner = _p_shapes(b["blocks"], st, False)
            out.append(f'<p:grpSp><p:nvGrpSpPr><p:cNvPr id="{sid}" name="Group {sid}"/><p:cNvGrpSpPr/><p:nvPr/></p:nvGrpSpPr>'
                       f'<p:grpSpPr><a:xfrm><a:off x="0" y="0"/><a:ext cx="9000000" cy="6000000"/><a:chOff x="0" y="0"/><a:chExt cx="9000000" cy="6000000"/></a:xfrm></p:grpSpPr>{inner}</p:grpSp>')
        elif k == "img":
            img = st["images"][b["id"]]
            rid = st["img_rid"](b["id"])
            out.append(f'<p:pic><p:nvPicPr><p:cNvPr id="{sid}" name="Picture {sid}" descr={quoteattr(img.get("alt", ""))}/><p:cNvPicPr/><p:nvPr/></p:nvPicPr>'
                       f'<p:blipFill><a:blip r:embed="{rid}"/><a:stretch><a:fillRect/></a:stretch></p:blipFill>'
                       f'<p:spPr>{xfrm}<a:prstGeom prst="rect"><a:avLst/></a:prstGeom></p:spPr></p:pic>')
        elif k == "math":
            maths = "".join(ommlgen.omath_xml(L, standalone=False) for L in b["omml"]["maths"])
            inner = f"<m:oMathPara>{maths}</m:oMathPara>" if b.get("display") else maths
            out.append(f'<p:sp><p:nvSpPr><p:cNvPr id="{sid}" name="TextBox {sid}"/><p:cNvSpPr txBox="1"/><p:nvPr/></p:nvSpPr><p:spPr>{xfrm}</p:spPr>'
                       '<p:txBody><a:bodyPr/><a:lstStyle/><a:p><mc:AlternateContent xmlns:mc="http://schemas.openxmlformats.org/markup-compatibility/2006">'
                       '<mc:Choice xmlns:a14="http://schemas.microsoft.com/office/drawing/2010/main" Requires="a14">'
                       f'<a14:m>{inner}</a14:m></mc:Choice><mc:Fallback><a:r><a:rPr lang="en-US"/><a:t> </a:t></a:r></mc:Fallback></mc:AlternateContent></a:p></p:txBody></p:sp>')
        else:
            raise ValueError(k)
    return "".join(out)


_P_NS = f'xmlns:a="{A}" xmlns:r="{R}" xmlns:p="{P}" xmlns:m="http://schemas.openxmlformats.org/officeDocument/2006/math" xmlns:w="http://schemas.openxmlformats.org/wordprocessingml/2006/main"'


def render_pptx(doc, *, images=None, opts=None) -> bytes:
    opts = opts or {}
    images = images or []
    n = len(doc["units"])
    part_no = opts.get("slide_part_order") or (list(range(n, 0, -1)) if opts.get("permute_parts") else list(range(1, n + 1)))  # part number used by the i-th slide in reading order
    parts, media = {}, {}
    ctypes = ['<Default Extension="rels" ContentType="application/vnd.openxmlformats-package.relationships+xml"/>', '<Default Extension="xml" ContentType="application/xml"/>']
    over = ['<Override PartName="/ppt/presentation.xml" ContentType="application/vnd.openxmlformats-officedocument.presentationml.presentation.main+xml"/>',
            '<Override PartName="/ppt/slideMasters/slideMaster1.xml" ContentType="application/vnd.openxmlformats-officedocument.presentationml.slideMaster+xml"/>',
            '<Override PartName="/ppt/slideLayouts/slideLayout1.xml" ContentType="application/vnd.openxmlformats-officedocument.presentationml.slideLayout+xml"/>',
            '<Override PartName="/docProps/core.xml" ContentType="application/vnd.openxmlformats-package.core-properties+xml"/>']
    pres_rels = [("rId1", RT + "slideMaster", "slideMasters/slideMaster1.xml", False)]
    sld_ids = []
    for i, u in enumerate(doc["units"]):
        pn = part_no[i]
        rels = [("rId1", RT + "slideLayout", "../slideLayouts/slideLayout1.xml", False)]
        cnt = [1]
        rid_cache = {}

        def rid(typ, target, external=False, rels=rels, cnt=cnt):
            cnt[0] += 1
            rels.append((f"rId{cnt[0]}", RT + typ, target, external))
            return f"rId{cnt[0]}"

        def img_rid(idx, rid=rid, rid_cache=rid_cache):
            if idx not in rid_cache or opts.get("dup_rids"):
                img = images[idx]
                name = f"image{idx + 1}.{img['ext']}"
                media["ppt/media/" + name] = img["data"]
                form = opts.get("img_ref", "parent")
                target = {"parent": "../media/" + name, "absolute": "/ppt/media/" + name, "relative": "../media/./" + name}[form]
                rid_cache[idx] = rid("image", target)
            return rid_cache[idx]
        st = {"sid": 1, "y": 0, "has_title": False, "rid": rid, "img_rid": img_rid, "images": images, "layout": opts.get("layout"), "merged_cells": opts.get("merged_cells")}
        shapes = _p_shapes(u["blocks"], st, True)
        if doc.get("footer") is not None:
            st["sid"] += 1
            shapes += (f'<p:sp><p:nvSpPr><p:cNvPr id="{st["sid"]}" name="Footer"/><p:cNvSpPr><a:spLocks noGrp="1"/></p:cNvSpPr><p:nvPr><p:ph type="ftr" sz="quarter" idx="11"/></p:nvPr></p:nvSpPr>'
                       f'<p:spPr/><p:txBody><a:bodyPr/><a:lstStyle/><a:p>{_a_runs(doc["footer"], st)}</a:p></p:txBody></p:sp>')
            st["sid"] += 1
            shapes += (f'<p:sp><p:nvSpPr><p:cNvPr id="{st["sid"]}" name="Slide Number"/><p:cNvSpPr><a:spLocks noGrp="1"/></p:cNvSpPr><p:nvPr><p:ph type="sldNum" sz="quarter" idx="12"/></p:nvPr></p:nvSpPr>'
                       f'<p:spPr/><p:txBody><a:bodyPr/><a:lstStyle/><a:p><a:fld id="{{A1B2C3D4-0000-0000-0000-000000000000}}" type="slidenum"><a:rPr lang="en-US"/><a:t>{i + 1}</a:t></a:fld></a:p></p:txBody></p:sp>')
        slide = (f'<?xml version="1.0" encoding="UTF-8" standalone="yes"?><p:sld {_P_NS}><p:cSld><p:spTree><p:nvGrpSpPr><p:cNvPr id="1" name=""/><p:cNvGrpSpPr/><p:nvPr/></p:nvGrpSpPr>'
                 '<p:grpSpPr><a:xfrm><a:off x="0" y="0"/><a:ext cx="0" cy="0"/><a:chOff x="0" y="0"/><a:chExt cx="0" cy="0"/></a:xfrm></p:grpSpPr>'
                 f"{shapes}</p:spTree></p:cSld><p:clrMapOvr><a:masterClrMapping/></p:clrMapOvr></p:sld>")
        if u.get("notes"):
            nrid = rid("notesSlide", f"../notesSlides/notesSlide{pn}.xml")
            parts[f"ppt/notesSlides/notesSlide{pn}.xml"] = (
                f'<?xml version="1.0" encoding="UTF-8" standalone="yes"?><p:notes {_P_NS}><p:cSld><p:spTree><p:nvGrpSpPr><p:cNvPr id="1" name=""/><p:cNvGrpSpPr/><p:nvPr/></p:nvGrpSpPr><p:grpSpPr/>'
                '<p:sp><p:nvSpPr><p:cNvPr id="3" name="Notes Placeholder"/><p:cNvSpPr><a:spLocks noGrp="1"/></p:cNvSpPr><p:nvPr><p:ph type="body" idx="1"/></p:nvPr></p:nvSpPr><p:spPr/>'
                f'<p:txBody><a:bodyPr/><a:lstStyle/><a:p>{_a_runs(u["notes"], st)}</a:p></p:txBody></p:sp></p:spTree></p:cSld></p:notes>')
            parts[f"ppt/notesSlides/_rels/notesSlide{pn}.xml.rels"] = _rels([("rId1", RT + "slide", f"../slides/slide{pn}.xml", False)])
            over.append(f'<Override PartName="/ppt/notesSlides/notesSlide{pn}.xml" ContentType="application/vnd.openxmlformats-officedocument.presentationml.notesSlide+xml"/>')
        if i == 0 and doc.get("comments"):
            # PowerPoint 2007-2016 comment part: ppt/comments/comment<N>.xml + commentAuthors.xml
            cms = "".join(f'<p:cm authorId="0" dt="2024-03-01T12:00:00.000" idx="{ci + 1}"><p:pos x="10" y="10"/><p:text>{escape(" ".join(x["tok"] for x in c if x["k"] == "t"))}</p:text></p:cm>'
                          for ci, c in enumerate(doc["comments"]))
            parts[f"ppt/comments/comment{pn}.xml"] = f'<?xml version="1.0" encoding="UTF-8" standalone="yes"?><p:cmLst {_P_NS}>{cms}</p:cmLst>'
            parts["ppt/commentAuthors.xml"] = f'<?xml version="1.0" encoding="UTF-8" standalone="yes"?><p:cmAuthorLst {_P_NS}><p:cmAuthor id="0" name="vf" initials="v" lastIdx="9" clrIdx="0"/></p:cmAuthorLst>'
            rid("comments", f"../comments/comment{pn}.xml")
            over.append(f'<Override PartName="/ppt/comments/comment{pn}.xml" ContentType="application/vnd.openxmlformats-officedocument.presentationml.comments+xml"/>')
        parts[f"ppt/slides/slide{pn}.xml"] = slide
        parts[f"ppt/slides/_rels/slide{pn}.xml.rels"] = _rels(rels)
        over.append(f'<Override PartName="/ppt/slides/slide{pn}.xml" ContentType="application/vnd.openxmlformats-officedocument.presentationml.slide+xml"/>')
        target = f"/ppt/slides/slide{pn}.xml" if opts.get("abs_targets") else f"slides/slide{pn}.xml"
        pres_rels.append((f"rId{i + 10}", RT + "slide", target, False))
        sld_ids.append(f'<p:sldId id="{256 + i}" r:id="rId{i + 10}"/>')
    parts["ppt/presentation.xml"] = (f'<?xml version="1.0" encoding="UTF-8" standalone="yes"?><p:presentation {_P_NS}><p:sldMasterIdLst><p:sldMasterId id="2147483648" r:id="rId1"/></p:sldMasterIdLst>'
                                     f'<p:sldIdLst>{"".join(sld_ids)}</p:sldIdLst><p:sldSz cx="9144000" cy="6858000"/><p:notesSz cx="6858000" cy="9144000"/></p:presentation>')
    # relationship order in the rels part deliberately differs from reading order when parts are permuted
    parts["ppt/_rels/presentation.xml.rels"] = _rels(sorted(pres_rels, key=lambda r: r[2]) if (opts.get("slide_part_order") or opts.get("permute_parts")) else pres_rels)
    master_text = '<p:sp><p:nvSpPr><p:cNvPr id="2" name="Title Placeholder"/><p:cNvSpPr/><p:nvPr><p:ph type="title"/></p:nvPr></p:nvSpPr><p:spPr/><p:txBody><a:bodyPr/><a:lstStyle/><a:p><a:r><a:rPr lang="en-US"/><a:t>Click to edit Master title style</a:t></a:r></a:p></p:txBody></p:sp>'
    parts["ppt/slideMasters/slideMaster1.xml"] = (f'<?xml version="1.0" encoding="UTF-8" standalone="yes"?><p:sldMaster {_P_NS}><p:cSld><p:spTree><p:nvGrpSpPr><p:cNvPr id="1" name=""/><p:cNvGrpSpPr/><p:nvPr/></p:nvGrpSpPr><p:grpSpPr/>{master_text}</p:spTree></p:cSld>'
                                                  '<p:clrMap bg1="lt1" tx1="dk1" bg2="lt2" tx2="dk2" accent1="accent1" accent2="accent2" accent3="accent3" accent4="accent4" accent5="accent5" accent6="accent6" hlink="hlink" folHlink="folHlink"/>'
                                                  '<p:sldLayoutIdLst><p:sldLayoutId id="2147483649" r:id="rId1"/></p:sldLayoutIdLst></p:sldMaster>')
    parts["ppt/slideMasters/_rels/slideMaster1.xml.rels"] = _rels([("rId1", RT + "slideLayout", "../slideLayouts/slideLayout1.xml", False)])
    parts["ppt/slideLayouts/slideLayout1.xml"] = (f'<?xml version="1.0" encoding="UTF-8" standalone="yes"?><p:sldLayout {_P_NS} type="title"><p:cSld name="Title Slide"><p:spTree><p:nvGrpSpPr><p:cNvPr id="1" name=""/><p:cNvGrpSpPr/><p:nvPr/></p:nvGrpSpPr><p:grpSpPr/></p:spTree></p:cSld></p:sldLayout>')
    parts["ppt/slideLayouts/_rels/slideLayout1.xml.rels"] = _rels([("rId1", RT + "slideMaster", "../slideMasters/slideMaster1.xml", False)])
    parts["docProps/core.xml"] = core_xml(doc.get("props"))
    parts["_rels/.rels"] = _rels([("rId1", RT + "officeDocument", "ppt/presentation.xml", False),
                                  ("rId2", "http://schemas.openxmlformats.org/package/2006/relationships/metadata/core-properties", "docProps/core.xml", False)])
    parts.update(media)
    ordered = {"[Content_Types].xml": f'<?xml version="1.0" encoding="UTF-8" standalone="yes"?><Types xmlns="{CT}">' + "".join(ctypes + _image_ctypes(opts, media) + over) + "</Types>"}
    ordered.update(parts)
    if (opts or {}).get("no_core") and not {k: v for k, v in (doc.get("props") or {}).items() if not k.startswith("_")}:
        ordered = _without_core(ordered)
    return _zip(ordered)


def wellformed(data: bytes) -> bool:
    """self-check: every .xml / .rels part parses; zip is intact."""
    from xml.etree import ElementTree as ET
    z = zipfile.ZipFile(io.BytesIO(data))
    assert z.testzip() is None
    for n in z.namelist():
        if n.endswith(".xml") or n.endswith(".rels"):
            ET.fromstring(z.read(n))
    return True
